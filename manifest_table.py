FIX_COMMITS = ["38bce1d"]
CHECKS["C11"] = dict(
    level="proof",
    technique="contract-based deductive verification: structural induction over the interpreter's AST grammar; VCs generated from the AST of safe_eval.py + stdlib ast.NodeVisitor, discharged by z3",
    text="For every AST node class K of the running interpreter (one case each) the real visitor code is executed symbolically on an arbitrary well-shaped node; 'visit returns normally => Safe(node)' is proved with the contract of visit() as induction hypothesis at recursive calls, loops cut by invariants; compile() is shown to reach compile/eval only after visit accepted; env keys = whitelist. No bound on depth or size.",
    note="Trusted: pyvc's model of Python, z3; node shapes as produced by ast.parse (ASDL signatures read from the interpreter); CPython evaluates Safe trees without attribute/import/name access outside the whitelist.",
    ref="DESIGN.md section 7 (C11), A.5")
FIX_COMMITS.append("bb0b7a2")
CHECKS["C07"] = dict(
    level="proof",
    technique="contract-based deductive verification: per-function contracts on the SER-building code (delta collector, built-in checks, snapshots, clock), VCs from the real AST, z3",
    text="DeltaCollector.compute (created/updated = sorted set differences under the stable-equality spec), _stable_equal, _build_pre_checks / _build_post_checks / _type_check_entry (PASS iff the stated condition, for arbitrary key lists and type expectations), _context_snapshot (fresh copy, context untouched), _iso_now / _now_timestamp against a UTC clock contract with symbolic zone offset, _start_timing/_end_timing non-negative durations. Loops cut by invariants / closed forms; no bound on key counts.",
    note="Not under contract yet (listed as unverified): _resolve_params_with_sources provenance lemma, digest chaining in execute(), processor.ref. Assumed: serialize/sha256/safe_repr deterministic (uninterpreted), == on user values pure (PyEq), clock contract datetime.now() = UTC + zone offset.",
    ref="DESIGN.md section 7 (C07)")
CHECKS["C01"] = dict(
    level="proof",
    technique="contract-based deductive verification: contracts on parameter resolution, node processing, context observers and generated context processors; VCs from the real AST, z3",
    text="resolve_runtime_value = Resolve(config > context > default) and KeyError iff unresolvable; _default_for against the metadata definition; _get_processor_parameters (loop invariant: parameters = Resolve on the names seen) ; _DataNode._process (type gate, then Logic on the resolved parameters, context object preserved, failure exactly at the prescribed point with the processor not run); probe node (data passes through, ctx' = ctx[key := result]); validating observer and DataOperation notifier (KeyError iff undeclared, nothing else written); generated rename/delete processors (a present non-None value is moved/removed, only declared keys touched). Arbitrary configs/contexts/name lists, no bound.",
    note="Not under contract yet: SemantivaOrchestrator.execute node loop (fold of node semantics), slicers, sweep wrappers, IO adapters, template processor, string->class resolution. Processor logic is uninterpreted (LogicOut/LogicFails).",
    ref="DESIGN.md section 7 (C01)")
CHECKS["C08"] = dict(
    level="proof",
    technique="contract-based deductive verification of source select/rename (loop invariants over an arbitrary column order, z3); expansion order only by a bounded run-time-contract enumeration (labelled bounded)",
    text="_load_and_process_source: for arbitrary column mappings, select lists and rename tables the result is exactly the selected columns mapped through the rename table with values preserved, and a missing selected column or any collision after rename is rejected (both loops cut by invariants). expand_run_space/_expand_entries are NOT proved: a bounded stand-in compares them with the documented Expand function over small specifications (bound in evidence) and measures materialisation under an exceeded cap.",
    note="Proved part assumes the file system, parsers and SHA-256 abstract. The bounded part is exploration, not proof. Known finding C08-KF1 (cap checked after materialising a block's product) is open.",
    ref="DESIGN.md section 7 (C08)")
CHECKS["C13"] = dict(
    level="proof",
    technique="contract-based deductive verification of the aggregator (finalize_run, the five ingesters, dispatch, _expected_nodes, _coerce_int) with loop invariants and frame conditions, plus a z3 commutation lemma over the abstract view; bounded prefix/permutation tier on real traces as cross-check",
    text="Proved for arbitrary aggregator states/records: finalize_run verdict = documented verdict (complete iff both edges, missing edge named, missing/orphan nodes = sorted set differences against the expected set, verdict-relevant state untouched so finalising twice agrees); every _ingest_* sets exactly its flag/status on the addressed aggregate (created if absent), keeps the other lifecycle flag, the node table and all other runs/launches (frame conditions), links runs to launches; ingest dispatches each record type to its ingester; _expected_nodes/_coerce_int contracts; pairwise commutation and idempotence of the update functions on the abstract view. finalize_launch is covered only by the bounded tier.",
    note="Assumed: producer record shapes (ids/timestamps strings or absent), typed aggregate fields, distinct keys map to distinct aggregate objects, lift from pairwise commutation to permutations (List.Perm.foldl_eq'). The bounded tier (real traces x prefixes x seeded permutations) is exploration and is reported separately.",
    ref="DESIGN.md section 7 (C13)")
FIX_COMMITS += ["30eaae6", "8a84054"]
CHECKS["C02"] = dict(
    level="proof",
    technique="contract-based deductive verification of origin classification, the type gate and type-flow validation (loop invariant with a carried 'nearest typed predecessor'); the 300-line flow analysis loop only by a bounded inspect->validate->run tier (labelled bounded)",
    text="Proved: inspect_origin reports exactly the channel the run-time resolution uses (config > live context key > default > required) with the producer index; _is_compatible = the run-time issubclass gate (TypeError-safe); _validate_data_flow_compatibility flags exactly the nodes whose arriving data type (output of the nearest preceding typed node, across any number of context-only nodes) is incompatible - for node lists of any length. build_pipeline_inspection (key-flow bookkeeping) is NOT proved: a bounded tier inspects, validates and executes generated pipelines with exactly the reported required keys (ordinary and falsy values) and checks flow soundness and the per-node created/suppressed facts.",
    note="The bounded part is exploration. Node inspection objects are assumed pairwise distinct with their own error lists.",
    ref="DESIGN.md section 7 (C02)")
FIX_COMMITS += ["e5a5f58", "b7bb082", "c9f8bf2"]
CHECKS["C04"] = dict(
    level="proof",
    technique="contract-based deductive verification: frame (no ambient reads) and order-oracle-freedom obligations on the identity hashing functions, contracts for _canonical_node and compute_upstream_map; metamorphic identity tier bounded",
    text="Proved by symbolic execution of the real functions on arbitrary inputs: _canonical_node (exact field set, records declaration index/subindex and the processor reference, input untouched), compute_pipeline_id / _sha256_json / compute_pipeline_config_id / compute_pipeline_semantic_id read no clock/random/pid/cwd and their result term contains no mapping-order or set-order oracle (json.dumps is order-free only with sort_keys=True), compute_upstream_map = predecessor along canonical edges. NOT proved: YAML loading, preprocess/resolve/descriptor functions, sweep metadata, the inspect = run identity; those are exercised by a bounded metamorphic tier (key-order shuffles at all depths, 3 YAML styles, +/* operand rewrites, same-object re-run, history, fresh processes with other hash seeds).",
    note="json/sha256/uuid5 are uninterpreted pure functions; compute_pipeline_semantic_id is executed for node lists of length 0..2 (its comprehension allocates per element). Bounded part is exploration.",
    ref="DESIGN.md section 7 (C04)")
CHECKS["C05"] = dict(
    level="proof",
    technique="contract-based deductive verification: relational field-determination obligations (equal hashed pre-images => equal identity-bearing fields) and a loop invariant on build_canonical_spec giving pairwise distinct node uuids; mutation tier bounded",
    text="Proved with hashes/JSON assumed injective: the structure hashed by compute_pipeline_semantic_id determines every node's uuid and, for sweep nodes, its node semantic id; compute_pipeline_config_id hashes the sorted set of (uuid, semantic id) pairs; build_canonical_spec gives node j a canonical mapping with declaration_index j whose JSON is the uuid5 pre-image, so node uuids of one pipeline are pairwise distinct for any number of (even identical) nodes. NOT proved: that each documented sweep ingredient reaches the node semantic id (metadata construction is reflection-heavy): bounded single-point mutation tier.",
    note="Collision freedom of sha256/uuid5/canonical JSON assumed. preprocess_node_config/resolve_parameters/descriptor_to_json abstract. Bounded part is exploration.",
    ref="DESIGN.md section 7 (C05)")
CHECKS["C12"] = dict(
    level="proof",
    technique="contract-based deductive verification of the operand-flattening function by structural induction (its contract is the hypothesis at the recursive calls); normal-form/value relation by exhaustive bounded enumeration",
    text="Proved for arbitrary finite expression trees and any operator class: collect(term) appends exactly Flat(op, term) - the in-order maximal non-op sub-terms of a chain of the same operator - keeps earlier terms and changes nothing else. NOT proved: norm's sort-by-dump/rebuild and recursive in-place rewriting, nor the composition 'equal signature => equal value'; these are checked by exhaustive enumeration of small expressions (grouping by signature, exact integer evaluation), AC rearrangements and single-point mutations. The Lean lemmas planned in DESIGN.md were not written.",
    note="Bounded part is exploration. Expression trees assumed acyclic (parser output).",
    ref="DESIGN.md section 7 (C12)")
FIX_COMMITS += ["9a3a131", "64e33d5"]
CHECKS["C06"] = dict(
    level="proof",
    technique="contract-based deductive verification of the real execute() lifecycle: ghost trace, loop invariant over an arbitrary number of nodes, abstract node/driver/helper contracts, exceptional postconditions per failure origin; schema validity by a bounded jsonschema tier",
    text="The 300-line SemantivaOrchestrator.execute is executed symbolically for any number of nodes with node.process abstract (returns or raises an exception of any class, incl. KeyboardInterrupt-class). Proved: invariant T = T0 ++ start ++ succeeded SERs (node ids = canonical uuids, run/pipeline ids shared, upstream = canonical edges); on return T ends with pipeline_end(ok) after exactly n SERs; a failing node leaves one error SER then pipeline_end(error) and no later node runs; a construction failure leaves start ++ end(error); the driver is flushed and closed on every exit; earlier trace content is never touched. Schema validity of emitted JSON and the concrete driver are checked only by a bounded tier (real pipelines x failure point x 7 failure kinds x detail levels x file/dir output, every line validated with jsonschema).",
    note="Assumed: driver methods do not raise; orchestrator helpers return fresh values without raising (their no-raise/no-mutation contracts are proved in C10/C07); _submit_and_wait calls the callable once; the original exception object is the one propagated by re-raise. Bounded part is exploration.",
    ref="DESIGN.md section 7 (C06)")
CHECKS["C10"] = dict(
    level="proof",
    technique="contract-based deductive verification: execute() proved against the same contract with and without a driver; no-raise / no-mutation contracts on the trace-only helpers with abstract user hooks; reproducibility by a bounded native tier",
    text="Proved: with trace=None the real execute() runs the same nodes, returns/raises at the same points and never touches the ghost trace; _data_summary, _context_summary, _init_summaries, _augment_output_summaries (for every value of every keyword flag), _trace_options and _ensure_context_delta never raise (user hooks serialize/sha256/repr/canonical JSON/len may raise any Exception) and modify nothing but the summaries dict they are given. NOT proved: equality of non-volatile record fields across runs (depends on the concrete driver and hashing): bounded tier compares traced vs untraced outcomes and repeated traces modulo volatile fields over 9 configurations x 4 detail levels.",
    note="Bounded part is exploration. User hooks assumed not to mutate their argument.",
    ref="DESIGN.md section 7 (C10)")
CHECKS["C17"] = dict(
    level="proof",
    technique="contract-based deductive verification of the real cli._run (400 lines): symbolic execution with every callee abstract behind a contract, ghost counters for pipeline.process / run_space_start / run_space_end, loop invariant over an arbitrary number of runs, z3; sink/trace side effects of the real CLI only by a bounded tier (labelled bounded)",
    text="Proved on every path of the real _run, for arbitrary raw configurations, --context lists, run lists and symbolic --validate / --dry-run / --run-space-dry-run / --run-space-max-runs: a rejection (parse error, validation error, trace/execution component error, run-space error or cap, missing required context key) returns EXIT_CONFIG_ERROR with pipeline.process never called and no run_space_start; --validate, --dry-run and a run-space dry run never call process; the run-space CLI flags reach the configuration the parser sees; execution starts only if every required key is in --context or the first run; loop invariant runs_completed = idx = executed gives exit 0 iff all planned runs completed, EXIT_RUNTIME_ERROR / EXIT_INTERRUPT after a failing run with no later run started, and run_space_end emitted exactly once iff run_space_start was, with planned/completed counts and status truthful. Bounded: 49-64 real CLI invocations observing sink files and trace records.",
    note="Assumed contracts (listed in evidence): parse_pipeline_config reads run_space.dry_run/max_runs from config['run_space'] and raises on invalid input; validate_pipeline raises on rejection; expand_run_space raises the configuration/cap error and returns its own run dicts; launch/identity records carry string ids. --set, --execution.*, --trace.* and --run-space-file are fixed to 'not given' in the proof harness and only exercised by the bounded tier. The correctness of the required-key analysis itself is C02.",
    ref="DESIGN.md section 7 (C17)")
