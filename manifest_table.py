FIX_COMMITS = ["38bce1d"]
CHECKS["C11"] = dict(
    level="proof",
    technique="contract-based deductive verification: structural induction over the interpreter's AST grammar; VCs generated from the AST of safe_eval.py + stdlib ast.NodeVisitor, discharged by z3",
    text="For every AST node class K of the running interpreter (one case each) the real visitor code is executed symbolically on an arbitrary well-shaped node; 'visit returns normally => Safe(node)' is proved with the contract of visit() as induction hypothesis at recursive calls, loops cut by invariants; compile() is shown to reach compile/eval only after visit accepted; env keys = whitelist. No bound on depth or size.",
    note="Trusted: pyvc's model of Python, z3; node shapes as produced by ast.parse (ASDL signatures read from the interpreter); CPython evaluates Safe trees without attribute/import/name access outside the whitelist.",
    ref="DESIGN.md section 7 (C11), A.5")
FIX_COMMITS.append("bb0b7a2")
CHECKS["C07"] = dict(
    level="proof",
    technique="contract-based deductive verification: per-function contracts on the SER-building code (delta collector, built-in checks, snapshots, clock), VCs from the real AST, z3",
    text="DeltaCollector.compute (created/updated = sorted set differences under the stable-equality spec), _stable_equal, _build_pre_checks / _build_post_checks / _type_check_entry (PASS iff the stated condition, for arbitrary key lists and type expectations), _context_snapshot (fresh copy, context untouched), _iso_now / _now_timestamp against a UTC clock contract with symbolic zone offset, _start_timing/_end_timing non-negative durations. Loops cut by invariants / closed forms; no bound on key counts.",
    note="Not under contract yet (listed as unverified): _resolve_params_with_sources provenance lemma, digest chaining in execute(), processor.ref. Assumed: serialize/sha256/safe_repr deterministic (uninterpreted), == on user values pure (PyEq), clock contract datetime.now() = UTC + zone offset.",
    ref="DESIGN.md section 7 (C07)")
CHECKS["C01"] = dict(
    level="proof",
    technique="contract-based deductive verification: contracts on parameter resolution, node processing, context observers and generated context processors; VCs from the real AST, z3",
    text="resolve_runtime_value = Resolve(config > context > default) and KeyError iff unresolvable; _default_for against the metadata definition; _get_processor_parameters (loop invariant: parameters = Resolve on the names seen) ; _DataNode._process (type gate, then Logic on the resolved parameters, context object preserved, failure exactly at the prescribed point with the processor not run); probe node (data passes through, ctx' = ctx[key := result]); validating observer and DataOperation notifier (KeyError iff undeclared, nothing else written); generated rename/delete processors (a present non-None value is moved/removed, only declared keys touched). Arbitrary configs/contexts/name lists, no bound.",
    note="Not under contract yet: SemantivaOrchestrator.execute node loop (fold of node semantics), slicers, sweep wrappers, IO adapters, template processor, string->class resolution. Processor logic is uninterpreted (LogicOut/LogicFails).",
    ref="DESIGN.md section 7 (C01)")
CHECKS["C08"] = dict(
    level="proof",
    technique="contract-based deductive verification of source select/rename (loop invariants over an arbitrary column order, z3); expansion order only by a bounded run-time-contract enumeration (labelled bounded)",
    text="_load_and_process_source: for arbitrary column mappings, select lists and rename tables the result is exactly the selected columns mapped through the rename table with values preserved, and a missing selected column or any collision after rename is rejected (both loops cut by invariants). expand_run_space/_expand_entries are NOT proved: a bounded stand-in compares them with the documented Expand function over small specifications (bound in evidence) and measures materialisation under an exceeded cap.",
    note="Proved part assumes the file system, parsers and SHA-256 abstract. The bounded part is exploration, not proof. Known finding C08-KF1 (cap checked after materialising a block's product) is open.",
    ref="DESIGN.md section 7 (C08)")
CHECKS["C13"] = dict(
    level="proof",
    technique="contract-based deductive verification of _coerce_int, _expected_nodes (loop invariant), ingest dispatch and a z3 commutation lemma over the abstract view; verdict rules and ingesters only by a bounded run-time-contract tier over real traces",
    text="Proved for all inputs: _coerce_int (int/None totality), _expected_nodes (= set of node_uuid of dict entries, None iff empty; loop invariant), TraceAggregator.ingest (each record_type reaches exactly its ingester, unknown types change nothing), and pairwise commutation/idempotence of the five update functions on the abstract run view. finalize_run/finalize_launch and the _ingest_* bodies are NOT proved (symbolic execution does not terminate within budget): a bounded tier ingests every prefix and seeded permutations of real traces (ok run, failing run, launch) and compares with the documented verdict.",
    note="The bounded part is exploration, not proof; the lift from pairwise commutation to all permutations (List.Perm.foldl_eq') and the link code-update = abstract update for the ingesters are assumptions.",
    ref="DESIGN.md section 7 (C13)")
