FIX_COMMITS = ["38bce1d"]
CHECKS["C11"] = dict(
    level="proof",
    technique="contract-based deductive verification: structural induction over the interpreter's AST grammar; VCs generated from the AST of safe_eval.py + stdlib ast.NodeVisitor, discharged by z3",
    text="For every AST node class K of the running interpreter (one case each) the real visitor code is executed symbolically on an arbitrary well-shaped node; 'visit returns normally => Safe(node)' is proved with the contract of visit() as induction hypothesis at recursive calls, loops cut by invariants; compile() is shown to reach compile/eval only after visit accepted; env keys = whitelist. No bound on depth or size.",
    note="Trusted: pyvc's model of Python, z3; node shapes as produced by ast.parse (ASDL signatures read from the interpreter); CPython evaluates Safe trees without attribute/import/name access outside the whitelist.",
    ref="DESIGN.md section 7 (C11), A.5")
