FIX_COMMITS = ["38bce1d"]
CHECKS["C11"] = dict(
    level="proof",
    technique="contract-based deductive verification: structural induction over the interpreter's AST grammar; VCs generated from the AST of safe_eval.py + stdlib ast.NodeVisitor, discharged by z3",
    text="For every AST node class K of the running interpreter (one case each) the real visitor code is executed symbolically on an arbitrary well-shaped node; 'visit returns normally => Safe(node)' is proved with the contract of visit() as induction hypothesis at recursive calls, loops cut by invariants; compile() is shown to reach compile/eval only after visit accepted; env keys = whitelist. No bound on depth or size.",
    note="Trusted: pyvc's model of Python, z3; node shapes as produced by ast.parse (ASDL signatures read from the interpreter); CPython evaluates Safe trees without attribute/import/name access outside the whitelist.",
    ref="DESIGN.md section 7 (C11), A.5")
FIX_COMMITS.append("bb0b7a2")
CHECKS["C07"] = dict(
    level="proof",
    technique="contract-based deductive verification: per-function contracts on the SER-building code (delta collector, built-in checks, snapshots, clock), VCs from the real AST, z3",
    text="DeltaCollector.compute (created/updated = sorted set differences under the stable-equality spec), _stable_equal, _build_pre_checks / _build_post_checks / _type_check_entry (PASS iff the stated condition, for arbitrary key lists and type expectations), _context_snapshot (fresh copy, context untouched), _iso_now / _now_timestamp against a UTC clock contract with symbolic zone offset, _start_timing/_end_timing non-negative durations. Loops cut by invariants / closed forms; no bound on key counts.",
    note="Not under contract yet (listed as unverified): _resolve_params_with_sources provenance lemma, digest chaining in execute(), processor.ref. Assumed: serialize/sha256/safe_repr deterministic (uninterpreted), == on user values pure (PyEq), clock contract datetime.now() = UTC + zone offset.",
    ref="DESIGN.md section 7 (C07)")
