"""Regenerates MANIFEST.json from the table below (keeps it valid at all times)."""
import json, os
ROOT = os.path.dirname(os.path.abspath(__file__))
ids = [json.loads(l)["id"] for l in open(os.path.join(ROOT, "properties.jsonl"))]
BASE = "cd /repo && /venv/bin/python -m pytest -ra -q -p no:cacheprovider --timeout=900 --continue-on-collection-errors"
CHECKS = {}
NA = {}
exec(open(os.path.join(ROOT, "manifest_table.py")).read())
m = {"version": 1, "setup_cmd": "./setup.sh",
     "hooks": {"guard": "SEMANTIVA_VERIF", "enable": "no hooks: contracts are sidecar files under /verif/specs; /repo is read, never instrumented",
               "baseline_off_cmd": BASE, "source_commits": [], "add_only": True},
     "engines": [{"name": "pyvc", "path": "pyvc/", "serves_properties": sorted(CHECKS),
                  "kind_free_text": "VC generator: symbolic execution of the AST of the real /repo functions under sidecar contracts, discharged by z3 5.1 (cvc5 for z3's unknowns)"}],
     "notes": ("No hook or instrumentation commits exist in /repo (hooks.source_commits is empty). The unguarded defect repairs are the "
               "'fix:' commits " + ", ".join(FIX_COMMITS) + " - one per defect, each recorded as 'fixed:' in known_findings.jsonl; "
               "open known findings: C08-KF1, C18-KF1, C18-KF2. Evidence files are rewritten by every run; run_all.sh regenerates them on the unchanged tree."),
     "checks": [], "not_applicable": []}
for i in ids:
    if i in CHECKS:
        c = CHECKS[i]
        m["checks"].append({"property_id": i, "quick_cmd": f"./check {i} --tier quick", "thorough_cmd": f"./check {i} --tier thorough",
                            "evidence_file": f"evidence/{i}.json", "replay_cmd_template": f"./check {i} --replay {{path}}",
                            "engine": "pyvc", "level_claimed": {"category": c["level"], "text": c["text"], "design_ref": c.get("ref", "DESIGN.md section 7")},
                            "level_note": c["note"], "technique": c["technique"]})
    else:
        m["not_applicable"].append({"property_id": i, "reason": NA.get(i, "check not built yet (work in progress; see DESIGN.md section 7)")})
json.dump(m, open(os.path.join(ROOT, "MANIFEST.json"), "w"), indent=1)
print("checks:", sorted(CHECKS), "n/a:", len(m["not_applicable"]))
