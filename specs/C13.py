"""C13 — trace aggregation is order-independent and right for every partial trace.

Code-facing contracts (real code of semantiva/trace/aggregation/aggregator.py):
  _coerce_int, _expected_nodes, TraceAggregator.finalize_run (verdict = DocVerdict of the run's view, idempotent
  except for the two synthesised timestamps), the five _ingest_* functions (effect on the addressed aggregate,
  frame: nothing else changes, dictionaries updated only at the addressed key), ingest (dispatch).
Spec-level lemma (z3, over the abstract view): the five update functions commute pairwise under the producer
  precondition (at most one SER per (run, node)); the lift from pairwise commutation to all permutations is the
  standard fold lemma (List.Perm.foldl_eq' in Mathlib) - stated as an assumption, not re-proved here.
"""
from __future__ import annotations
import sys, os
import z3
from .common import *
from pyvc.interp import frame_eq
from pyvc.core import Sq, SortedArr

PROP = "C13"
AGG = "semantiva/trace/aggregation/aggregator.py"
MODELS = "semantiva/trace/aggregation/models.py"
I_ = core.I
TERMINAL = ["succeeded", "error", "skipped", "cancelled"]


CONTAINER_METHODS = {"get", "keys", "values", "items", "setdefault", "pop", "update", "copy", "clear", "append", "extend",
                     "sort", "insert", "add", "discard", "remove", "union", "intersection", "difference", "issubset"}


class Spec(BaseSpec):
    def __init__(self):
        super().__init__(PROP)
        self.inline_files |= {AGG, MODELS}
        self.assumptions |= {
            "record values compared with < / > are strings (RFC 3339 timestamps) or None: ordering on them is the string order",
            "lift from pairwise commutation of the update functions to invariance under all permutations: standard fold lemma (Mathlib List.Perm.foldl_eq'), not re-proved here",
            "aggregator state invariant: distinct run ids / (run, node) pairs / launch keys map to distinct aggregate objects (established by the ingesters, which allocate a fresh object per new key)",
        }

    def field_read(self, I, obj, name):
        """typed fields of the aggregate dataclasses (facts about the *input* heap only)"""
        h0 = getattr(I.st, "h_input", None)
        if h0 is None:
            return
        st = I.st
        rid = V.id(obj)
        v = z3.Select(h0.field(name), rid)
        isd = lambda x, kd: z3.And(V.is_ref(x), V.id(x) <= 0, z3.Select(h0.kind, V.id(x)) == kd)  # noqa
        fact = None
        if name in ("timing",):
            fact = z3.Or(v == NONE, isd(v, K_DICT))
        elif name in ("counts", "nodes"):
            fact = isd(v, K_DICT)
        elif name == "pipelines":
            fact = isd(v, K_SET)
        elif name in ("saw_start", "saw_end"):
            fact = V.is_bool(v)
        elif name in ("first_timestamp", "last_timestamp", "start_timestamp", "end_timestamp", "last_status"):
            fact = z3.Or(v == NONE, V.is_str(v))
        if fact is not None:
            st.assume(fact)     # about the input heap array only (values stored later shadow it)

    def unknown_attr(self, I, v, name):
        st = I.st
        if is_v(v) and I.tag(v) == "ref":
            self.field_read(I, v, name)
        if is_v(v) and I.tag(v) is None:
            if os.environ.get("PYVC_DEBUG2"):
                print("UNK", name, str(v)[:300].replace("\n", " "))
                print("  mv", st.model_value(v), "valid", st.valid(V.is_ref(v)), "npc", len(st.pc))
                for p_ in st.pc[-6:]:
                    print("   PC", str(p_)[:400].replace("\n", " "))
            t = models.split_tag(I, v, f"attr:{name}")
            if t != "ref":
                return MISSING
        if is_v(v) and I.tag(v) == "ref":
            if I.kind(v) is None:
                models.split_kind(I, v, f"attr:{name}")
            if I.kind(v) == K_INST:
                if st.decide(z3.Select(st.h.hasf(name), V.id(v)), f"hasattr:{name}"):
                    return st.wf_read(z3.Select(st.h.field(name), V.id(v)))
                return MISSING
            if name in CONTAINER_METHODS:
                return O.HMeth(v, name)
            return MISSING      # dict/list/set have no such attribute -> AttributeError
        return super().unknown_attr(I, v, name)

    def order_unknown(self, I, op, a, b):
        # timestamps: strings by precondition; comparisons on other values are outside the contract
        import ast as _ast
        lt = core.vlt
        return {_ast.Lt: lt(a, b), _ast.Gt: lt(b, a), _ast.LtE: z3.Not(lt(b, a)), _ast.GtE: z3.Not(lt(a, b))}[type(op)]


def agg_self(I):
    ci = cls_of(I, AGG, "TraceAggregator")
    runs = in_dict(I, "runs")
    launches = in_dict(I, "launches")
    me = in_inst(I, "agg", ci, {"_runs": runs, "_launches": launches})
    return me, runs, launches


RUN_FIELDS = ["run_id", "pipeline_id", "pipeline_spec_canonical", "meta", "run_space_launch_id", "run_space_attempt",
              "saw_start", "saw_end", "start_timestamp", "end_timestamp", "nodes"]
NODE_FIELDS = ["node_id", "first_timestamp", "last_timestamp", "last_seq", "last_status", "counts", "timing", "last_error"]
LAUNCH_FIELDS = ["run_space_launch_id", "run_space_attempt", "run_space_spec_id", "run_space_inputs_id", "planned_run_count",
                 "input_fingerprints", "saw_start", "saw_end", "pipelines"]


def wf_state(I, runs, launches):
    """well-formedness of the aggregator state (shape only): entries are aggregates of the right class with all
    their fields, `nodes` is a dict of NodeAggregate objects, `pipelines` a set; flags are booleans, timestamps str/None"""
    st = I.st
    h = st.h
    st.h_input = h.copy()
    run_ci, node_ci, launch_ci = cls_of(I, MODELS, "RunAggregate"), cls_of(I, MODELS, "NodeAggregate"), cls_of(I, MODELS, "LaunchAggregate")
    for c in (run_ci, node_ci, launch_ci):
        st.mention(c, target=True)
    r = z3.Int("r!wf")
    is_run = z3.And(z3.Select(h.kind, r) == K_INST, z3.Select(h.cls, r) == run_ci.cid)
    is_node = z3.And(z3.Select(h.kind, r) == K_INST, z3.Select(h.cls, r) == node_ci.cid)
    is_launch = z3.And(z3.Select(h.kind, r) == K_INST, z3.Select(h.cls, r) == launch_ci.cid)
    f = lambda n: z3.Select(h.field(n), r)
    ts = lambda v: z3.Or(v == NONE, V.is_str(v))
    st.assume(z3.ForAll([r], z3.Implies(z3.And(r <= 0, is_run), z3.And(
        [z3.Select(h.hasf(n), r) for n in RUN_FIELDS] +
        [V.is_bool(f("saw_start")), V.is_bool(f("saw_end")), ts(f("start_timestamp")), ts(f("end_timestamp")),
         V.is_ref(f("nodes")), V.id(f("nodes")) <= 0, z3.Select(h.kind, V.id(f("nodes"))) == K_DICT,
         z3.Select(h.dlen, V.id(f("nodes"))) >= 0]))))
    st.assume(z3.ForAll([r], z3.Implies(z3.And(r <= 0, is_node), z3.And(
        [z3.Select(h.hasf(n), r) for n in NODE_FIELDS] +
        [ts(f("first_timestamp")), ts(f("last_timestamp")),
         V.is_ref(f("counts")), V.id(f("counts")) <= 0, z3.Select(h.kind, V.id(f("counts"))) == K_DICT,
         z3.Or(f("timing") == NONE, z3.And(V.is_ref(f("timing")), V.id(f("timing")) <= 0, z3.Select(h.kind, V.id(f("timing"))) == K_DICT))]))))
    st.assume(z3.ForAll([r], z3.Implies(z3.And(r <= 0, is_launch), z3.And(
        [z3.Select(h.hasf(n), r) for n in LAUNCH_FIELDS] +
        [V.is_bool(f("saw_start")), V.is_bool(f("saw_end")),
         V.is_ref(f("pipelines")), V.id(f("pipelines")) <= 0, z3.Select(h.kind, V.id(f("pipelines"))) == K_SET]))))
    def inst_for(body_of):
        return lambda rr: z3.substitute(body_of, (r, rr))
    run_body = z3.Implies(z3.And(r <= 0, is_run), z3.And(
        [z3.Select(h.hasf(n), r) for n in RUN_FIELDS] +
        [V.is_bool(f("saw_start")), V.is_bool(f("saw_end")), ts(f("start_timestamp")), ts(f("end_timestamp")),
         V.is_ref(f("nodes")), V.id(f("nodes")) <= 0, z3.Select(h.kind, V.id(f("nodes"))) == K_DICT]))
    node_body = z3.Implies(z3.And(r <= 0, is_node), z3.And(
        [z3.Select(h.hasf(n), r) for n in NODE_FIELDS] +
        [ts(f("first_timestamp")), ts(f("last_timestamp")),
         V.is_ref(f("counts")), V.id(f("counts")) <= 0, z3.Select(h.kind, V.id(f("counts"))) == K_DICT,
         z3.Or(f("timing") == NONE, z3.And(V.is_ref(f("timing")), V.id(f("timing")) <= 0, z3.Select(h.kind, V.id(f("timing"))) == K_DICT))]))
    launch_body = z3.Implies(z3.And(r <= 0, is_launch), z3.And(
        [z3.Select(h.hasf(n), r) for n in LAUNCH_FIELDS] +
        [V.is_bool(f("saw_start")), V.is_bool(f("saw_end")),
         V.is_ref(f("pipelines")), V.id(f("pipelines")) <= 0, z3.Select(h.kind, V.id(f("pipelines"))) == K_SET]))
    st.instantiators += [inst_for(run_body), inst_for(node_body), inst_for(launch_body)]
    ValCls = z3.Function("DictValCls", I_, I_)     # ghost: class of the values a (pre-existing) dict holds

    def table_fact(did, key):
        v = z3.Select(z3.Select(h.dval, did), key)
        present = z3.Select(z3.Select(h.ddom, did), key)
        isinst = lambda ci: z3.And(V.is_ref(v), V.id(v) <= 0, z3.Select(h.kind, V.id(v)) == K_INST, z3.Select(h.cls, V.id(v)) == ci.cid)
        return z3.And(z3.Implies(z3.And(did == V.id(runs), present), isinst(run_ci)),
                      z3.Implies(z3.And(did == V.id(launches), present), isinst(launch_ci)),
                      z3.Implies(z3.And(did <= 0, ValCls(did) == node_ci.cid, present), isinst(node_ci)))
    st.dict_instantiators.append(table_fact)
    st.instantiators.append(lambda rr: z3.Implies(z3.And(rr <= 0, z3.Select(h.kind, rr) == K_INST, z3.Select(h.cls, rr) == run_ci.cid),
                                                  ValCls(V.id(z3.Select(h.field("nodes"), rr))) == node_ci.cid))
    k = z3.Const("k!wf", V)
    rv = z3.Select(dval(h, runs), k)
    st.assume(z3.ForAll([k], z3.Implies(z3.Select(ddom(h, runs), k), z3.And(
        V.is_ref(rv), V.id(rv) <= 0, z3.Select(h.kind, V.id(rv)) == K_INST, z3.Select(h.cls, V.id(rv)) == run_ci.cid))))
    lv = z3.Select(dval(h, launches), k)
    st.assume(z3.ForAll([k], z3.Implies(z3.Select(ddom(h, launches), k), z3.And(
        V.is_ref(lv), V.id(lv) <= 0, z3.Select(h.kind, V.id(lv)) == K_INST, z3.Select(h.cls, V.id(lv)) == launch_ci.cid))))
    # node dictionaries hold NodeAggregate objects
    d = z3.Int("d!wf")
    nv = z3.Select(z3.Select(h.dval, d), k)
    st.assume(z3.ForAll([r, k], z3.Implies(z3.And(r <= 0, is_run, z3.Select(z3.Select(h.ddom, V.id(f("nodes"))), k)),
                                           z3.And(V.is_ref(z3.Select(z3.Select(h.dval, V.id(f("nodes"))), k)),
                                                  V.id(z3.Select(z3.Select(h.dval, V.id(f("nodes"))), k)) <= 0,
                                                  z3.Select(h.kind, V.id(z3.Select(z3.Select(h.dval, V.id(f("nodes"))), k))) == K_INST,
                                                  z3.Select(h.cls, V.id(z3.Select(z3.Select(h.dval, V.id(f("nodes"))), k))) == node_ci.cid))))
    return run_ci, node_ci, launch_ci


# ------------------------------------------------------------------------------------------------
def h_coerce_int(spec):
    fn_info(spec, AGG, "_coerce_int")

    def body(I):
        v = in_val(I, "value")
        out = E.execute(I, E.hfunc(AGG, "_coerce_int"), [v])
        if out[0] != "return":
            spec.oblige(I, "never-raises", z3.BoolVal(False))
            return
        spec.oblige(I, "result-is-int-or-None", z3.Or(out[1] == NONE, V.is_int(out[1])))
        spec.oblige(I, "ints-pass-through", z3.Implies(V.is_int(v), out[1] == v))
        spec.oblige(I, "None-gives-None", z3.Implies(v == NONE, out[1] == NONE))
        spec.oblige(I, "deterministic-on-strings", z3.Implies(V.is_str(v), z3.Or(out[1] == NONE, V.is_int(out[1]))))
    E.run_function(spec, "_coerce_int", body)


def expected_set(I, h, specv):
    """documented expected-node set of a canonical spec value: node_uuid of every dict entry of spec['nodes'] (non-None)"""
    nodes = z3.Select(dval(h, specv), vstr("nodes"))
    sq = Sq(z3.Select(h.larr, V.id(nodes)), z3.Select(h.llen, V.id(nodes)))
    j = z3.Int("j!exp")
    k = z3.Const("k!exp", V)
    e = sq.at(j)
    is_d = z3.And(V.is_ref(e), z3.Select(h.kind, V.id(e)) == K_DICT)
    uuid = z3.If(z3.Select(ddom(h, e), vstr("node_uuid")), z3.Select(dval(h, e), vstr("node_uuid")), NONE)
    return z3.Lambda([k], z3.Exists([j], z3.And(j >= 0, j < sq.n, is_d, uuid != NONE, uuid == k))), sq


def h_expected_nodes(spec):
    fn_info(spec, AGG, "_expected_nodes")

    def inv(c):
        I, h = c.I, c.h
        coll = c.var("collected")
        k = z3.Const("k!en", V)
        j = z3.Int("j!en")
        e = c.seq.at(j)
        is_d = z3.And(V.is_ref(e), z3.Select(c.h0.kind, V.id(e)) == K_DICT)
        uuid = z3.If(z3.Select(ddom(c.h0, e), vstr("node_uuid")), z3.Select(dval(c.h0, e), vstr("node_uuid")), NONE)
        return z3.And(V.is_ref(coll), z3.Select(h.kind, V.id(coll)) == K_SET, V.id(coll) > 0,
                      z3.ForAll([k], z3.Select(z3.Select(h.sdom, V.id(coll)), k) ==
                                z3.Exists([j], z3.And(j >= 0, j < c.i, is_d, uuid != NONE, uuid == k))))
    spec.loop(AGG, "_expected_nodes", 1, LoopSpec(inv, modifies_heap=True, frame_except=lambda c: [c.var("collected")]))

    def body(I):
        st = I.st
        sp = in_dict(I, "spec")
        nodes = in_list(I, "nodes_list")
        which = st.choose(3, "spec shape")
        if which == 0:
            arg = NONE
        else:
            arg = sp
            if which == 1:
                st.assume(z3.Select(ddom(st.h, sp), vstr("nodes")))
                st.assume(z3.Select(dval(st.h, sp), vstr("nodes")) == nodes)
                st.assume(z3.Select(st.h.llen, V.id(nodes)) >= 0)
            else:
                nv = z3.Select(dval(st.h, sp), vstr("nodes"))
                st.assume(z3.Implies(V.is_ref(nv), z3.And(V.id(nv) <= 0)))
                st.assume(z3.Not(z3.And(z3.Select(ddom(st.h, sp), vstr("nodes")), V.is_ref(nv), z3.Select(st.h.kind, V.id(nv)) == K_LIST)))
        h0 = st.h.copy()
        out = E.execute(I, E.hfunc(AGG, "_expected_nodes"), [arg])
        if out[0] != "return":
            spec.oblige(I, "never-raises", z3.BoolVal(False))
            return
        res = out[1]
        h = st.h
        if which == 1:
            want, sq = expected_set(I, h0, sp)
            k = z3.Const("k", V)
            nonempty = z3.Exists([k], z3.Select(want, k))
            spec.oblige(I, "result=None-iff-no-expected-node", (res == NONE) == z3.Or(z3.Not(nonempty), z3.Select(h0.dlen, V.id(sp)) == 0))
            spec.oblige(I, "result=set-of-node_uuids", z3.Implies(res != NONE, z3.And(
                V.is_ref(res), z3.Select(h.kind, V.id(res)) == K_SET,
                z3.ForAll([k], z3.Select(z3.Select(h.sdom, V.id(res)), k) == z3.Select(want, k)))))
        else:
            spec.oblige(I, "no-spec-or-no-node-list-gives-None", res == NONE)
        spec.oblige(I, "inputs-unchanged", frame_eq(h0, h, 0))
    E.run_function(spec, "_expected_nodes", body)


def concrete_state(I):
    """aggregator whose table holds one typed run object under `run_id` (or not), with a symbolic node table"""
    st = I.st
    me, runs, launches = agg_self(I)
    h = st.h
    st.h_input = h.copy()
    run_ci, node_ci = cls_of(I, MODELS, "RunAggregate"), cls_of(I, MODELS, "NodeAggregate")
    st.mention(node_ci, target=True)
    nodes = in_dict(I, "nodes")
    ts = lambda nm: z3.Const(nm, V)
    vals = {"run_id": vstr(z3.String("run_id")), "pipeline_id": in_val(I, "pipeline_id"), "pipeline_spec_canonical": in_val(I, "spec"),
            "meta": NONE, "run_space_launch_id": NONE, "run_space_attempt": NONE,
            "saw_start": vbool(z3.Bool("saw_start")), "saw_end": vbool(z3.Bool("saw_end")),
            "start_timestamp": ts("start_ts"), "end_timestamp": ts("end_ts"), "nodes": nodes}
    for nm in ("start_ts", "end_ts"):
        st.assume(z3.Or(z3.Const(nm, V) == NONE, V.is_str(z3.Const(nm, V))))
    run = in_inst(I, "run", run_ci, vals)

    def table_fact(did, key):
        v = z3.Select(z3.Select(h.dval, did), key)
        present = z3.Select(z3.Select(h.ddom, did), key)
        return z3.Implies(z3.And(did == V.id(nodes), present),
                          z3.And(V.is_ref(v), V.id(v) <= 0, z3.Select(h.kind, V.id(v)) == K_INST, z3.Select(h.cls, V.id(v)) == node_ci.cid,
                                 z3.And([z3.Select(h.hasf(n), V.id(v)) for n in NODE_FIELDS])))
    st.dict_instantiators.append(table_fact)
    return me, runs, run, nodes


def h_finalize_run2(spec):
    """verdict = DocVerdict(view of the run) for an arbitrary typed run object with an arbitrary node table"""
    fn_info(spec, AGG, "TraceAggregator.finalize_run")
    spec.loop(AGG, "TraceAggregator.finalize_run", 1, LoopSpec(
        lambda c: z3.BoolVal(True), modifies_heap=True,
        frame_except=lambda c: [(c.var("run"), ["start_timestamp", "end_timestamp"])]))

    def body(I):
        st = I.st
        me, runs, run, nodes = concrete_state(I)
        run_id = vstr(z3.String("run_id"))
        known_case = st.choose(2, "run known?") == 1
        if known_case:
            st.assume(z3.Select(ddom(st.h, runs), run_id))
            st.assume(z3.Select(dval(st.h, runs), run_id) == run)
        else:
            st.assume(z3.Not(z3.Select(ddom(st.h, runs), run_id)))
        exp = in_set(I, "expected")
        spec._expected = exp
        h0 = st.h.copy()
        _, f = E.method_of(I, AGG, "TraceAggregator", "finalize_run")
        out = E.execute(I, f, [me, run_id])
        if out[0] != "return":
            spec.oblige(I, "never-raises", z3.BoolVal(False))
            return
        res = out[1]
        h = st.h
        status = fld(h, res, "status")
        if not known_case:
            spec.oblige(I, "unknown-run-is-invalid", status == vstr("invalid"))
            return
        problems = st.list_sq(fld(h, res, "problems"))
        pset = models.set_term_ax(I, problems)
        ss, se = z3.Bool("saw_start"), z3.Bool("saw_end")
        spec.oblige(I, "complete-iff-both-lifecycle-edges-seen", (status == vstr("complete")) == z3.And(ss, se))
        spec.oblige(I, "exactly-one-edge-is-partial", z3.Implies(z3.Xor(ss, se), status == vstr("partial")))
        spec.oblige(I, "missing-start-named-iff-not-seen", z3.Select(pset, vstr("missing_pipeline_start")) == z3.Not(ss))
        spec.oblige(I, "missing-end-named-iff-not-seen", z3.Select(pset, vstr("missing_pipeline_end")) == z3.Not(se))
        observed = ddom(h0, nodes)
        expd = z3.Select(h0.sdom, V.id(exp))
        has_exp = st.ghost.get("has_expected")
        k = z3.Const("k", V)
        for nm, lst, want in (("missing_nodes=sorted(expected-observed)", fld(h, res, "missing_nodes"), z3.Lambda([k], z3.And(z3.Select(expd, k), z3.Not(z3.Select(observed, k))))),
                              ("orphan_nodes=sorted(observed-expected)", fld(h, res, "orphan_nodes"), z3.Lambda([k], z3.And(z3.Select(observed, k), z3.Not(z3.Select(expd, k)))))):
            arr = z3.simplify(z3.Select(h.larr, V.id(lst)))
            n = z3.Select(h.llen, V.id(lst))
            if has_exp is True:
                if z3.is_app(arr) and arr.decl().eq(SortedArr):
                    spec.oblige(I, nm, z3.ForAll([k], z3.Select(arr.arg(0), k) == z3.Select(want, k)))
                else:
                    spec.oblige(I, nm, arr == SortedArr(want))
            elif has_exp is False:
                spec.oblige(I, nm.split("=")[0] + "=[]-without-expected-set", n == 0)
        spec.oblige(I, "verdict-relevant-state-unchanged(finalising-twice-gives-the-same-verdict)", z3.And(
            [fld(h, run, n_) == fld(h0, run, n_) for n_ in ("saw_start", "saw_end", "nodes", "pipeline_spec_canonical", "run_id")] +
            [ddom(h, nodes) == ddom(h0, nodes), dval(h, nodes) == dval(h0, nodes), ddom(h, runs) == ddom(h0, runs), dval(h, runs) == dval(h0, runs)]))
    E.run_function(spec, "TraceAggregator.finalize_run", body)


def typed_launch(I, launches, key):
    st = I.st
    launch_ci = cls_of(I, MODELS, "LaunchAggregate")
    pipes = in_set(I, "pipelines")
    vals = {"run_space_launch_id": in_val(I, "l_id"), "run_space_attempt": in_val(I, "l_att"), "run_space_spec_id": in_val(I, "l_spec"),
            "run_space_inputs_id": in_val(I, "l_inp"), "planned_run_count": in_val(I, "l_planned"), "input_fingerprints": in_val(I, "l_fp"),
            "saw_start": vbool(z3.Bool("l_saw_start")), "saw_end": vbool(z3.Bool("l_saw_end")), "pipelines": pipes}
    return in_inst(I, "launch", launch_ci, vals), pipes


def record_pre(I, rec, h0):
    """producer precondition on a record: identifiers / timestamps are strings or absent, timing a dict or absent"""
    st = I.st
    for key in ("run_id", "run_space_launch_id", "timestamp", "status"):
        v = getv(h0, rec, key)
        st.assume(z3.Or(v == NONE, V.is_str(v)))
    tim = getv(h0, rec, "timing")
    st.assume(z3.Or(tim == NONE, z3.And(V.is_ref(tim), V.id(tim) <= 0, z3.Select(h0.kind, V.id(tim)) == K_DICT)))
    for key in ("started_at", "finished_at"):
        tv = z3.If(z3.Select(ddom(h0, tim), vstr(key)), z3.Select(dval(h0, tim), vstr(key)), NONE)
        st.assume(z3.Implies(tim != NONE, z3.Or(tv == NONE, V.is_str(tv))))
    for key in ("run_space_attempt", "seq", "error", "pipeline_id", "pipeline_spec_canonical", "meta"):
        v = getv(h0, rec, key)
        st.assume(z3.Implies(V.is_ref(v), V.id(v) <= 0))
    att = getv(h0, rec, "run_space_attempt")
    st.assume(z3.Or(att == NONE, V.is_int(att)))


def h_ingest_lifecycle2(spec):
    """pipeline_start / pipeline_end on a state whose table holds a typed run under the record's run id (or not)"""
    for q in ("_ingest_pipeline_start", "_ingest_pipeline_end"):
        fn_info(spec, AGG, "TraceAggregator." + q)

    def mk(meth, flag):
        def body(I):
            st = I.st
            me, runs, run, nodes = concrete_state(I)
            launches = fld(st.h, me, "_launches")
            rec = record_in(I)
            h_in = st.h
            record_pre(I, rec, h_in)
            rid = getv(h_in, rec, "run_id")
            known_case = st.choose(2, "run known?") == 1
            if known_case:
                st.assume(z3.And(V.is_str(rid), z3.Select(ddom(st.h, runs), rid), z3.Select(dval(st.h, runs), rid) == run,
                                 fld(st.h, run, "run_id") == rid))
            else:
                st.assume(z3.Not(z3.Select(ddom(st.h, runs), rid)))
            lid, att = getv(h_in, rec, "run_space_launch_id"), getv(h_in, rec, "run_space_attempt")
            lkey = vtup([lid, att])
            launch, pipes = typed_launch(I, launches, lkey)
            lknown = st.choose(2, "launch known?") == 1
            if lknown:
                st.assume(z3.And(z3.Select(ddom(st.h, launches), lkey), z3.Select(dval(st.h, launches), lkey) == launch))
            else:
                st.assume(z3.Not(z3.Select(ddom(st.h, launches), lkey)))
            h0 = st.h.copy()
            _, f = E.method_of(I, AGG, "TraceAggregator", meth)
            out = E.execute(I, f, [me, rec])
            if out[0] != "return":
                spec.oblige(I, "never-raises-on-producer-records", z3.BoolVal(False))
                return
            h = st.h
            usable = z3.And(V.is_str(rid), z3.Length(V.s(rid)) > 0)
            obj = z3.Select(dval(h, runs), rid)
            spec.oblige(I, "record-without-run-id-is-ignored", z3.Implies(z3.Not(usable), frame_eq(h0, h, 0)))
            spec.oblige(I, "run-known-afterwards", z3.Implies(usable, z3.Select(ddom(h, runs), rid)))
            if known_case:
                spec.oblige(I, "existing-aggregate-is-reused", z3.Implies(usable, obj == run))
            other = "saw_end" if flag == "saw_start" else "saw_start"
            spec.oblige(I, f"{flag}-set", z3.Implies(usable, fld(h, obj, flag) == vbool(True)))
            spec.oblige(I, f"{other}-kept", z3.Implies(usable, fld(h, obj, other) == (fld(h0, run, other) if known_case else vbool(False))))
            if known_case:
                spec.oblige(I, "node-table-kept", z3.Implies(usable, z3.And(fld(h, obj, "nodes") == nodes, ddom(h, nodes) == ddom(h0, nodes),
                                                                            dval(h, nodes) == dval(h0, nodes))))
            k = z3.Const("k", V)
            spec.oblige(I, "runs-table-changes-only-at-run-id", z3.ForAll([k], z3.Implies(k != rid, z3.And(
                z3.Select(ddom(h, runs), k) == z3.Select(ddom(h0, runs), k), z3.Select(dval(h, runs), k) == z3.Select(dval(h0, runs), k)))))
            allowed = [runs, launches, run, launch, pipes]
            spec.oblige(I, "frame:only-the-addressed-run-launch-and-tables-change", frame_eq(h0, h, 0, allowed))
            if meth == "_ingest_pipeline_start":
                # the identity-bearing fields: taken from the record when it carries them, kept otherwise - whether or not an
                # earlier record (a SER, the pipeline_end) already created the aggregate
                for fname in ("pipeline_id", "pipeline_spec_canonical", "meta"):
                    v_ = getv(h_in, rec, fname)
                    old_ = fld(h0, run, fname) if known_case else NONE
                    spec.oblige(I, f"start-record-sets-{fname}(kept-when-the-record-has-none)",
                                z3.Implies(usable, fld(h, obj, fname) == z3.If(v_ != NONE, v_, old_)), meta={"witness": "order-dependence"})
                both = z3.And(usable, lid != NONE, att != NONE)
                lobj = z3.Select(dval(h, launches), lkey)
                lp = fld(h, lobj, "pipelines")
                spec.oblige(I, "run-linked-to-its-launch", z3.Implies(both, z3.And(
                    z3.Select(ddom(h, launches), lkey), z3.Select(z3.Select(h.sdom, V.id(lp)), rid))))
                if lknown:
                    spec.oblige(I, "launch-flags-kept", z3.Implies(both, z3.And(lobj == launch,
                                fld(h, launch, "saw_start") == fld(h0, launch, "saw_start"), fld(h, launch, "saw_end") == fld(h0, launch, "saw_end"))))
                    spec.oblige(I, "other-runs-of-the-launch-kept", z3.ForAll([k], z3.Implies(z3.Select(z3.Select(h0.sdom, V.id(pipes)), k),
                                                                                              z3.Select(z3.Select(h.sdom, V.id(pipes)), k))))
        return body
    E.run_function(spec, "_ingest_pipeline_start", mk("_ingest_pipeline_start", "saw_start"))
    E.run_function(spec, "_ingest_pipeline_end", mk("_ingest_pipeline_end", "saw_end"))


def typed_node(I):
    node_ci = cls_of(I, MODELS, "NodeAggregate")
    counts = in_dict(I, "counts")
    ts = lambda nm: z3.Const(nm, V)
    for nm in ("n_first", "n_last", "n_status"):
        I.st.assume(z3.Or(z3.Const(nm, V) == NONE, V.is_str(z3.Const(nm, V))))
    vals = {"node_id": in_val(I, "n_id"), "first_timestamp": ts("n_first"), "last_timestamp": ts("n_last"), "last_seq": in_val(I, "n_seq"),
            "last_status": ts("n_status"), "counts": counts, "timing": in_val(I, "n_timing"), "last_error": in_val(I, "n_err")}
    return in_inst(I, "node", node_ci, vals), counts


def h_ingest_ser2(spec):
    """SER: the addressed node aggregate gets the record's status (created if absent); run flags and all other nodes kept"""
    fn_info(spec, AGG, "TraceAggregator._ingest_ser")

    def body(I):
        st = I.st
        me, runs, run, nodes = concrete_state(I)
        rec = record_in(I)
        ident = in_dict(I, "identity")
        h_in = st.h
        st.assume(z3.Select(ddom(h_in, rec), vstr("identity")))
        st.assume(z3.Select(dval(h_in, rec), vstr("identity")) == ident)
        record_pre(I, rec, h_in)
        rid, nid = getv(h_in, ident, "run_id"), getv(h_in, ident, "node_id")
        for v in (rid, nid):
            st.assume(z3.Or(v == NONE, V.is_str(v)))
        node, counts = typed_node(I)
        # counts hold integers
        hc = st.h.copy()
        st.dict_instantiators.append(lambda did, key: z3.Implies(
            z3.And(did == V.id(counts), z3.Select(z3.Select(hc.ddom, did), key)), V.is_int(z3.Select(z3.Select(hc.dval, did), key))))
        known_case = st.choose(2, "run known?") == 1
        node_known = False
        if known_case:
            st.assume(z3.And(V.is_str(rid), z3.Select(ddom(st.h, runs), rid), z3.Select(dval(st.h, runs), rid) == run))
            node_known = st.choose(2, "node known?") == 1
            if node_known:
                st.assume(z3.And(z3.Select(ddom(st.h, nodes), nid), z3.Select(dval(st.h, nodes), nid) == node))
            else:
                st.assume(z3.Not(z3.Select(ddom(st.h, nodes), nid)))
        else:
            st.assume(z3.Not(z3.Select(ddom(st.h, runs), rid)))
        h0 = st.h.copy()
        _, f = E.method_of(I, AGG, "TraceAggregator", "_ingest_ser")
        out = E.execute(I, f, [me, rec])
        if out[0] != "return":
            spec.oblige(I, "never-raises-on-producer-records", z3.BoolVal(False))
            return
        h = st.h
        usable = z3.And(V.is_str(rid), z3.Length(V.s(rid)) > 0, V.is_str(nid), z3.Length(V.s(nid)) > 0)
        obj = z3.Select(dval(h, runs), rid)
        nd = fld(h, obj, "nodes")
        status = getv(h0, rec, "status")
        want_status = z3.If(z3.And(V.is_str(status), z3.Length(V.s(status)) > 0), status, vstr("unknown"))
        spec.oblige(I, "record-without-ids-is-ignored", z3.Implies(z3.Not(usable), frame_eq(h0, h, 0)))
        spec.oblige(I, "run-known-afterwards", z3.Implies(usable, z3.Select(ddom(h, runs), rid)))
        if known_case:
            spec.oblige(I, "existing-run-reused-flags-kept", z3.Implies(usable, z3.And(
                obj == run, fld(h, run, "saw_start") == fld(h0, run, "saw_start"), fld(h, run, "saw_end") == fld(h0, run, "saw_end"), nd == nodes)))
        else:
            spec.oblige(I, "new-run-has-no-lifecycle-edge", z3.Implies(usable, z3.And(
                fld(h, obj, "saw_start") == vbool(False), fld(h, obj, "saw_end") == vbool(False))))
        spec.oblige(I, "node-observed-afterwards", z3.Implies(usable, z3.Select(ddom(h, nd), nid)))
        nobj = z3.Select(dval(h, nd), nid)
        spec.oblige(I, "last_status=record-status-or-unknown", z3.Implies(usable, fld(h, nobj, "last_status") == want_status))
        k = z3.Const("k", V)
        if known_case:
            spec.oblige(I, "node-table-changes-only-at-node-id", z3.Implies(usable, z3.ForAll([k], z3.Implies(k != nid, z3.And(
                z3.Select(ddom(h, nodes), k) == z3.Select(ddom(h0, nodes), k), z3.Select(dval(h, nodes), k) == z3.Select(dval(h0, nodes), k))))))
        if node_known:
            spec.oblige(I, "existing-node-aggregate-reused", z3.Implies(usable, nobj == node))
        spec.oblige(I, "runs-table-changes-only-at-run-id", z3.ForAll([k], z3.Implies(k != rid, z3.And(
            z3.Select(ddom(h, runs), k) == z3.Select(ddom(h0, runs), k), z3.Select(dval(h, runs), k) == z3.Select(dval(h0, runs), k)))))
        spec.oblige(I, "frame:only-the-addressed-node-its-counts-and-the-two-tables-change", frame_eq(h0, h, 0, [runs, nodes, node, counts]))
    E.run_function(spec, "_ingest_ser", body)


def h_ingest_rs2(spec):
    """run_space_start / run_space_end: the addressed launch gets the flag (created if absent), its runs are kept"""
    for q in ("_ingest_run_space_start", "_ingest_run_space_end"):
        fn_info(spec, AGG, "TraceAggregator." + q)

    def mk(meth, flag):
        def body(I):
            st = I.st
            me, runs, launches = agg_self(I)
            st.h_input = st.h.copy()
            rec = record_in(I)
            h_in = st.h
            record_pre(I, rec, h_in)
            for key in ("run_space_spec_id", "run_space_inputs_id", "run_space_planned_run_count", "run_space_input_fingerprints"):
                v = getv(h_in, rec, key)
                st.assume(z3.Implies(V.is_ref(v), V.id(v) <= 0))
            lid, att = getv(h_in, rec, "run_space_launch_id"), getv(h_in, rec, "run_space_attempt")
            lkey = vtup([lid, att])
            launch, pipes = typed_launch(I, launches, lkey)
            lknown = st.choose(2, "launch known?") == 1
            if lknown:
                st.assume(z3.And(z3.Select(ddom(st.h, launches), lkey), z3.Select(dval(st.h, launches), lkey) == launch))
            else:
                st.assume(z3.Not(z3.Select(ddom(st.h, launches), lkey)))
            h0 = st.h.copy()
            _, f = E.method_of(I, AGG, "TraceAggregator", meth)
            out = E.execute(I, f, [me, rec])
            if out[0] != "return":
                spec.oblige(I, "never-raises-on-producer-records", z3.BoolVal(False))
                return
            h = st.h
            usable = z3.And(V.is_str(lid), z3.Length(V.s(lid)) > 0, att != NONE)
            lobj = z3.Select(dval(h, launches), lkey)
            spec.oblige(I, "record-without-launch-key-is-ignored", z3.Implies(z3.Not(usable), frame_eq(h0, h, 0)))
            spec.oblige(I, "launch-known-afterwards", z3.Implies(usable, z3.Select(ddom(h, launches), lkey)))
            spec.oblige(I, f"{flag}-set", z3.Implies(usable, fld(h, lobj, flag) == vbool(True)))
            other = "saw_end" if flag == "saw_start" else "saw_start"
            if lknown:
                spec.oblige(I, "existing-launch-reused-runs-kept", z3.Implies(usable, z3.And(
                    lobj == launch, fld(h, launch, other) == fld(h0, launch, other), fld(h, launch, "pipelines") == pipes,
                    z3.Select(h.sdom, V.id(pipes)) == z3.Select(h0.sdom, V.id(pipes)))))
            else:
                spec.oblige(I, "new-launch-has-only-this-edge", z3.Implies(usable, fld(h, lobj, other) == vbool(False)))
            k = z3.Const("k", V)
            spec.oblige(I, "launch-table-changes-only-at-the-key", z3.ForAll([k], z3.Implies(k != lkey, z3.And(
                z3.Select(ddom(h, launches), k) == z3.Select(ddom(h0, launches), k), z3.Select(dval(h, launches), k) == z3.Select(dval(h0, launches), k)))))
            spec.oblige(I, "frame:only-the-addressed-launch-and-the-launch-table-change", frame_eq(h0, h, 0, [launches, launch]))
        return body
    E.run_function(spec, "_ingest_run_space_start", mk("_ingest_run_space_start", "saw_start"))
    E.run_function(spec, "_ingest_run_space_end", mk("_ingest_run_space_end", "saw_end"))


class FinalizeSpec(Spec):
    """_expected_nodes enters finalize_run through its contract (proved by h_expected_nodes): None or a non-empty set"""

    def call_override(self, I, f, args, kwargs, star):
        if isinstance(f, O.HFunc) and f.key == (AGG, "_expected_nodes"):
            self.used_contracts.add(f.key)
            st = I.st
            if st.choose(2, "expected set?") == 0:
                st.ghost["has_expected"] = False
                return NONE
            st.ghost["has_expected"] = True
            exp = self._expected
            st.assume(z3.Select(st.h.slen, V.id(exp)) > 0)
            return exp
        return super().call_override(I, f, args, kwargs, star)


def record_in(I):
    rec = in_dict(I, "record")
    return rec


def getv(h, d, key):
    return z3.If(z3.Select(ddom(h, d), vstr(key)), z3.Select(dval(h, d), vstr(key)), NONE)


def h_ingest_dispatch(spec):
    fn_info(spec, AGG, "TraceAggregator.ingest")

    def body(I):
        st = I.st
        me, runs, launches = agg_self(I)
        rec = record_in(I)
        rt = getv(st.h, rec, "record_type")
        h0 = st.h.copy()
        spec._dispatch = None
        _, f = E.method_of(I, AGG, "TraceAggregator", "ingest")
        out = E.execute(I, f, [me, rec])
        if out[0] != "return":
            spec.oblige(I, "never-raises", z3.BoolVal(False))
            return
        table = {"run_space_start": "_ingest_run_space_start", "run_space_end": "_ingest_run_space_end",
                 "pipeline_start": "_ingest_pipeline_start", "pipeline_end": "_ingest_pipeline_end", "ser": "_ingest_ser"}
        got = spec._dispatch
        cond = z3.And([z3.Implies(rt == vstr(k), z3.BoolVal(got == v)) for k, v in table.items()] +
                      [z3.Implies(z3.And([rt != vstr(k) for k in table]), z3.BoolVal(got is None))])
        spec.oblige(I, "record_type-dispatches-to-its-ingester-unknown-types-ignored", cond)
        spec.oblige(I, "dispatcher-itself-changes-nothing", frame_eq(h0, st.h, 0))
    E.run_function(spec, "ingest", body)


class DispatchSpec(Spec):
    def call_override(self, I, f, args, kwargs, star):
        if isinstance(f, O.HFunc) and f.qual.startswith("TraceAggregator._ingest_"):
            self._dispatch = f.qual.split(".")[1]
            return NONE
        return super().call_override(I, f, args, kwargs, star)


class ManySpec(Spec):
    """ingest_many: ingest() is abstract - it appends the record it is given to a ghost log"""

    def call_override(self, I, f, args, kwargs, star):
        fn = f.func if isinstance(f, O.HBound) else f
        if isinstance(fn, O.HFunc) and fn.qual == "TraceAggregator.ingest":
            st = I.st
            rec = I.lift(args[-1])
            st.set_list(self.LOG, st.list_sq(self.LOG).append(rec))
            return NONE
        return super().call_override(I, f, args, kwargs, star)


def h_ingest_many(spec):
    """ingest_many(records) hands every record to ingest() exactly once, in the order given, and does nothing else.  (That the argument is traversed in
    a single pass - so that a streamed, one-shot iterable is aggregated like a list - is checked by the bounded tier, which feeds
    generators and iterators.)"""
    fn_info(spec, AGG, "TraceAggregator.ingest_many")

    def body(I):
        st = I.st
        me, runs, launches = agg_self(I)
        recs = in_list(I, "records")
        n = z3.Select(st.h.llen, V.id(recs))
        st.assume(n >= 0)
        spec.LOG = in_list(I, "INGESTED")
        st.assume(z3.Select(st.h.llen, V.id(spec.LOG)) == 0)
        h0 = st.h.copy()
        arr0 = z3.Select(h0.larr, V.id(recs))
        j = z3.Int("j!many")

        def inv(c):
            L = c.st.list_sq(spec.LOG)
            return z3.And(L.n == c.i, z3.ForAll([j], z3.Implies(z3.And(j >= 0, j < c.i), L.at(j) == z3.Select(arr0, j))))
        spec.loops.clear()
        spec.loop(AGG, "TraceAggregator.ingest_many", 1, LoopSpec(inv, modifies_heap=True, frame_except=lambda c: [spec.LOG]))
        _, f = E.method_of(I, AGG, "TraceAggregator", "ingest_many")
        out = E.execute(I, f, [me, recs])
        if out[0] != "return":
            spec.oblige(I, "ingest_many/never-raises-by-itself", z3.BoolVal(False))
            return
        L = st.list_sq(spec.LOG)
        spec.oblige(I, "ingest_many/every-record-ingested-once-in-the-order-given", z3.And(L.n == n, z3.ForAll([j], z3.Implies(z3.And(j >= 0, j < n), L.at(j) == z3.Select(arr0, j)))))
        spec.oblige(I, "ingest_many/nothing-else-changes", frame_eq(h0, st.h, 0, [spec.LOG]))
    E.run_function(spec, "ingest_many", body)


def h_commute(spec):
    """spec-level lemma: the update functions on the abstract view commute pairwise (producer precondition:
    two SER records address different (run, node) pairs; lifecycle records are idempotent flags / min / max)"""
    def body(I):
        B = core.B
        S = z3.StringSort()
        # abstract view of one run: (known, saw_start, saw_end, start_ts (min), end_ts (max), nodes: node -> status)
        known, ss, se = z3.Bools("known ss se")
        st_ts, en_ts = z3.Ints("start_ts end_ts")       # timestamps abstracted to a total order, -1/huge = None
        nodes = z3.Const("nodes", z3.ArraySort(S, S))
        ndom = z3.Const("ndom", z3.ArraySort(S, B))

        def start(v, t):
            k, a, b, s, e, nd, nv = v
            return (z3.BoolVal(True), z3.BoolVal(True), z3.If(k, b, z3.BoolVal(False)) if False else b, z3.If(t < s, t, s), e, nd, nv)

        def end(v, t):
            k, a, b, s, e, nd, nv = v
            return (z3.BoolVal(True), a, z3.BoolVal(True), s, z3.If(t > e, t, e), nd, nv)

        def ser(v, n, status):
            k, a, b, s, e, nd, nv = v
            return (z3.BoolVal(True), a, b, s, e, z3.Store(nd, n, True), z3.Store(nv, n, status))
        v0 = (known, z3.If(known, ss, False), z3.If(known, se, False), st_ts, en_ts, ndom, nodes)
        t1, t2 = z3.Ints("t1 t2")
        n1, n2, s1, s2 = z3.Strings("n1 n2 s1 s2")

        def eq(a, b):
            return z3.And([x == y for x, y in zip(a, b)])
        pairs = {
            "start/start": eq(start(start(v0, t1), t2), start(start(v0, t2), t1)),
            "start/end": eq(end(start(v0, t1), t2), start(end(v0, t2), t1)),
            "end/end": eq(end(end(v0, t1), t2), end(end(v0, t2), t1)),
            "start/ser": eq(ser(start(v0, t1), n1, s1), start(ser(v0, n1, s1), t1)),
            "end/ser": eq(ser(end(v0, t1), n1, s1), end(ser(v0, n1, s1), t1)),
            "ser/ser(different nodes)": z3.Implies(n1 != n2, eq(ser(ser(v0, n1, s1), n2, s2), ser(ser(v0, n2, s2), n1, s1))),
            "start/start-idempotent": eq(start(start(v0, t1), t1), start(v0, t1)),
            "end/end-idempotent": eq(end(end(v0, t1), t1), end(v0, t1)),
        }
        for nm, f in pairs.items():
            spec.oblige(I, f"commute:{nm}", f)
        # records of different runs touch different keys of the runs table: commutation is the frame property
        # ("runs-table-changes-only-at-run-id" + "frame:nothing-else-changes") of the code-facing contracts
    E.run_function(spec, "view-lemmas", body)


class LaunchSpec(Spec):
    """finalize_launch with finalize_run abstract (its verdict contract is h_finalize_run2): a run's status is one of three"""

    def call_override(self, I, f, args, kwargs, star):
        fn = f.func if isinstance(f, O.HBound) else f
        if isinstance(fn, O.HFunc) and fn.node.name == "finalize_run":
            st = I.st
            c = st.choose(3, "status of the run")
            status = ["complete", "partial", "invalid"][c]
            if c != 0:
                st.ghost["bad"] = z3.BoolVal(True)
            return V.obj(z3.Int("RunCompleteness_" + status))
        return super().call_override(I, f, args, kwargs, star)

    def obj_attr(self, I, v, name):
        if name == "status":
            s_ = str(z3.simplify(V.oid(v)))
            for status in ("complete", "partial", "invalid"):
                if s_.endswith(status):
                    return vstr(status)
        return super().obj_attr(I, v, name)


def h_finalize_launch(spec):
    """launch verdict = the documented table over (start seen, end seen, runs attached, any run not complete); roll-up counts
    non-negative and 'bad' exactly when a non-complete run was counted; problems name exactly the missing edges"""
    fn_info(spec, AGG, "TraceAggregator.finalize_launch")

    def body(I):
        st = I.st
        me, runs, launches = agg_self(I)
        lid = in_val(I, "launch_id")
        attempt = vint(z3.Int("attempt"))
        key = vtup([lid, attempt])
        launch, pipes = typed_launch(I, launches, key)
        known = st.choose(2, "launch known?") == 1
        if known:
            st.assume(z3.And(z3.Select(ddom(st.h, launches), key), z3.Select(dval(st.h, launches), key) == launch))
        else:
            st.assume(z3.Not(z3.Select(ddom(st.h, launches), key)))
        st.ghost["bad"] = z3.BoolVal(False)
        h0 = st.h.copy()
        n_runs = z3.Select(h0.slen, V.id(pipes))
        st.assume(n_runs >= 0)
        spec.loops.clear()

        def inv(c):
            cnt = c.var("run_status_counts")
            hh = c.st.h
            get = lambda k_: V.i(z3.Select(dval(hh, cnt), vstr(k_)))
            return z3.And(get("complete") >= 0, get("partial") >= 0, get("invalid") >= 0,
                          (get("partial") + get("invalid") > 0) == c.st.ghost["bad"],
                          get("complete") + get("partial") + get("invalid") == c.i,
                          z3.And([z3.Select(ddom(hh, cnt), vstr(k_)) for k_ in ("complete", "partial", "invalid")]),
                          z3.And([V.is_int(z3.Select(dval(hh, cnt), vstr(k_))) for k_ in ("complete", "partial", "invalid")]))
        spec.loop(AGG, "TraceAggregator.finalize_launch", 1, LoopSpec(inv, modifies_heap=True, ghost=("bad",),
                                                                      frame_except=lambda c: [c.var("run_status_counts")]))
        _, f = E.method_of(I, AGG, "TraceAggregator", "finalize_launch")
        out = E.execute(I, f, [me, lid, attempt])
        if out[0] != "return":
            spec.oblige(I, "finalize_launch/never-raises", z3.BoolVal(False), meta={"exc": repr(out[1])})
            return
        h = st.h
        res = out[1]
        status = fld(h, res, "status")
        problems = fld(h, res, "problems")
        pq = st.list_sq(problems)
        has = lambda name: z3.Or(z3.And(pq.n >= 1, pq.at(0) == vstr(name)), z3.And(pq.n >= 2, pq.at(1) == vstr(name)))
        if not known:
            spec.oblige(I, "finalize_launch/unknown-launch-is-invalid-and-says-so", z3.And(status == vstr("invalid"), pq.n == 1, pq.at(0) == vstr("unknown_launch")))
            return
        ss, se = z3.Bool("l_saw_start"), z3.Bool("l_saw_end")
        some = n_runs > 0
        bad = st.ghost["bad"]
        want = z3.If(z3.And(z3.Not(ss), some), vstr("invalid"),
                     z3.If(z3.And(ss, se), z3.If(bad, vstr("partial"), vstr("complete")),
                           z3.If(z3.Or(ss, se, some), vstr("partial"), vstr("invalid"))))
        spec.oblige(I, "finalize_launch/status-is-the-documented-verdict(start,end,runs,any-run-not-complete)", status == want, meta={"witness": "launch-status"})
        spec.oblige(I, "finalize_launch/complete-exactly-when-both-edges-seen-and-every-run-complete", (status == vstr("complete")) == z3.And(ss, se, z3.Not(bad)))
        spec.oblige(I, "finalize_launch/a-started-launch-is-never-invalid", z3.Implies(ss, status != vstr("invalid")), meta={"witness": "launch-status"})
        spec.oblige(I, "finalize_launch/problems-name-exactly-the-missing-edges",
                    z3.And(has("missing_run_space_start") == z3.Not(ss), has("missing_run_space_end") == z3.Not(se),
                           pq.n == z3.If(ss, 0, 1) + z3.If(se, 0, 1)))
        summ = fld(h, res, "summary")
        spec.oblige(I, "finalize_launch/runs_total-is-the-number-of-attached-runs", z3.Select(dval(h, summ), vstr("runs_total")) == V.int(n_runs))
        cnt = z3.Select(dval(h, summ), vstr("runs_by_status"))
        get = lambda k_: V.i(z3.Select(dval(h, cnt), vstr(k_)))
        spec.oblige(I, "finalize_launch/roll-up-counts-add-up-to-the-attached-runs", get("complete") + get("partial") + get("invalid") == n_runs)
        spec.oblige(I, "finalize_launch/launch-aggregate-untouched", z3.And([fld(h, launch, fn_) == fld(h0, launch, fn_) for fn_ in LAUNCH_FIELDS]))
    E.run_function(spec, "TraceAggregator.finalize_launch", body)


TASKS = [h_coerce_int, h_expected_nodes, h_ingest_dispatch, h_ingest_many, h_commute, h_finalize_run2, h_ingest_lifecycle2, h_ingest_ser2, h_ingest_rs2, h_finalize_launch]
HEAVY = []
FACTORIES = {"h_finalize_run2": FinalizeSpec, "h_ingest_dispatch": DispatchSpec, "h_finalize_launch": LaunchSpec, "h_ingest_many": ManySpec}


def factory():
    return Spec()


def _wrap(task):
    def run(spec):
        fac = FACTORIES.get(task.__name__)
        if fac is None:
            return task(spec)
        s2 = fac()
        s2.obligations, s2._seen, s2.undecided, s2.functions = spec.obligations, spec._seen, spec.undecided, spec.functions
        s2.used_contracts = spec.used_contracts
        task(s2)
        spec.path_count += s2.path_count
        spec.assumptions |= s2.assumptions
    run.__name__ = task.__name__
    run.shards = getattr(task, "shards", 0)
    return run


WRAPPED = [_wrap(t) for t in TASKS]


def replay(ob):
    payload = {"obligation": ob.name, "solver": ob.backend, "model": report.model_summary(ob), "goal": ob.goal if isinstance(ob.goal, str) else str(ob.goal)[:800]}
    script = os.path.join(report.ROOT, "replay", "c13_replay.py")
    res, proc = report.native_json(script, {"obligation": ob.name})
    payload["native"] = res
    payload["stderr"] = (proc.stderr or "")[-400:]
    return bool(res and res.get("violates")), payload


def main(tier="quick", seed=0):
    run = report.Run(PROP, tier, seed)
    spec = factory()
    faults = E.run_parallel(spec, factory, WRAPPED, timeout_ms=10000 if tier == "quick" else 30000)
    if faults:
        run.engine_fault = faults[0][-1500:]
    generic_refutations(run, spec, PROP, replay)
    run_bounded(run, PROP, "c13_bounded.py", tier)
    return run.finish(spec, "proof", "per-function contracts + spec-level commutation lemma + bounded prefix/permutation tier; see DESIGN.md C13")


if __name__ == "__main__":
    t, s = tier_and_seed()
    sys.exit(main(t, s))
