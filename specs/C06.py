"""C06 — every run leaves a well-formed trace, whatever node fails.   (also carries C10(a) and the C01 node loop)

Deductive part: the real SemantivaOrchestrator.execute (300 lines, re-read every run) is executed symbolically for an
arbitrary number of nodes.  Its helpers enter through contracts (fresh results, no effect on data/context/trace), node.process
is abstract (returns a payload, or raises an exception of ANY class), the trace driver appends to a ghost trace list.
Loop invariant of the node loop:   T = T0 ++ [start] ++ [ser(j, succeeded) | j < i],  driver open,  processed = i.
Postconditions, per exit (trace attached):
   normal return          T = T0 ++ start ++ sers(n, all succeeded) ++ end(ok), driver flushed+closed
   node i raises e        T = T0 ++ start ++ i succeeded ++ ser(i, error) ++ end(error), closed, e propagates unchanged,
                          no later node ran (processed = i + 1)
   node construction fails  T = T0 ++ start ++ end(error), closed
and without a trace driver: the same returns / raises, the same `processed`, T untouched (tracing is observational).
The C01 node loop: with FoldData / FoldCtx defined by recursion over the node list (Fold(0) = the input payload, Fold(j+1) = what
node j returns on Fold(j)), the invariant carries data = FoldData(i), context = FoldCtx(i) and "nodes 0..i-1 ran once each, in order";
on return the result is Fold(n); when node k raises it was given Fold(k) and no later node ran (obligations fold[...]).
Bounded stand-in (labelled bounded): schema validation of natively emitted JSONL lines, all failure points / kinds / detail
levels on real pipelines (replay/c06_bounded.py).
"""
from __future__ import annotations
import sys, os
import z3
from .common import *
from pyvc.interp import frame_eq
from pyvc.core import Sq

PROP = "C06"
ORCH = "semantiva/execution/orchestrator/orchestrator.py"
PAYLOAD = "semantiva/pipeline/payload.py"
I_ = core.I

PID = z3.Function("PipelineIdOf", V, z3.StringSort())
UPSTREAM = z3.Function("UpstreamOf", V, V)          # upstream_map.get(node_id, [])  (contract of compute_upstream_map, C04)
NodeFails = z3.Function("NodeFails", V, V, V, core.B)   # node.process(Payload(data, ctx)) raises
NodeExc = z3.Function("NodeExcCls", V, V, V, I_)
NodeOutData = z3.Function("NodeOutData", V, V, V, V)
NodeOutCtx = z3.Function("NodeOutCtx", V, V, V, V)

# the fold of the node semantics in declaration order (C01): FoldData(0) = data0, FoldData(j+1) = NodeOutData(node_j, FoldData(j), FoldCtx(j))
FoldData = z3.Function("FoldData", I_, V)
FoldCtx = z3.Function("FoldCtx", I_, V)

HELPERS_FRESH_DICT = {"_trace_options", "_collect_env_pins", "_context_snapshot", "_init_summaries", "_augment_output_summaries"}
HELPERS_FRESH_LIST = {"_required_keys_for", "_build_pre_checks", "_extra_pre_checks", "_build_post_checks", "_extra_post_checks"}


_REC = {}


def rec(kind, *fields):
    """a trace record as an opaque value: an uninterpreted constructor applied to the fields that matter"""
    key = (kind, len(fields))
    if key not in _REC:
        _REC[key] = z3.Function(f"Rec_{kind}", *([V] * len(fields)), I_)
    return V.obj(_REC[key](*fields))


class Spec(PureLibMixin, BaseSpec):
    def __init__(self):
        super().__init__(PROP)
        self.inline_files |= {PAYLOAD, "semantiva/trace/delta_collector.py", "semantiva/trace/runtime/context.py"}
        self.inline |= {(ORCH, "SemantivaOrchestrator.execute"), (ORCH, "_const_supplier")}
        self.obj_methods = {
            "on_pipeline_start": self.d_start, "on_node_event": self.d_ser, "on_pipeline_end": self.d_end,
            "flush": self.d_flush, "close": self.d_close, "process": self.n_process, "fingerprint": self.m_fingerprint,
        }
        self.obj_missing = {"get_options"}
        self.assumptions |= {
            "trace driver methods do not raise (driver I/O does not fail)",
            "helper methods of the orchestrator (_context_snapshot, _required_keys_for, _resolve_params_with_sources, _build_*_checks, _init/_augment summaries, timing, _ensure_context_delta, _make_ser_record, _collect_env_pins, _trace_options) return fresh values and do not raise: their own contracts are C07's harnesses; _make_ser_record records exactly the identity/status/upstream it is given",
            "_submit_and_wait calls the node callable exactly once and returns its value / propagates its exception (SequentialSemantivaExecutor)",
            "node.process is abstract: returns a Payload (or any other value) or raises an exception of any class; it does not touch the trace",
        }

    # ---- ghost trace driver --------------------------------------------------------------------------
    def _append(self, I, r):
        st = I.st
        T = self.TRACE
        st.set_list(T, st.list_sq(T).append(r))

    def d_start(self, I, recv, args, kwargs, star):
        self._append(I, rec("start", I.lift(args[1]), I.lift(args[0])))     # (run_id, pipeline_id)
        I.st.ghost["run_id"], I.st.ghost["pipeline_id"] = I.lift(args[1]), I.lift(args[0])
        return NONE

    def d_ser(self, I, recv, args, kwargs, star):
        self._append(I, I.lift(args[0]))
        return NONE

    def d_end(self, I, recv, args, kwargs, star):
        st = I.st
        summary = args[1]
        status = z3.Select(dval(st.h, summary), vstr("status"))
        self._append(I, rec("end", I.lift(args[0]), status))
        return NONE

    def d_flush(self, I, recv, args, kwargs, star):
        I.st.ghost["flushed"] = z3.BoolVal(True)
        return NONE

    def d_close(self, I, recv, args, kwargs, star):
        I.st.ghost["closed"] = z3.BoolVal(True)
        return NONE

    def m_fingerprint(self, I, recv, args, kwargs, star):
        if I.st.choose(2, "fingerprint ok?") == 0:
            return vstr(fresh("fp", z3.StringSort()))
        raise PyRaise(self.exc_of(I, bcls(Exception)))

    def exc_of(self, I, bound=None):
        c = fresh("exc_cls", I_)
        st = I.st
        if bound is not None:
            st.mention(bound, target=True)
            st.symcls.append(c)
            st.assume(issub(c, bound.cid))
        return O.HExc(c, origin=("abstract",))

    # ---- abstract node ---------------------------------------------------------------------------------
    def n_process(self, I, recv, args, kwargs, star):
        st = I.st
        payload = args[0]
        data, ctx = fld(st.h, payload, "data"), fld(st.h, payload, "context")
        P = self.PROCLOG
        st.set_list(P, st.list_sq(P).append(recv))
        st.ghost["last_call"] = (recv, data, ctx)
        if st.decide(NodeFails(recv, data, ctx), "node-fails"):
            e = O.HExc(NodeExc(recv, data, ctx), origin=("node.process",))
            st.ghost["node_exc"] = e
            exc_ci = bcls(Exception)
            st.mention(exc_ci, target=True)
            base_ci = bcls(BaseException)
            st.mention(base_ci, target=True)
            st.assume(issub(e.cid, base_ci.cid))      # Python only raises BaseException instances
            if not any(e.cid.eq(t_) for t_ in st.symcls):
                st.symcls.append(e.cid)
            # ordinary failure (an Exception subclass) or an abort (KeyboardInterrupt-class BaseException)
            st.ghost["node_exc_ordinary"] = st.decide(issub(e.cid, exc_ci.cid), "failure-is-an-Exception")
            raise PyRaise(e)
        if st.choose(2, "node returns a Payload?") == 0:
            pl_ci = cls_of(I, PAYLOAD, "Payload")
            out = st.new_inst(pl_ci)
            od, oc = NodeOutData(recv, data, ctx), NodeOutCtx(recv, data, ctx)
            for v in (od, oc):
                st.assume(z3.Implies(V.is_ref(v), V.id(v) <= st.nalloc))
            I.setattr(out, "data", od)
            I.setattr(out, "context", oc)
            return out
        bad = V.obj(fresh("not_a_payload", I_))
        pl_ci = cls_of(I, PAYLOAD, "Payload")
        st.mention(pl_ci, target=True)
        st.assume(z3.Not(issub(objcls(V.oid(bad)), pl_ci.cid)))
        return bad

    def obj_attr(self, I, v, name):
        if name == "hex":
            I.st.reads.add(("ambient", "uuid4"))
            return vstr(z3.Function("HexStr", I_, z3.StringSort())(V.oid(v)))
        if name == "processor":
            return V.obj(z3.Function("ProcessorOf", I_, I_)(V.oid(v)))
        return super().obj_attr(I, v, name)

    # ---- helper contracts ------------------------------------------------------------------------------
    def call_override(self, I, f, args, kwargs, star):
        st = I.st
        fn = f.func if isinstance(f, O.HBound) else f
        if not isinstance(fn, O.HFunc):
            return MISSING
        name = fn.node.name
        parts = fn.qual.split(".")
        owner = parts[0]
        if len(parts) == 2 and owner in ("SemantivaOrchestrator", "LocalSemantivaOrchestrator") and name != "execute":
            self.used_contracts.add((ORCH, fn.qual))
            if name in HELPERS_FRESH_DICT:
                return self.fresh_dict(I)
            if name in HELPERS_FRESH_LIST:
                return st.new_list(Sq(fresh("hl", core.VArr), self.nonneg(I)))
            if name == "_resolve_params_with_sources":
                return vtup([self.fresh_dict(I), self.fresh_dict(I)])
            if name == "_start_timing":
                return vtup([V.real(fresh("t", z3.RealSort())), V.real(fresh("t", z3.RealSort())), vstr(fresh("iso", z3.StringSort()))])
            if name == "_end_timing":
                return vtup([vstr(fresh("iso", z3.StringSort())), vint(fresh("ms", I_)), vint(fresh("ms", I_))])
            if name == "_ensure_context_delta":
                return V.obj(fresh("ctxdelta", I_))
            if name == "_submit_and_wait":
                return I.call(args[0] if args else kwargs["node_callable"], [])
            if name == "_publish":
                if st.choose(2, "publish ok?") == 0:
                    return NONE
                raise PyRaise(self.exc_of(I, bcls(Exception)))
            if name == "_resolve_processor_classes":
                if st.choose(2, "classes resolvable?") == 0:
                    return st.new_list(Sq(fresh("classes", core.VArr), z3.IntVal(0)))   # semantic-pair loop: no sweep metadata
                raise PyRaise(self.exc_of(I, bcls(Exception)))
            if name == "_instantiate_nodes":
                if st.choose(2, "nodes constructible?") == 0:
                    return vtup([self.NODES, self.NODE_DEFS])
                e = self.exc_of(I, bcls(Exception))
                st.ghost["construction_exc"] = e
                raise PyRaise(e)
            if name == "_make_ser_record":
                kw = kwargs
                self.oblige(I, "call:_make_ser_record/pre/ids-not-None", z3.And(I.lift(kw["pipeline_id"]) != NONE, I.lift(kw["run_id"]) != NONE))
                up = I.lift(kw["upstream_ids"])
                nid = I.lift(kw["node_id"])
                hm = self.H0
                in_map = z3.Select(ddom(hm, self.UPMAP), nid)
                self.oblige(I, "SER/upstream=canonical-edges-into-the-node", z3.And(
                    V.is_ref(up), z3.Select(st.kinds, V.id(up)) == K_LIST,
                    z3.If(in_map, up == z3.Select(dval(hm, self.UPMAP), nid), z3.Select(st.h.llen, V.id(up)) == 0)))
                return rec("ser", I.lift(kw["status"]), nid, I.lift(kw["run_id"]), I.lift(kw["pipeline_id"]))
            raise OutsideSubset(f"orchestrator helper {name} has no contract here")
        if name == "compute_pipeline_id":
            return vstr(PID(I.lift(args[0])))
        if name == "compute_upstream_map":
            return self.UPMAP
        if name in ("compute_pipeline_semantic_id", "compute_pipeline_config_id", "compute_node_semantic_id"):
            return vstr(fresh("semid", z3.StringSort()))
        if name == "current_profile":
            return V.obj(fresh("profile", I_))
        if fn.qual == "DeltaCollector.compute":
            return self.fresh_dict(I)
        return MISSING

    def fresh_dict(self, I):
        st = I.st
        d = st.new_dict()
        rid = V.id(d)
        st.h.ddom = z3.Store(st.h.ddom, rid, fresh("dom", core.VSet))
        st.h.dval = z3.Store(st.h.dval, rid, fresh("val", core.VMap))
        st.h.dlen = z3.Store(st.h.dlen, rid, self.nonneg(I))
        st.h.dord = z3.Store(st.h.dord, rid, fresh("ord", core.VArr))
        return d

    def nonneg(self, I):
        n = fresh("n", I_)
        I.st.assume(n >= 0)
        return n

    def ext_call(self, I, dotted, args, kwargs, star):
        if dotted == "uuid.uuid4":
            I.st.reads.add(("ambient", "uuid4"))
            return V.obj(fresh("uuid4", I_))
        return super().ext_call(I, dotted, args, kwargs, star)

    def inst_attr_override(self, I, v, ci, name):
        return None


# ----------------------------------------------------------------------------------------------------------
def setup(I, spec, traced):
    st = I.st
    orch_ci = cls_of(I, ORCH, "SemantivaOrchestrator")
    me = in_inst(I, "orch", orch_ci, {"_next_run_metadata": NONE, "_current_run_metadata": NONE, "_last_nodes": in_list(I, "last_nodes")})
    spec.TRACE = in_list(I, "TRACE")
    spec.PROCLOG = in_list(I, "PROCLOG")
    spec.NODES, spec.NODE_DEFS = in_list(I, "nodes"), in_list(I, "node_defs")
    spec.UPMAP = in_dict(I, "upstream_map")
    canonical = in_dict(I, "canonical")
    cnodes = in_list(I, "canonical_nodes")
    h = st.h
    st.assume(z3.Select(ddom(h, canonical), vstr("nodes")))
    st.assume(z3.Select(dval(h, canonical), vstr("nodes")) == cnodes)
    n = z3.Select(h.llen, V.id(spec.NODES))
    st.assume(n >= 0)
    st.assume(z3.Select(h.llen, V.id(spec.NODE_DEFS)) == n)
    st.assume(z3.Select(h.llen, V.id(cnodes)) == n)          # canonical spec of this pipeline: one entry per node
    for l in (spec.TRACE, spec.PROCLOG):
        st.assume(z3.Select(h.llen, V.id(l)) >= 0)
    hs = h.copy()
    spec.H0 = hs
    UU = z3.Function("NodeUuid", I_, V)
    spec.UU = UU

    def elem_facts(lid, idx):
        e = z3.Select(z3.Select(hs.larr, lid), idx)
        inr = z3.And(idx >= 0, idx < n)
        return z3.And(
            z3.Implies(z3.And(lid == V.id(spec.NODES), inr), V.is_obj(e)),
            z3.Implies(z3.And(lid == V.id(spec.NODE_DEFS), inr), z3.And(V.is_ref(e), V.id(e) <= 0, z3.Select(hs.kind, V.id(e)) == K_DICT)),
            z3.Implies(z3.And(lid == V.id(cnodes), inr), z3.And(V.is_ref(e), V.id(e) <= 0, z3.Select(hs.kind, V.id(e)) == K_DICT,
                                                               z3.Select(ddom(hs, e), vstr("node_uuid")), z3.Select(dval(hs, e), vstr("node_uuid")) == UU(idx),
                                                               V.is_str(UU(idx)))))
    st.list_instantiators.append(elem_facts)
    j = z3.Int("j!ef")
    st.assume(z3.ForAll([j], elem_facts(V.id(spec.NODES), j)))
    st.assume(z3.ForAll([j], elem_facts(V.id(cnodes), j)))
    # upstream map values are lists (contract of compute_upstream_map)
    hu = hs
    st.dict_instantiators.append(lambda did, key: z3.Implies(
        z3.And(did == V.id(spec.UPMAP), z3.Select(z3.Select(hu.ddom, did), key)),
        z3.And(V.is_ref(z3.Select(z3.Select(hu.dval, did), key)), V.id(z3.Select(z3.Select(hu.dval, did), key)) <= 0,
               z3.Select(hu.kind, V.id(z3.Select(z3.Select(hu.dval, did), key))) == K_LIST,
               z3.Select(hu.llen, V.id(z3.Select(z3.Select(hu.dval, did), key))) >= 0)))
    pl_ci = cls_of(I, PAYLOAD, "Payload")
    payload = in_inst(I, "payload", pl_ci, {"data": in_val(I, "data0"), "context": in_val(I, "ctx0")})
    trace = V.obj(z3.Int("trace_driver")) if traced else NONE
    st.ghost["closed"] = z3.BoolVal(False)
    st.ghost["flushed"] = z3.BoolVal(False)
    return me, canonical, cnodes, payload, trace, n


def ser_at(spec, I, env_lookup, j, status):
    """the SER the contract of _make_ser_record records for node j"""
    UU = spec.UU
    nid = UU(j)
    run_token, pipeline_token, upmap = env_lookup("run_token"), env_lookup("pipeline_token"), spec.UPMAP
    h = spec.H0
    up = z3.If(z3.Select(ddom(h, upmap), nid), z3.Select(dval(h, upmap), nid), NONE)
    return vstr("ser"), status, nid, run_token, pipeline_token, up


def loop_inv(spec, traced):
    def inv(c):
        I, st = c.I, c.st
        T, P = st.list_sq(spec.TRACE), st.list_sq(spec.PROCLOG)
        T0 = Sq(z3.Select(spec.H0.larr, V.id(spec.TRACE)), z3.Select(spec.H0.llen, V.id(spec.TRACE)))
        P0n = z3.Select(spec.H0.llen, V.id(spec.PROCLOG))
        i = c.i
        j = z3.Int("j!li")
        conj = [P.n == P0n + i, st.ghost["closed"] == z3.BoolVal(False) if False else z3.BoolVal(True)]
        conj.append(z3.ForAll([j], z3.Implies(z3.And(j >= 0, j < T0.n), T.at(j) == T0.at(j))))
        # C01: the nodes ran one after the other in declaration order, each on what the previous one returned
        nodes_arr = z3.Select(spec.H0.larr, V.id(spec.NODES))
        conj.append(z3.And(c.I.lift(c.var("data")) == FoldData(i), c.I.lift(c.var("context")) == FoldCtx(i)))
        conj.append(z3.ForAll([j], z3.Implies(z3.And(j >= 0, j < i), P.at(P0n + j) == z3.Select(nodes_arr, j))))
        if traced:
            run_token, pipeline_token = c.var("run_token"), c.var("pipeline_token")
            conj += [T.n == T0.n + 1 + i,
                     T.at(T0.n) == rec("start", c.I.lift(c.var("run_id")), c.I.lift(c.var("pipeline_id"))),
                     c.I.lift(c.var("run_id")) == c.I.lift(run_token), c.I.lift(c.var("pipeline_id")) == c.I.lift(pipeline_token),
                     V.is_str(c.I.lift(run_token)), V.is_str(c.I.lift(pipeline_token)),
                     c.I.lift(c.var("trace_driver")) == c.I.lift(c.var("trace")), c.I.lift(c.var("trace")) != NONE]
            nid = spec.UU(j)
            entry = T.at(T0.n + 1 + j)
            nuq = st.list_sq(c.var("node_uuids"))
            nn = z3.Select(spec.H0.llen, V.id(spec.NODES))
            conj.append(nuq.n == nn)
            conj.append(z3.ForAll([j], z3.Implies(z3.And(j >= 0, j < nn), nuq.at(j) == spec.UU(j))))
            conj.append(z3.ForAll([j], z3.Implies(z3.And(j >= 0, j < i),
                                                  entry == rec("ser", vstr("succeeded"), nid, c.I.lift(run_token), c.I.lift(pipeline_token)))))
        else:
            conj += [T.n == T0.n, c.I.lift(c.var("trace_driver")) == NONE]
        return z3.And(conj)
    return inv


def protected_frame(spec, cnodes, canonical):
    prot = [spec.NODES, spec.NODE_DEFS, spec.UPMAP, cnodes, canonical]

    def allowed(c):
        extra = [v_ for v_ in (c.var("node_uuids"), c.var("upstream_map"), c.var("trace_opts"), c.var("env_pins_static")) if is_v(v_)]
        return [lambda r: z3.And([r != V.id(x) for x in prot + extra])]
    return allowed


def h_execute(spec):
    fn_info(spec, ORCH, "SemantivaOrchestrator.execute")

    def mk(traced):
        def body(I):
            st = I.st
            me, canonical, cnodes, payload, trace, n = setup(I, spec, traced)
            # loop ordinals: #1 semantic-pair loop (traced branch only), #2 the node loop
            spec.loops.clear()
            spec.loop(ORCH, "SemantivaOrchestrator.execute", 1, LoopSpec(lambda c: z3.BoolVal(True), modifies_heap=True,
                                                                          frame_except=lambda c: [c.var("semantic_pairs")]))
            nodes_arr0 = z3.Select(spec.H0.larr, V.id(spec.NODES))

            def fold_step(c):
                # instance at the current index of the defining equations of FoldData / FoldCtx (definition by recursion: conservative)
                if c.i is None:
                    return
                node_i = z3.Select(nodes_arr0, c.i)
                c.st.assume(FoldData(c.i + 1) == NodeOutData(node_i, FoldData(c.i), FoldCtx(c.i)))
                c.st.assume(FoldCtx(c.i + 1) == NodeOutCtx(node_i, FoldData(c.i), FoldCtx(c.i)))
            spec.loop(ORCH, "SemantivaOrchestrator.execute", 2, LoopSpec(loop_inv(spec, traced), modifies_heap=True,
                                                                          frame_except=protected_frame(spec, cnodes, canonical), havoc_hook=fold_step))
            st.assume(FoldData(0) == fld(st.h, payload, "data"))
            st.assume(FoldCtx(0) == fld(st.h, payload, "context"))
            T0 = Sq(z3.Select(spec.H0.larr, V.id(spec.TRACE)), z3.Select(spec.H0.llen, V.id(spec.TRACE)))
            P0n = z3.Select(spec.H0.llen, V.id(spec.PROCLOG))
            ci, f = E.method_of(I, ORCH, "SemantivaOrchestrator", "execute")
            out = E.execute(I, f, [me], dict(pipeline_spec=in_list(I, "pipeline_spec"), payload=payload, transport=V.obj(z3.Int("transport")),
                                             logger=V.obj(z3.Int("logger")), trace=trace, canonical_spec=canonical, run_metadata=NONE))
            T, P = st.list_sq(spec.TRACE), st.list_sq(spec.PROCLOG)
            tag = "traced" if traced else "untraced"
            j = z3.Int("j")
            # ---- C01: execute is the fold of the node semantics in declaration order ------------------------------------------
            if out[0] == "return":
                res = out[1]
                spec.oblige(I, f"fold[{tag}]/returns-the-last-node's-payload:data=Fold(n)", fld(st.h, res, "data") == FoldData(n))
                spec.oblige(I, f"fold[{tag}]/returns-the-last-node's-payload:context=Fold(n)", fld(st.h, res, "context") == FoldCtx(n))
                spec.oblige(I, f"fold[{tag}]/every-node-ran-once-in-declaration-order",
                            z3.And(P.n == P0n + n, z3.ForAll([j], z3.Implies(z3.And(j >= 0, j < n), P.at(P0n + j) == z3.Select(nodes_arr0, j)))))
            elif st.ghost.get("node_exc") is not None and out[1] is st.ghost.get("node_exc"):
                k = P.n - P0n - 1
                recv_, d_, c_ = st.ghost["last_call"]
                spec.oblige(I, f"fold[{tag}]/the-failing-node-got-the-fold-of-its-predecessors",
                            z3.And(k >= 0, k < n, recv_ == z3.Select(nodes_arr0, k), d_ == FoldData(k), c_ == FoldCtx(k)))
                spec.oblige(I, f"fold[{tag}]/no-node-after-the-failing-one-ran",
                            z3.And(P.at(P.n - 1) == recv_, z3.ForAll([j], z3.Implies(z3.And(j >= 0, j < k), P.at(P0n + j) == z3.Select(nodes_arr0, j)))))
            kept = z3.ForAll([j], z3.Implies(z3.And(j >= 0, j < T0.n), T.at(j) == T0.at(j)))
            spec.oblige(I, f"{tag}/earlier-trace-content-kept", kept)
            if not traced:
                spec.oblige(I, "untraced/no-record-emitted", T.n == T0.n)
                if out[0] == "return":
                    spec.oblige(I, "untraced/returns-only-after-all-nodes-ran", P.n == P0n + n)
                else:
                    spec.oblige(I, "untraced/stops-at-the-failing-node", P.n <= P0n + n)
                return
            closed, flushed = st.ghost["closed"], st.ghost["flushed"]
            last = T.at(T.n - 1)
            if out[0] == "return":
                spec.oblige(I, "return/trace=start+n-sers+end", T.n == T0.n + 1 + n + 1)
                spec.oblige(I, "return/pipeline_end-says-ok", last == rec("end", st.ghost["run_id"], vstr("ok")))
                spec.oblige(I, "return/every-node-ran-once", P.n == P0n + n)
                spec.oblige(I, "return/driver-flushed-and-closed", z3.And(closed, flushed))
            else:
                exc = out[1]
                node_exc = st.ghost.get("node_exc")
                cons_exc = st.ghost.get("construction_exc")
                rid, pid = st.ghost.get("run_id"), st.ghost.get("pipeline_id")
                started = rid is not None
                if not started:
                    spec.oblige(I, "raise-before-start/no-record-emitted", T.n == T0.n)
                    return
                end_err = rec("end", rid, vstr("error"))
                k_fail = P.n - P0n - 1            # index of the node that was running
                if node_exc is not None and exc is node_exc:
                    kind = "node-failure" if st.ghost.get("node_exc_ordinary") else "abort(BaseException)"
                    w = {"witness": kind}
                    spec.oblige(I, f"raise/{kind}:trace=start+succeeded-sers+error-ser+end", T.n == T0.n + 1 + (P.n - P0n) + 1, meta=w)
                    spec.oblige(I, f"raise/{kind}:failing-node-SER-says-error",
                                T.at(T.n - 2) == rec("ser", vstr("error"), spec.UU(k_fail), rid, pid), meta=w)
                    spec.oblige(I, f"raise/{kind}:pipeline_end-says-error", last == end_err, meta=w)
                    spec.oblige(I, f"raise/{kind}:driver-flushed-and-closed", z3.And(closed, flushed), meta=w)
                elif node_exc is not None:
                    spec.oblige(I, "raise/original-exception-reaches-the-caller", z3.BoolVal(False))
                elif cons_exc is not None and exc is cons_exc:
                    w = {"witness": "node-construction-error"}
                    spec.oblige(I, "raise/construction-failure:trace=start+end(error)", z3.And(T.n == T0.n + 2, last == end_err), meta=w)
                    spec.oblige(I, "raise/construction-failure:driver-flushed-and-closed", z3.And(closed, flushed), meta=w)
                else:
                    # a failure outside node.process after the start record (publication, non-Payload result ...)
                    spec.oblige(I, "raise/other-failure:pipeline_end-says-error-and-driver-closed", z3.And(last == end_err, closed, flushed))
                    # one SER per node that started, whatever failed afterwards (publication of the node's result, a result that is
                    # not a Payload): the node whose turn it was has exactly one SER, it is the last one, and it carries that node's id
                    started_nodes = P.n - P0n
                    spec.oblige(I, "raise/other-failure:one-SER-per-started-node", T.n == T0.n + 1 + started_nodes + 1, meta={"witness": "publication-failure"})
                    ser_last = T.at(T.n - 2)
                    nid_k = spec.UU(started_nodes - 1)
                    spec.oblige(I, "raise/other-failure:the-last-SER-belongs-to-the-node-that-ran-last",
                                z3.Implies(started_nodes >= 1, z3.Or(ser_last == rec("ser", vstr("succeeded"), nid_k, rid, pid), ser_last == rec("ser", vstr("error"), nid_k, rid, pid))),
                                meta={"witness": "publication-failure"})
        return body
    return mk


def h_execute_traced(spec):
    E.run_function(spec, "execute[traced]", h_execute(spec)(True), max_paths=4000)


def h_execute_untraced(spec):
    E.run_function(spec, "execute[untraced]", h_execute(spec)(False), max_paths=4000)


h_execute_traced.shards = 16
TASKS = [h_execute_traced, h_execute_untraced]


def factory():
    return Spec()


def replay(ob):
    payload = {"obligation": ob.name, "solver": ob.backend, "model": report.model_summary(ob), "meta": getattr(ob, "meta", {}),
               "goal": ob.goal if isinstance(ob.goal, str) else str(ob.goal)[:400]}
    script = os.path.join(report.ROOT, "replay", "c06_bounded.py")
    res, proc = report.native_json(script, {"tier": "quick", "seed": 0})
    payload["native"] = {"failures": (res or {}).get("failures", [])[:5]}
    return bool(res and res.get("failures")), payload


def main(tier="quick", seed=0):
    run = report.Run(PROP, tier, seed)
    spec = factory()
    faults = E.run_parallel(spec, factory, TASKS, timeout_ms=10000 if tier == "quick" else 30000)
    if faults:
        run.engine_fault = faults[0][-1500:]
    generic_refutations(run, spec, PROP, replay)
    run_bounded(run, PROP, "c06_bounded.py", tier)
    return run.finish(spec, "proof", "execute() lifecycle invariant; schema validity bounded; see DESIGN.md C06")


if __name__ == "__main__":
    t, s = tier_and_seed()
    sys.exit(main(t, s))
