"""C14 — the in-memory transport delivers every message exactly once, in channel order.

The property quantifies over thread interleavings.  No deductive verifier for Python threads exists here, and pyvc executes one
thread.  What contracts CAN carry is the classical monitor argument, split into obligations on the real code of
semantiva/execution/transport/in_memory.py (re-read on every run) plus a stated composition rule:

  ownership / lock discipline (ghost set `held` of locks, `with lock:` enters and leaves it):
     G1  every access to a channel's deque (append, popleft, truth test) happens while that channel's own lock is held;
     G2  the channel table is only ever extended: no entry is removed or replaced (so the (deque, lock) pair a thread looked up
         stays THE pair of that channel), and the step that may create an entry - the lookup in publish(), whose defaultdict
         factory is Python code and therefore not atomic - runs under the transport-wide lock or for a key known to exist;
     G3  no lock is taken while another is held (no lock-order cycle), every lock taken is released on every exit.
  sequential contracts:
     S1  publish(channel, ...) appends exactly one Message built from its arguments to the tail of that channel's deque and does
         nothing else to any deque;
     S2  an iteration step of a subscription pops at most one message, from the head of a deque whose channel matches the
         pattern, and yields exactly the message it popped (never drops it, never yields anything else); when nothing was
         popped in a full scan the iteration ends.
  composition (argued in DESIGN.md, not machine-checked): G1+G2+G3 make each deque a monitor-protected FIFO shared by all threads,
  S1/S2 are then linearisable enqueue/dequeue operations, which gives exactly-once delivery, per-publisher channel order and
  pattern safety for every interleaving.
Bounded stand-in (labelled bounded): systematic schedule enumeration at line granularity with a preemption bound on the real
threads (replay/c14_bounded.py) - this is where an interleaving counterexample comes from.
"""
from __future__ import annotations
import sys, os
import z3
from .common import *
from pyvc.core import Sq

PROP = "C14"
MEM = "semantiva/execution/transport/in_memory.py"
I_ = core.I
S_ = z3.StringSort()
QOf = z3.Function("DequeOf", S_, I_)        # the (deque, lock) pair of a channel: functions of the channel name (G2 makes this sound)
LOf = z3.Function("LockOf", S_, I_)
Match = z3.Function("Fnmatch", V, V, core.B)
NonEmpty = z3.Function("DequeNonEmpty", I_, I_, core.B)     # (deque, time stamp)
Head = z3.Function("DequeHead", I_, I_, I_)
ChanOfDeque = z3.Function("ChannelOfDeque", I_, S_)


class Spec(PureLibMixin, BaseSpec):
    def __init__(self):
        super().__init__(PROP)
        self.inline_files |= {MEM}
        self.obj_methods = {"append": self.q_append, "popleft": self.q_popleft, "items": self.t_items, "pop": self.t_mutate, "clear": self.t_mutate,
                            "popitem": self.t_mutate, "update": self.t_mutate, "setdefault": self.t_setdefault, "set_result": self.m_noop, "get": self.t_get}
        self.assumptions |= {
            "composition rule (not machine-checked): lock discipline G1-G3 + sequential contracts S1-S2 imply linearisability of publish / iteration steps, hence exactly-once FIFO delivery under every interleaving",
            "threading.Lock is a correct mutual-exclusion lock; deque.append / popleft / bool and dict reads are atomic under the GIL; list(dict.items()) is an atomic snapshot",
            "the defaultdict factory (Python lambda) is NOT atomic with respect to the insertion it causes (CPython releases the GIL between byte codes)",
        }

    def m_noop(self, I, recv, args, kwargs, star):
        return NONE

    # ---- locks -------------------------------------------------------------------------------------------------
    def with_enter(self, I, cm):
        st = I.st
        cm = I.lift(cm)
        held = st.ghost.get("held", [])
        self.oblige(I, "G3/no-lock-taken-while-another-is-held", z3.BoolVal(len(held) == 0), meta={"held": [str(h) for h in held]})
        st.ghost["held"] = held + [cm]
        st.ghost["acquired"] = st.ghost.get("acquired", 0) + 1
        return cm

    def with_exit(self, I, item):
        st = I.st
        held = st.ghost.get("held", [])
        st.ghost["held"] = held[:-1]
        st.ghost["released"] = st.ghost.get("released", 0) + 1

    def holds(self, I, lock):
        held = I.st.ghost.get("held", [])
        return z3.Or([h == lock for h in held]) if held else z3.BoolVal(False)

    # ---- the channel table ---------------------------------------------------------------------------------------
    def is_table(self, I, v):
        return v.eq(self.TABLE) or I.st.valid(v == self.TABLE)

    def obj_getitem(self, I, v, key):
        st = I.st
        if self.is_table(I, v):
            key = I.lift(key)
            known = z3.Select(z3.Select(st.h.sdom, V.id(self.CHANNELS)), key)
            # decided here, on the path condition (the table is an arbitrary input: membership of the key is known only if the
            # code established it, e.g. by an `in` test), so that the verdict never depends on a quantifier-laden query
            ok = st.valid(z3.Or(known, self.holds(I, self.TABLE_LOCK)))
            self.oblige(I, "G2/channel-entry-created-atomically(table-lock-held-or-entry-known-to-exist)", z3.BoolVal(bool(ok)),
                        meta={"witness": "lazy-creation", "held": [str(h_) for h_ in st.ghost.get("held", [])]})
            rid = V.id(self.CHANNELS)
            st.h.sdom = z3.Store(st.h.sdom, rid, z3.Store(z3.Select(st.h.sdom, rid), key, True))
            st.assume(ChanOfDeque(QOf(V.s(key))) == V.s(key))
            return vtup([V.obj(QOf(V.s(key))), V.obj(LOf(V.s(key)))])
        k_ = z3.simplify(I.lift(key))
        if z3.is_app(k_) and k_.decl().name() == "int" and z3.is_int_value(k_.arg(0)) and k_.arg(0).as_long() in (0, -1):
            # q[0] / q[-1] on a channel deque: a read of the deque (G1 applies); it returns the message at that end *now* and removes
            # nothing - a later popleft is a separate access that needs its own critical section and non-empty test
            self.q_guard(I, v, "peek")
            t = st.ghost.get("last_truth_test")
            self.oblige(I, "S2/peek-only-after-a-non-empty-test-in-the-same-critical-section",
                        z3.And(t[0] == v, z3.BoolVal(t[2] == st.ghost.get("acquired"))) if t is not None else z3.BoolVal(False))
            return V.obj(Head(V.oid(v), z3.IntVal(st.ghost.get("time", 0) + 1)))
        return super().obj_getitem(I, v, key)

    def obj_setitem(self, I, v, key, value):
        if self.is_table(I, v):
            # an explicit assignment creates the entry only if, in the SAME critical section of the table lock, the key was found
            # absent; anything else may overwrite an entry another thread created in between (and the messages queued on it)
            st = I.st
            key = I.lift(key)
            t = st.ghost.get("absent_test")
            ok = (t is not None and bool(st.valid(t[0] == key)) and t[1] == st.ghost.get("acquired") and bool(st.valid(self.holds(I, self.TABLE_LOCK))))
            self.oblige(I, "G2/channel-entries-are-never-replaced(assignment-only-after-an-absence-test-under-the-table-lock)", z3.BoolVal(ok),
                        meta={"witness": "entry-replaced"})
            rid = V.id(self.CHANNELS)
            st.h.sdom = z3.Store(st.h.sdom, rid, z3.Store(z3.Select(st.h.sdom, rid), key, True))
            # the pair just stored IS the channel's (deque, lock) from now on
            parts = I.models.iterate_concrete(I, I.lower(value)) if hasattr(I, "models") else None
            if parts is not None and len(parts) == 2:
                q_, l_ = I.lift(parts[0]), I.lift(parts[1])
                st.assume(z3.And(QOf(V.s(key)) == V.oid(q_), LOf(V.s(key)) == V.oid(l_), ChanOfDeque(V.oid(q_)) == V.s(key)))
            return
        return super().obj_setitem(I, v, key, value)

    def _absent(self, I, key):
        """membership of `key` in the channel table, decided on the path; an absence result is remembered with the critical section it
        was obtained in"""
        st = I.st
        known = z3.Select(z3.Select(st.h.sdom, V.id(self.CHANNELS)), key)
        if st.decide(known, "channel-exists"):
            return False
        st.ghost["absent_test"] = (key, st.ghost.get("acquired") if bool(st.valid(self.holds(I, self.TABLE_LOCK))) else None)
        return True

    def t_get(self, I, recv, args, kwargs, star):
        if self.is_table(I, recv):
            key = I.lift(args[0])
            if self._absent(I, key):
                return args[1] if len(args) > 1 else NONE
            st = I.st
            st.assume(ChanOfDeque(QOf(V.s(key))) == V.s(key))
            return vtup([V.obj(QOf(V.s(key))), V.obj(LOf(V.s(key)))])
        raise OutsideSubset("get() on an opaque object")

    def obj_contains(self, I, v, x):
        if self.is_table(I, v):
            return z3.BoolVal(not self._absent(I, I.lift(x)))
        return super().obj_contains(I, v, x)

    def t_mutate(self, I, recv, args, kwargs, star):
        if self.is_table(I, recv):
            self.oblige(I, "G2/channel-entries-are-never-removed", z3.BoolVal(False), meta={"witness": "entry-removed"})
            return NONE
        raise OutsideSubset("mutation of an opaque object")

    def t_setdefault(self, I, recv, args, kwargs, star):
        # dict.setdefault(key, prebuilt) IS atomic under the GIL: allowed without the table lock
        if self.is_table(I, recv):
            key = I.lift(args[0])
            return vtup([V.obj(QOf(V.s(key))), V.obj(LOf(V.s(key)))])
        raise OutsideSubset("setdefault on an opaque object")

    def t_items(self, I, recv, args, kwargs, star):
        if self.is_table(I, recv):
            return self.ITEMS
        raise OutsideSubset("items() of an opaque object")

    # ---- deques --------------------------------------------------------------------------------------------------
    def lock_of_deque(self, q):
        """the lock paired with a deque: DequeOf is injective (distinct channels have distinct deques), ChanOfDeque is its inverse"""
        c = ChanOfDeque(V.oid(q))
        return V.obj(LOf(c)), c

    def q_guard(self, I, q, what):
        lock, chan = self.lock_of_deque(q)
        self.oblige(I, f"G1/deque-{what}-only-under-its-channel's-lock", self.holds(I, lock), meta={"witness": "unguarded-deque-access"})
        return chan

    def tick(self, I):
        I.st.ghost["time"] = I.st.ghost.get("time", 0) + 1
        return z3.IntVal(I.st.ghost["time"])

    def q_append(self, I, recv, args, kwargs, star):
        st = I.st
        chan = self.q_guard(I, recv, "append")
        st.ghost["appends"] = st.ghost.get("appends", []) + [(recv, I.lift(args[0]))]
        return NONE

    def q_popleft(self, I, recv, args, kwargs, star):
        st = I.st
        chan = self.q_guard(I, recv, "popleft")
        t = st.ghost.get("last_truth_test")
        self.oblige(I, "S2/popleft-only-after-a-non-empty-test-in-the-same-critical-section",
                    z3.And(t[0] == recv, z3.BoolVal(t[2] == st.ghost.get("acquired"))) if t is not None else z3.BoolVal(False))
        m = V.obj(Head(V.oid(recv), self.tick(I)))
        st.ghost["popped"] = st.ghost.get("popped", []) + [(recv, m, chan)]
        return m

    def obj_truthy(self, I, v):
        st = I.st
        s = z3.simplify(v)
        if z3.is_app(s) and s.decl().name() == "obj" and z3.is_app(s.arg(0)) and s.arg(0).decl().name() in ("DequeHead", "MessageOf"):
            return z3.BoolVal(True)        # a Message is a non-empty NamedTuple
        if z3.is_app(s) and s.decl().name() == "obj" and z3.is_const(s.arg(0)):
            return z3.BoolVal(True)        # futures, callbacks, the transport itself
        # anything else tested for truth in this module is a channel deque
        self.q_guard(I, v, "truth-test")
        b = fresh("deque_non_empty", core.B)
        st.ghost["last_truth_test"] = (v, b, st.ghost.get("acquired"))
        return b

    # ---- everything else --------------------------------------------------------------------------------------------
    def ext_call(self, I, dotted, args, kwargs, star):
        if dotted == "fnmatch.fnmatch":
            return vbool(Match(I.lift(args[0]), I.lift(args[1])))
        if dotted.endswith("Future"):
            return V.obj(fresh("future", I_))
        if dotted == "threading.Thread":
            raise OutsideSubset("callback thread (outside this harness)")
        if dotted in ("collections.deque", "threading.Lock", "threading.RLock") and not args:
            return V.obj(fresh("new_" + dotted.split(".")[-1].lower(), I_))       # a fresh, empty deque / an unheld lock
        return super().ext_call(I, dotted, args, kwargs, star)

    def instantiate_override(self, I, ci, args, kwargs, star):
        if ci.name == "Message":
            return V.obj(z3.Function("MessageOf", V, V, V, I_)(I.lift(kwargs["data"]), I.lift(kwargs["context"]), I.lift(kwargs["metadata"])))
        return MISSING

    def generator_call(self, I, f, env):
        # the generator body is run to exhaustion (what `for m in sub` / list(sub) does); yields go to on_yield
        I.exec_block(f.node.body, env)
        return NONE

    def on_yield(self, I, v, env):
        st = I.st
        popped = st.ghost.get("popped", [])
        yielded = st.ghost.get("yielded", [])
        ok = len(popped) == len(yielded) + 1 and popped[-1][1].eq(v)
        self.oblige(I, "S2/yields-exactly-the-message-just-popped", z3.BoolVal(ok))
        if popped:
            chan = popped[-1][2]
            self.oblige(I, "S2/yielded-message-comes-from-a-channel-matching-the-pattern",
                        Match(vstr(chan), self.PATTERN))
        self.oblige(I, "S2/message-yielded-outside-any-critical-section", z3.BoolVal(not st.ghost.get("held")))
        st.ghost["yielded"] = yielded + [v]


def setup(I, spec):
    st = I.st
    spec.TABLE, spec.TABLE_LOCK = V.obj(z3.Int("channel_table")), V.obj(z3.Int("table_lock"))
    spec.CHANNELS = in_set(I, "KNOWN_CHANNELS")           # ghost: channels whose entry exists
    spec.ITEMS = in_list(I, "table_items")                  # snapshot list(self._queues.items())
    n = z3.Select(st.h.llen, V.id(spec.ITEMS))
    st.assume(n >= 0)
    hs = st.h.copy()
    ChanAt = z3.Function("ChannelAt", I_, S_)

    def facts(lid, idx):
        # stated for the snapshot list whatever list is being read at `idx` (list(items) copies the snapshot's array)
        e = z3.Select(z3.Select(hs.larr, V.id(spec.ITEMS)), idx)
        c = ChanAt(idx)
        return z3.Implies(z3.And(idx >= 0, idx < n), z3.And(e == vtup([vstr(c), vtup([V.obj(QOf(c)), V.obj(LOf(c))])]), ChanOfDeque(QOf(c)) == c))
    st.list_instantiators.append(facts)
    c_ = z3.Const("c!inj", S_)
    st.assume(z3.ForAll([c_], ChanOfDeque(QOf(c_)) == c_, patterns=[QOf(c_)]))       # distinct channels have distinct deques
    j = z3.Int("j!items")
    st.assume(z3.ForAll([j], facts(V.id(spec.ITEMS), j)))
    return hs


def h_publish(spec):
    fn_info(spec, MEM, "InMemorySemantivaTransport.publish")

    def body(I):
        st = I.st
        setup(I, spec)
        ci = cls_of(I, MEM, "InMemorySemantivaTransport")
        fields = {"_queues": spec.TABLE, "_connected": vbool(True)}
        me = in_inst(I, "transport", ci, dict(fields, _queues_lock=spec.TABLE_LOCK))
        chan = vstr(z3.String("channel"))
        data, ctx = fresh("data"), V.obj(z3.Int("ctx"))
        md = in_dict(I, "metadata") if st.choose(2, "metadata given?") == 0 else NONE
        _, f = E.method_of(I, MEM, "InMemorySemantivaTransport", "publish")
        out = E.execute(I, f, [me, chan], {"data": data, "context": ctx, "metadata": md, "require_ack": vbool(z3.Bool("require_ack"))})
        if out[0] != "return":
            spec.oblige(I, "S1/publish-never-raises", z3.BoolVal(False), meta={"exc": repr(out[1])})
            return
        app = st.ghost.get("appends", [])
        spec.oblige(I, "S1/exactly-one-append", z3.BoolVal(len(app) == 1))
        if len(app) == 1:
            q, m = app[0]
            spec.oblige(I, "S1/appended-to-the-deque-of-the-published-channel", q == V.obj(QOf(V.s(chan))))
            s = z3.simplify(m)
            ok = z3.is_app(s) and s.decl().name() == "obj" and z3.is_app(s.arg(0)) and s.arg(0).decl().name() == "MessageOf"
            spec.oblige(I, "S1/message-carries-the-published-data-and-context", z3.And(s.arg(0).arg(0) == data, s.arg(0).arg(1) == ctx) if ok else z3.BoolVal(False))
        spec.oblige(I, "S1/no-message-popped-by-publish", z3.BoolVal(not st.ghost.get("popped")))
        spec.oblige(I, "G3/every-lock-taken-is-released", z3.BoolVal(st.ghost.get("acquired", 0) == st.ghost.get("released", 0) and not st.ghost.get("held")))
    E.run_function(spec, "publish", body)


def h_iterate(spec):
    fn_info(spec, MEM, "InMemorySubscription.__iter__")

    def body(I):
        st = I.st
        setup(I, spec)
        ci = cls_of(I, MEM, "InMemorySubscription")
        spec.PATTERN = vstr(z3.String("pattern"))
        me = in_inst(I, "subscription", ci, {"_queues": spec.TABLE, "_pattern": spec.PATTERN, "_closed": vbool(z3.Bool("closed"))})
        import ast as _ast
        fnode, _ = source.find_def(MEM, "InMemorySubscription.__iter__")
        loops = sorted([n for n in _ast.walk(fnode) if isinstance(n, (_ast.For, _ast.While))], key=lambda n: (n.lineno, n.col_offset))
        spec.loops.clear()
        for k, n in enumerate(loops):
            if isinstance(n, _ast.While):
                # one scan of the table: from an arbitrary state of the deques (other threads run between scans)
                spec.loop(MEM, "InMemorySubscription.__iter__", k + 1, LoopSpec(lambda c: z3.BoolVal(True), modifies_heap=True,
                                                                                  frame_except=lambda c: [lambda r: r > c.entry["nalloc"]]))
            else:
                spec.loop(MEM, "InMemorySubscription.__iter__", k + 1, LoopSpec(lambda c: c.I.lift(c.var("found")) == vbool(False), modifies_heap=True,
                                                                                  frame_except=lambda c: [lambda r: r > c.entry["nalloc"]]))
        _, f = E.method_of(I, MEM, "InMemorySubscription", "__iter__")
        out = E.execute(I, f, [me])
        popped, yielded = st.ghost.get("popped", []), st.ghost.get("yielded", [])
        spec.oblige(I, "S2/iteration-never-raises", z3.BoolVal(out[0] == "return"), meta={"exc": repr(out[1]) if out[0] != "return" else ""})
        spec.oblige(I, "S2/every-popped-message-is-yielded(no-message-dropped)", z3.BoolVal(len(popped) == len(yielded)), meta={"popped": len(popped), "yielded": len(yielded)})
        spec.oblige(I, "S2/nothing-appended-by-a-subscription", z3.BoolVal(not st.ghost.get("appends")))
        spec.oblige(I, "G3/every-lock-taken-is-released", z3.BoolVal(st.ghost.get("acquired", 0) == st.ghost.get("released", 0) and not st.ghost.get("held")))
    E.run_function(spec, "__iter__", body)


TASKS = [h_publish, h_iterate]


def factory():
    return Spec()


_NATIVE = {}


def replay(ob):
    payload = {"obligation": ob.name, "solver": ob.backend, "model": report.model_summary(ob), "meta": getattr(ob, "meta", {}),
               "goal": ob.goal if isinstance(ob.goal, str) else str(ob.goal)[:400]}
    script = os.path.join(report.ROOT, "replay", "c14_bounded.py")
    if "res" not in _NATIVE:          # one native exploration per run, shared by every refuted obligation
        _NATIVE["res"], _ = report.native_json(script, {"tier": "quick", "seed": 0}, timeout=1500)
    res = _NATIVE["res"]
    fails = (res or {}).get("failures", [])
    payload["native"] = {"failures": fails[:3]}
    return bool(fails), payload


def main(tier="quick", seed=0):
    run = report.Run(PROP, tier, seed)
    spec = factory()
    faults = E.run_parallel(spec, factory, TASKS, timeout_ms=10000 if tier == "quick" else 30000)
    if faults:
        run.engine_fault = faults[0][-1500:]
    generic_refutations(run, spec, PROP, replay)
    run_bounded(run, PROP, "c14_bounded.py", tier, timeout=3000)
    return run.finish(spec, "proof", "lock discipline and sequential contracts of publish / subscription iteration; interleavings bounded; see DESIGN.md C14")


if __name__ == "__main__":
    t, s = tier_and_seed()
    sys.exit(main(t, s))
