"""C15 — every queued job's future completes once, with that job's own result.

What a contract can and cannot say here: the property quantifies over thread interleavings of master and workers; a deductive
verifier of sequential code has nothing to say about schedules.  What it decides are the sequential contracts each thread keeps,
for an arbitrary message and arbitrary loop iteration, from which the end-to-end statement follows GIVEN exactly-once FIFO delivery
by the transport (C14) - that composition is an argument in DESIGN.md, and the interleavings themselves are only explored by the
bounded tier (labelled bounded).

Deductive part (real code, re-read every run; transport / executor / pipeline / logger abstract):
  worker_loop  (outer while + message loop, invariants):
     W1  every consumed job message leads to exactly one publication, on that job's status channel, earlier publications kept;
     W2  a publication without an error mark is made only after pipeline.process returned, carries that result's data and its
         context annotated with the job id;  a job that fails (YAML load, invalid configuration, construction, process) is
         published WITH an error mark (so the master can complete the future exceptionally);
     W3  the pipeline runs on Payload(msg.data, msg.context) - data replaced by NoDataType only when it is None;
     W4  the loop never raises, the transport is closed on exit.
  QueueSemantivaOrchestrator.run_forever  (while loop, invariant: pending futures pairwise distinct and not completed):
     M1  a status message for a pending job completes exactly that job's future, once, and removes it from the pending table;
     M2  exceptionally iff the message carries an error mark, otherwise with (msg.data, msg.context);
     M3  a status for an unknown job completes nothing; at most one status is consumed per iteration.
  QueueSemantivaOrchestrator.enqueue: the future handed out is the one stored under the job id that is queued.
  in-memory transport: the obligations G1-G3 / S1-S2 of specs/C14.py are re-discharged here (the end-to-end statement is conditional on them).
Bounded stand-in (labelled bounded): real threads, batches x workers x switch intervals x failing position (replay/c15_bounded.py).
"""
from __future__ import annotations
import sys, os
import z3
from .common import *
from pyvc.interp import frame_eq
from pyvc.core import Sq

PROP = "C15"
WORKER = "semantiva/execution/job_queue/worker.py"
MASTER = "semantiva/execution/job_queue/queue_orchestrator.py"
I_ = core.I
S_ = z3.StringSort()

MsgMeta = z3.Function("MsgMeta", I_, I_)
MsgData = z3.Function("MsgData", I_, V)
MsgCtx = z3.Function("MsgCtx", I_, V)
OutData = z3.Function("OutData", I_, V)       # result of process(payload), by payload object
OutCtx = z3.Function("OutCtx", I_, I_)
PayloadOf = z3.Function("PayloadOf", V, V, I_)
PipelineOf = z3.Function("PipelineOf", V, I_)
NODATA = V.obj(z3.Int("NoDataType()"))

_REC = {}


def rec(kind, *fields):
    key = (kind, len(fields))
    if key not in _REC:
        _REC[key] = z3.Function(f"Rec_{kind}", *([V] * len(fields)), I_)
    return V.obj(_REC[key](*fields))


class Common(PureLibMixin, BaseSpec):
    def m_noop(self, I, recv, args, kwargs, star):
        return NONE

    def exc_under(self, I, bound, origin):
        c = fresh("exc_cls", I_)
        I.st.mention(bound, target=True)
        I.st.symcls.append(c)
        I.st.assume(issub(c, bound.cid))
        return O.HExc(c, origin=(origin,))

    def append(self, I, lst, r):
        st = I.st
        st.set_list(lst, st.list_sq(lst).append(r))

    def ext_call(self, I, dotted, args, kwargs, star):
        if dotted == "time.sleep":
            return NONE
        return super().ext_call(I, dotted, args, kwargs, star)


# ==========================================================================================================
# worker
# ==========================================================================================================
class WorkerSpec(Common):
    def __init__(self):
        super().__init__(PROP)
        self.inline |= {(WORKER, "worker_loop"), (WORKER, "_publish_failure")}
        self.obj_methods = {
            "connect": self.m_noop, "close": self.m_close, "subscribe": self.m_subscribe, "publish": self.m_publish,
            "is_set": self.m_is_set, "ack": self.m_ack, "submit": self.m_submit, "result": self.m_result, "set_value": self.m_set_value,
            "info": self.m_noop, "debug": self.m_noop, "warning": self.m_noop, "error": self.m_noop, "exception": self.m_noop,
        }
        self.assumptions |= {
            "transport, executor, logger, pipeline are abstract: transport.publish/subscribe/connect/close and logging do not raise; msg.ack may raise; executor.submit(f, p).result() returns f(p) or raises what f(p) raises; Pipeline(cfg) may raise",
            "job messages carry no registry_profile (that branch is outside this harness)",
            "end-to-end exactly-once completion additionally needs exactly-once FIFO delivery by the transport (C14) and is explored only by the bounded tier",
        }

    # ---- transport / subscription / messages -----------------------------------------------------------------
    def m_close(self, I, recv, args, kwargs, star):
        if recv.eq(self.TRANSPORT):
            I.st.ghost["transport_closed"] = True
        return NONE

    def m_subscribe(self, I, recv, args, kwargs, star):
        self.oblige(I, "worker/subscribes-to-job-configurations", I.lift(args[0]) == vstr("jobs.*.cfg"))
        return self.SUB

    def iterate_obj(self, I, v):
        if v.eq(self.SUB):
            return I.st.list_sq(self.MSGS)
        return super().iterate_obj(I, v)

    def m_is_set(self, I, recv, args, kwargs, star):
        return vbool(fresh("stop_is_set", core.B))

    def m_ack(self, I, recv, args, kwargs, star):
        if I.st.choose(2, "ack ok?") == 0:
            return NONE
        raise PyRaise(self.exc_under(I, bcls(Exception), "ack"))

    def job_id(self, I, msg):
        """the job id the code derives: metadata.get('job_id') or '<unknown>'"""
        st = I.st
        md = V.ref(MsgMeta(V.oid(msg)))
        h = self.H0
        has = z3.Select(ddom(h, md), vstr("job_id"))
        v = z3.Select(dval(h, md), vstr("job_id"))
        return z3.If(z3.And(has, V.is_str(v), z3.Length(V.s(v)) > 0), v, vstr("<unknown>"))

    def obj_attr(self, I, v, name):
        st = I.st
        o = V.oid(v)
        if name == "metadata":
            md = V.ref(MsgMeta(o))
            st.assume(z3.And(MsgMeta(o) <= 0, z3.Select(self.H0.kind, MsgMeta(o)) == K_DICT))
            st.assume(z3.And(z3.Select(self.H0.dlen, MsgMeta(o)) >= 0,
                             (z3.Select(self.H0.dlen, MsgMeta(o)) == 0) == (z3.Select(self.H0.ddom, MsgMeta(o)) == z3.K(V, z3.BoolVal(False)))))
            for inp in st.ghost.get("__inputs__", []):
                st.assume(MsgMeta(o) != inp)
            h = self.H0
            jid = z3.Select(dval(h, md), vstr("job_id"))
            st.assume(z3.Implies(z3.Select(ddom(h, md), vstr("job_id")), V.is_str(jid)))       # producer: enqueue() writes a str(uuid4())
            st.assume(z3.Not(z3.Select(ddom(h, md), vstr("registry_profile"))))
            return md
        if name == "data":
            if getattr(self, "RESULTS", None) is not None and str(o) in self.RESULTS:
                return OutData(self.RESULTS[str(o)])
            d = MsgData(o)
            st.assume(z3.Or(d == NONE, V.is_obj(d)))
            return d
        if name == "context":
            if getattr(self, "RESULTS", None) is not None and str(o) in self.RESULTS:
                return V.obj(OutCtx(self.RESULTS[str(o)]))
            c = MsgCtx(o)
            st.assume(z3.Or(c == NONE, V.is_obj(c)))
            return c
        if name == "process":
            return O.HMeth(v, "process")
        return super().obj_attr(I, v, name)

    def obj_truthy(self, I, v):
        # bool() of a job's data / context object: an uninterpreted observer (an empty collection or an empty context is falsy);
        # loggers, events, futures define neither __bool__ nor __len__
        if z3.is_app(v) and v.decl().name() in ("MsgData", "MsgCtx"):
            return z3.Function("ObjTruthy", I_, core.B)(V.oid(v))
        return z3.BoolVal(True)

    # ---- pipeline / executor ----------------------------------------------------------------------------------
    def call_override(self, I, f, args, kwargs, star):
        st = I.st
        fn = f.func if isinstance(f, O.HBound) else f
        if not isinstance(fn, O.HFunc):
            return MISSING
        name = fn.node.name
        if name == "_setup_log":
            return V.obj(z3.Int("logger"))
        if name == "load_pipeline_from_yaml":
            if st.choose(2, "yaml loads?") == 0:
                return self.cfg_list(I, "yaml")
            st.ghost["failed"] = "yaml-load"
            raise PyRaise(self.exc_under(I, bcls(Exception), "load_pipeline_from_yaml"))
        if name in ("apply_profile",):
            return NONE
        return MISSING

    def cfg_list(self, I, tag):
        """a pipeline configuration: a list of 0..2 steps, each a mapping or not"""
        st = I.st
        n = st.choose(3, f"{tag}: number of steps")
        items = []
        for i in range(n):
            if st.choose(2, f"{tag}: step {i} is a mapping?") == 0:
                items.append(st.new_dict())
            else:
                items.append(vint(fresh("not_a_step", I_)))
        return st.new_list(Sq.of(items))

    def instantiate_override(self, I, ci, args, kwargs, star):
        st = I.st
        if ci.name == "NoDataType":
            return NODATA
        if ci.name == "ContextType":
            c = V.obj(fresh("ctx", I_))
            if args:
                d = I.lift(args[0])
                self.CTX_INIT[str(V.oid(c))] = z3.Select(dval(st.h, d), vstr("job_id"))
            return c
        if ci.name == "Payload":
            return V.obj(PayloadOf(I.lift(args[0]), I.lift(args[1])))
        if ci.name == "Pipeline":
            if st.choose(2, "pipeline constructible?") == 0:
                return V.obj(PipelineOf(I.lift(args[0])))
            st.ghost["failed"] = "construction"
            raise PyRaise(self.exc_under(I, bcls(Exception), "Pipeline()"))
        return MISSING

    def m_submit(self, I, recv, args, kwargs, star):
        st = I.st
        fn, payload = args[0], I.lift(args[1])
        msg = st.ghost["cur_msg"]
        d_in, c_in = MsgData(V.oid(msg)), MsgCtx(V.oid(msg))
        want_d = z3.If(d_in == NONE, NODATA, d_in)
        self.oblige(I, "W3/pipeline-runs-on-the-job's-own-data(NoDataType-only-for-None)",
                    z3.Exists([z3.Const("c!w3", V)], payload == V.obj(PayloadOf(want_d, z3.Const("c!w3", V)))) if False else
                    _payload_data(payload) == want_d, meta={"witness": "falsy-data"})
        self.oblige(I, "W3/pipeline-runs-on-the-job's-own-context-when-one-is-given",
                    z3.Implies(z3.And(c_in != NONE, self.obj_truthy(I, c_in)), _payload_ctx(payload) == c_in))
        fut = V.obj(fresh("exec_future", I_))
        self.FUT[str(V.oid(fut))] = payload
        return fut

    def m_result(self, I, recv, args, kwargs, star):
        st = I.st
        payload = self.FUT[str(V.oid(recv))]
        if st.choose(2, "process returns?") == 0:
            r = V.obj(fresh("result_payload", I_))
            self.RESULTS[str(V.oid(r))] = V.oid(payload)
            st.ghost["result"] = r
            return r
        st.ghost["failed"] = "process"
        raise PyRaise(self.exc_under(I, bcls(Exception), "pipeline.process"))

    def m_set_value(self, I, recv, args, kwargs, star):
        self.ANNOT[str(V.oid(recv))] = (I.lift(args[0]), I.lift(args[1]))
        return NONE

    def m_publish(self, I, recv, args, kwargs, star):
        st = I.st
        chan = I.lift(args[0])
        data, ctx = I.lift(kwargs["data"]), I.lift(kwargs["context"])
        md = kwargs.get("metadata")
        err = z3.BoolVal(False)
        if md is not None and is_v(I.lift(md)) and I.tag(I.lift(md)) == "ref":
            m = I.lift(md)
            e = z3.Select(dval(st.h, m), vstr("error"))
            err = z3.And(z3.Select(ddom(st.h, m), vstr("error")), I.truthy(e))
        msg = st.ghost.get("cur_msg")
        if msg is not None:
            jid = self.job_id(I, msg)
            self.oblige(I, "W1/published-on-the-job's-status-channel", chan == vstr(z3.Concat(z3.StringVal("jobs."), V.s(jid), z3.StringVal(".status"))))
            res = st.ghost.get("result")
            is_err = z3.is_true(z3.simplify(err))
            if not is_err:
                self.oblige(I, "W2/unmarked-status-only-after-process-returned", z3.And(z3.Not(err), z3.BoolVal(res is not None)), meta={"witness": "failing-job"})
                if res is not None:
                    rp = self.RESULTS[str(V.oid(res))]
                    ann = self.ANNOT.get(str(V.oid(ctx)))
                    self.oblige(I, "W2/status-carries-this-job's-result-data", data == OutData(rp))
                    self.oblige(I, "W2/status-context-is-this-job's-result-context-annotated-with-the-job-id",
                                z3.And(ctx == V.obj(OutCtx(rp)), z3.BoolVal(ann is not None), (ann[0] == vstr("job_id")) if ann else z3.BoolVal(False),
                                       (ann[1] == jid) if ann else z3.BoolVal(False)))
            else:
                self.oblige(I, "W2/error-status-only-for-a-job-that-failed", z3.BoolVal(st.ghost.get("failed") is not None or res is None))
                jc = self.CTX_INIT.get(str(V.oid(ctx))) if I.tag(ctx) == "obj" else None
                self.oblige(I, "W2/error-status-names-the-job(context.job_id)", (jc == jid) if jc is not None else z3.BoolVal(False))
        self.append(I, self.PUBLISHED, rec("status", chan, data, ctx, vbool(err)))
        return NONE


def _payload_data(p):
    # PayloadOf is injective by construction of the harness (a constructor): read back its first argument
    s = z3.simplify(p)
    if z3.is_app(s) and s.decl().name() == "obj" and z3.is_app(s.arg(0)) and s.arg(0).decl().name() == "PayloadOf":
        return s.arg(0).arg(0)
    return fresh("unknown_payload_data")


def _payload_ctx(p):
    s = z3.simplify(p)
    if z3.is_app(s) and s.decl().name() == "obj" and z3.is_app(s.arg(0)) and s.arg(0).decl().name() == "PayloadOf":
        return s.arg(0).arg(1)
    return fresh("unknown_payload_ctx")


def h_worker(spec):
    s2 = WorkerSpec()
    s2.obligations, s2._seen, s2.undecided, s2.functions, s2.used_contracts = spec.obligations, spec._seen, spec.undecided, spec.functions, spec.used_contracts
    fn_info(s2, WORKER, "worker_loop")

    def body(I):
        st = I.st
        s2.TRANSPORT, s2.SUB = V.obj(z3.Int("transport")), V.obj(z3.Int("subscription"))
        s2.MSGS, s2.PUBLISHED = in_list(I, "messages"), in_list(I, "PUBLISHED")
        s2.FUT, s2.RESULTS, s2.ANNOT, s2.CTX_INIT = {}, {}, {}, {}
        for l in (s2.MSGS, s2.PUBLISHED):
            st.assume(z3.Select(st.h.llen, V.id(l)) >= 0)
        s2.H0 = st.h.copy()
        hs = s2.H0
        nmsg = z3.Select(hs.llen, V.id(s2.MSGS))
        st.list_instantiators.append(lambda lid, idx: z3.Implies(z3.And(lid == V.id(s2.MSGS), idx >= 0, idx < nmsg),
                                                                 V.is_obj(z3.Select(z3.Select(hs.larr, lid), idx))))
        j_ = z3.Int("j!msgs")
        st.assume(z3.ForAll([j_], z3.Implies(z3.And(j_ >= 0, j_ < nmsg), V.is_obj(z3.Select(z3.Select(hs.larr, V.id(s2.MSGS)), j_)))))
        P0 = Sq(z3.Select(hs.larr, V.id(s2.PUBLISHED)), z3.Select(hs.llen, V.id(s2.PUBLISHED)))

        def outer_inv(c):
            P = c.st.list_sq(s2.PUBLISHED)
            return P.n >= P0.n

        def inner_inv(c):
            P = c.st.list_sq(s2.PUBLISHED)
            Pe = Sq(z3.Select(c.h0.larr, V.id(s2.PUBLISHED)), z3.Select(c.h0.llen, V.id(s2.PUBLISHED)))
            j = z3.Int("j!wi")
            return z3.And(z3.Implies(c.i < c.seq.n, V.is_obj(c.seq.at(c.i))),
                          P.n == Pe.n + c.i,                                                        # W1: one publication per consumed message
                          z3.ForAll([j], z3.Implies(z3.And(j >= 0, j < Pe.n), P.at(j) == Pe.at(j))))    # earlier publications kept

        def inner_frame(c):
            return [lambda r: z3.Or(r > c.entry["nalloc"], r == V.id(s2.PUBLISHED))]

        def outer_frame(c):
            return [lambda r: z3.Or(r > c.entry["nalloc"], r == V.id(s2.PUBLISHED))]

        import ast as _ast
        fnode, _ = source.find_def(WORKER, "worker_loop")
        loops = sorted([n for n in _ast.walk(fnode) if isinstance(n, (_ast.For, _ast.While))], key=lambda n: (n.lineno, n.col_offset))
        s2.loops.clear()
        for k, n in enumerate(loops):
            if isinstance(n, _ast.While):
                s2.loop(WORKER, "worker_loop", k + 1, LoopSpec(outer_inv, modifies_heap=True, frame_except=outer_frame))
            elif isinstance(n.iter, _ast.Name) and n.iter.id == "sub":
                def hook_target(c, _n=n):
                    return None
                s2.loop(WORKER, "worker_loop", k + 1, LoopSpec(inner_inv, modifies_heap=True, frame_except=inner_frame))
        # the message being processed: the loop variable `msg` (read back from the environment when a hook needs it)
        orig_getattr = s2.obj_attr

        def obj_attr(I_, v, name):
            if name in ("metadata", "data", "context", "ack") and str(V.oid(v)) not in s2.RESULTS and not v.eq(s2.TRANSPORT):
                if name != "ack" or True:
                    I_.st.ghost.setdefault("cur_msg", v)
            return orig_getattr(I_, v, name)
        s2.obj_attr = obj_attr
        out = E.execute(I, E.hfunc(WORKER, "worker_loop"), [vint(z3.Int("worker_id")), s2.TRANSPORT, V.obj(z3.Int("executor")), V.obj(z3.Int("stop_event"))],
                        {"logger": V.obj(z3.Int("logger")), "poll_interval": V.real(z3.RealVal("0.1"))})
        s2.oblige(I, "W4/worker_loop-never-raises", z3.BoolVal(out[0] == "return"), meta={"exc": repr(out[1]) if out[0] != "return" else ""})
        s2.oblige(I, "W4/transport-closed-on-exit", z3.BoolVal(bool(st.ghost.get("transport_closed"))))
    E.run_function(s2, "worker_loop", body, max_paths=4000)
    spec.path_count += s2.path_count
    spec.assumptions |= s2.assumptions


h_worker.shards = 16


# ==========================================================================================================
# master
# ==========================================================================================================
class MasterSpec(Common):
    def __init__(self):
        super().__init__(PROP)
        self.inline |= {(MASTER, "QueueSemantivaOrchestrator.run_forever"), (MASTER, "QueueSemantivaOrchestrator.enqueue")}
        self.obj_methods = {
            "connect": self.m_noop, "close": self.m_noop, "subscribe": self.m_subscribe, "publish": self.m_noop, "is_set": self.m_is_set,
            "ack": self.m_ack, "get": self.m_queue_get, "put": self.m_queue_put, "get_value": self.m_get_value, "set_result": self.m_set_result,
            "set_exception": self.m_set_exception, "as_dict": self.m_as_dict,
            "info": self.m_noop, "debug": self.m_noop, "warning": self.m_noop, "error": self.m_noop, "exception": self.m_noop,
        }
        self.assumptions |= {"queue.Queue.get returns an enqueued tuple or raises queue.Empty; Future.set_result/set_exception raise InvalidStateError on a completed future (obligation: never called on one)"}

    def m_subscribe(self, I, recv, args, kwargs, star):
        self.oblige(I, "master/subscribes-to-job-statuses", I.lift(args[0]) == vstr("jobs.*.status"))
        return self.SUB

    def iterate_obj(self, I, v):
        if v.eq(self.SUB):
            return I.st.list_sq(self.MSGS)
        return super().iterate_obj(I, v)

    def m_is_set(self, I, recv, args, kwargs, star):
        return vbool(fresh("stop_is_set", core.B))

    def m_ack(self, I, recv, args, kwargs, star):
        if I.st.choose(2, "ack ok?") == 0:
            return NONE
        raise PyRaise(self.exc_under(I, bcls(Exception), "ack"))

    def m_queue_get(self, I, recv, args, kwargs, star):
        st = I.st
        if recv.eq(self.QUEUE) or st.valid(recv == self.QUEUE):
            if st.choose(2, "job queued?") == 0:
                return vtup([vstr(fresh("job_id", S_)), fresh("pipeline_cfg"), fresh("data"), V.obj(fresh("context", I_)), fresh("profile")])
            mod = source.load_module(MASTER)
            raise PyRaise(O.HExc(self.EMPTY_CID, origin=("queue.get",)))
        raise OutsideSubset(".get on an opaque object other than the job queue")

    def obj_truthy(self, I, v):
        return z3.BoolVal(True)       # Future, Event, logger objects define neither __bool__ nor __len__

    def m_queue_put(self, I, recv, args, kwargs, star):
        I.st.ghost["queued"] = I.lift(args[0])
        I.st.ghost["heap_when_queued"] = I.st.h.copy()
        return NONE

    def m_as_dict(self, I, recv, args, kwargs, star):
        return I.st.new_dict()

    def m_get_value(self, I, recv, args, kwargs, star):
        return z3.Function("CtxJobId", I_, V)(V.oid(recv))

    def complete(self, I, fut, kind, value):
        st = I.st
        done = z3.Select(z3.Select(st.h.sdom, V.id(self.COMPLETED)), fut)
        self.oblige(I, "M1/a-future-is-never-completed-twice", z3.Not(done))
        cur = st.ghost.get("completions", [])
        st.ghost["completions"] = cur + [(fut, kind, value)]
        rid = V.id(self.COMPLETED)
        st.h.sdom = z3.Store(st.h.sdom, rid, z3.Store(z3.Select(st.h.sdom, rid), fut, True))
        st.h.slen = z3.Store(st.h.slen, rid, z3.Select(st.h.slen, rid) + 1)
        return NONE

    def m_set_result(self, I, recv, args, kwargs, star):
        return self.complete(I, recv, "result", I.lift(args[0]))

    def m_set_exception(self, I, recv, args, kwargs, star):
        return self.complete(I, recv, "exception", None)

    def obj_attr(self, I, v, name):
        st = I.st
        o = V.oid(v)
        if name == "metadata":
            md = V.ref(MsgMeta(o))
            st.assume(z3.And(MsgMeta(o) <= 0, z3.Select(self.H0.kind, MsgMeta(o)) == K_DICT))
            st.assume(z3.And(z3.Select(self.H0.dlen, MsgMeta(o)) >= 0,
                             (z3.Select(self.H0.dlen, MsgMeta(o)) == 0) == (z3.Select(self.H0.ddom, MsgMeta(o)) == z3.K(V, z3.BoolVal(False)))))
            ev = z3.Select(z3.Select(self.H0.dval, MsgMeta(o)), vstr("error"))
            st.assume(z3.Or(ev == NONE, V.is_str(ev)))          # producer (worker._publish_failure): the error mark is a string
            for inp in st.ghost.get("__inputs__", []):
                st.assume(MsgMeta(o) != inp)
            return md
        if name == "data":
            return MsgData(o)
        if name == "context":
            c = MsgCtx(o)
            st.assume(V.is_obj(c))
            return c
        return super().obj_attr(I, v, name)

    def ext_call(self, I, dotted, args, kwargs, star):
        if dotted == "uuid.uuid4":
            I.st.reads.add(("ambient", "uuid4"))
            return V.obj(fresh("uuid4", I_))
        if dotted == "concurrent.futures.Future" or dotted.endswith(".Future"):
            return V.obj(fresh("future", I_))
        return super().ext_call(I, dotted, args, kwargs, star)

    def instantiate_override(self, I, ci, args, kwargs, star):
        if ci.name in ("ContextType",):
            return V.obj(fresh("ctx", I_))
        if ci.name == "RuntimeError":
            return MISSING
        return MISSING

    def call_override(self, I, f, args, kwargs, star):
        fn = f.func if isinstance(f, O.HBound) else f
        if isinstance(fn, O.HFunc) and fn.node.name == "current_profile":
            return V.obj(fresh("profile", I_))
        return MISSING


def master_setup(I, s2):
    st = I.st
    ci = cls_of(I, MASTER, "QueueSemantivaOrchestrator")
    s2.SUB, s2.QUEUE = V.obj(z3.Int("subscription")), V.obj(z3.Int("job_queue"))
    s2.MSGS = in_list(I, "status_messages")
    s2.PENDING = in_dict(I, "pending_futures")
    s2.COMPLETED = in_set(I, "COMPLETED")
    me = in_inst(I, "orch", ci, {"transport": V.obj(z3.Int("transport")), "job_queue": s2.QUEUE, "pending_futures": s2.PENDING,
                                 "logger": V.obj(z3.Int("logger")), "running": vbool(True), "stop_event": z3.If(z3.Bool("has_stop_event"), V.obj(z3.Int("stop_event")), NONE)})
    st.assume(z3.Select(st.h.llen, V.id(s2.MSGS)) >= 0)
    s2.H0 = st.h.copy()
    hs = s2.H0
    nmsg = z3.Select(hs.llen, V.id(s2.MSGS))
    st.list_instantiators.append(lambda lid, idx: z3.Implies(z3.And(lid == V.id(s2.MSGS), idx >= 0, idx < nmsg),
                                                             V.is_obj(z3.Select(z3.Select(hs.larr, lid), idx))))
    j_ = z3.Int("j!msgs")
    st.assume(z3.ForAll([j_], z3.Implies(z3.And(j_ >= 0, j_ < nmsg), V.is_obj(z3.Select(z3.Select(hs.larr, V.id(s2.MSGS)), j_)))))
    # typed field (Dict[str, Future]): whatever is stored in pending_futures is a Future object, at any time
    st.dict_instantiators.append(lambda did, key: z3.Implies(z3.And(did == V.id(s2.PENDING), z3.Select(z3.Select(st.h.ddom, did), key)),
                                                             V.is_obj(z3.Select(z3.Select(st.h.dval, did), key))))
    s2.assumptions.add("typed field: the values of pending_futures are Future objects (Dict[str, Future])")
    return me


def pending_inv(s2, h):
    """pending futures are opaque objects, pairwise distinct, none of them completed"""
    k1, k2 = z3.Const("k!p1", V), z3.Const("k!p2", V)
    dom, val = ddom(h, s2.PENDING), dval(h, s2.PENDING)
    done = z3.Select(h.sdom, V.id(s2.COMPLETED))
    return z3.And(z3.ForAll([k1], z3.Implies(z3.Select(dom, k1), z3.And(V.is_obj(z3.Select(val, k1)), z3.Not(z3.Select(done, z3.Select(val, k1)))))),
                  z3.ForAll([k1, k2], z3.Implies(z3.And(z3.Select(dom, k1), z3.Select(dom, k2), k1 != k2), z3.Select(val, k1) != z3.Select(val, k2))))


def h_master(spec):
    s2 = MasterSpec()
    s2.obligations, s2._seen, s2.undecided, s2.functions, s2.used_contracts = spec.obligations, spec._seen, spec.undecided, spec.functions, spec.used_contracts
    fn_info(s2, MASTER, "QueueSemantivaOrchestrator.run_forever")

    def body(I):
        st = I.st
        me = master_setup(I, s2)
        import queue as _queue
        empty = O.builtin_class(_queue.Empty)
        st.mention(empty, target=True)
        s2.EMPTY_CID = z3.IntVal(empty.cid)
        st.assume(pending_inv(s2, st.h))
        s2.loops.clear()
        s2.loop(MASTER, "QueueSemantivaOrchestrator.run_forever", 1, LoopSpec(
            lambda c: pending_inv(s2, c.st.h), modifies_heap=True,
            frame_except=lambda c: [(me, ["running"]), lambda r: z3.Or(r > c.entry["nalloc"], r == V.id(s2.PENDING), r == V.id(s2.COMPLETED))]))
        # the status loop handles one message and breaks: its first iteration is the only one (no invariant needed beyond "true")
        s2.loop(MASTER, "QueueSemantivaOrchestrator.run_forever", 2, LoopSpec(lambda c: z3.And(c.i == 0, z3.Implies(c.i < c.seq.n, V.is_obj(c.seq.at(c.i)))), modifies_heap=True,
                                                                                          frame_except=lambda c: [lambda r: r > c.entry["nalloc"]]))
        orig_for = I._for_inductive

        def for_ind(s, env, seq, lspec, it=None):
            # entry state of the status loop, for the per-message postconditions
            s2.AT_MSG = {"h": st.h.copy(), "n_compl": len(st.ghost.get("completions", []))}
            try:
                return orig_for(s, env, seq, lspec, it)
            finally:
                pass
        I._for_inductive = for_ind
        ci, f = E.method_of(I, MASTER, "QueueSemantivaOrchestrator", "run_forever")
        # postconditions of one status message are stated when the loop body leaves through `break`
        orig_break = getattr(I, "x_Break")

        def x_break(s, env):
            msg, ok = env.lookup("msg")
            if ok and is_v(msg) and getattr(s2, "AT_MSG", None) is not None:
                hm = s2.AT_MSG["h"]
                jid = z3.Function("CtxJobId", I_, V)(V.oid(MsgCtx(V.oid(msg))))
                was_pending = z3.Select(ddom(hm, s2.PENDING), jid)
                fut = z3.Select(dval(hm, s2.PENDING), jid)
                comps = st.ghost.get("completions", [])[s2.AT_MSG["n_compl"]:]
                md = V.ref(MsgMeta(V.oid(msg)))
                e = z3.Select(dval(s2.H0, md), vstr("error"))
                marked = z3.And(z3.Select(ddom(s2.H0, md), vstr("error")), I.truthy(e))
                s2.oblige(I, "M1/status-of-a-pending-job-completes-exactly-that-future-once",
                          z3.Implies(was_pending, z3.And(z3.BoolVal(len(comps) == 1), comps[0][0] == fut if comps else z3.BoolVal(False))), meta={"completions": len(comps)})
                s2.oblige(I, "M3/status-of-an-unknown-job-completes-nothing", z3.Implies(z3.Not(was_pending), z3.BoolVal(len(comps) == 0)))
                s2.oblige(I, "M1/completed-job-leaves-the-pending-table", z3.Not(z3.Select(ddom(st.h, s2.PENDING), jid)))
                kk = fresh("other_job")
                s2.oblige(I, "M1/other-pending-jobs-untouched", z3.Implies(kk != jid, z3.And(z3.Select(ddom(st.h, s2.PENDING), kk) == z3.Select(ddom(hm, s2.PENDING), kk),
                                                                                              z3.Select(dval(st.h, s2.PENDING), kk) == z3.Select(dval(hm, s2.PENDING), kk))), hints=[kk])
                if comps:
                    kind, value = comps[0][1], comps[0][2]
                    s2.oblige(I, "M2/exceptional-completion-iff-the-status-carries-an-error-mark", z3.BoolVal(kind == "exception") == marked, meta={"witness": "failing-job", "kind": kind})
                    if kind == "result":
                        s2.oblige(I, "M2/result-is-(msg.data,msg.context)", value == vtup([MsgData(V.oid(msg)), MsgCtx(V.oid(msg))]))
            return orig_break(s, env)
        I.x_Break = x_break
        out = E.execute(I, f, [me])
        s2.oblige(I, "run_forever/never-raises", z3.BoolVal(out[0] == "return"), meta={"exc": repr(out[1]) if out[0] != "return" else ""})
    E.run_function(s2, "run_forever", body, max_paths=3000)
    spec.path_count += s2.path_count
    spec.assumptions |= s2.assumptions


def h_enqueue(spec):
    s2 = MasterSpec()
    s2.obligations, s2._seen, s2.undecided, s2.functions, s2.used_contracts = spec.obligations, spec._seen, spec.undecided, spec.functions, spec.used_contracts
    fn_info(s2, MASTER, "QueueSemantivaOrchestrator.enqueue")

    def body(I):
        st = I.st
        me = master_setup(I, s2)
        s2.EMPTY_CID = z3.IntVal(bcls(Exception).cid)
        h0 = st.h.copy()
        ci, f = E.method_of(I, MASTER, "QueueSemantivaOrchestrator", "enqueue")
        want = st.choose(2, "return_future?") == 1
        cfg, data = fresh("pipeline_cfg"), fresh("data")
        ctx = V.obj(z3.Int("ctx_arg"))
        out = E.execute(I, f, [me, cfg], {"data": data, "context": ctx, "return_future": vbool(want), "registry_profile": V.obj(z3.Int("profile"))})
        if out[0] != "return":
            s2.oblige(I, "enqueue/never-raises", z3.BoolVal(False), meta={"exc": repr(out[1])})
            return
        q = st.ghost.get("queued")
        s2.oblige(I, "enqueue/one-job-tuple-queued", z3.BoolVal(q is not None))
        if q is None:
            return
        items = Sq.from_tuple(q)
        jid = items.at(0)
        s2.oblige(I, "enqueue/queued-tuple=(job_id,cfg,data,context,profile)", z3.And(items.n == 5, items.at(1) == cfg, items.at(2) == data))
        if want:
            s2.oblige(I, "enqueue/returned-future-is-stored-under-the-queued-job-id",
                      z3.And(z3.Select(ddom(st.h, s2.PENDING), jid), z3.Select(dval(st.h, s2.PENDING), jid) == I.lift(out[1]), V.is_obj(I.lift(out[1]))))
            # ordering: once the tuple is on the queue the master may publish the job and receive its status at any moment, so the
            # future must already be registered when put() is called (a status for an unregistered job id is dropped)
            hq = st.ghost["heap_when_queued"]
            s2.oblige(I, "enqueue/the-future-is-registered-before-the-job-becomes-visible-on-the-queue",
                      z3.And(z3.Select(ddom(hq, s2.PENDING), jid), z3.Select(dval(hq, s2.PENDING), jid) == I.lift(out[1])),
                      meta={"witness": "status-before-registration"})
            kk = fresh("other_job")
            s2.oblige(I, "enqueue/other-pending-futures-untouched", z3.Implies(kk != jid, z3.And(z3.Select(ddom(st.h, s2.PENDING), kk) == z3.Select(ddom(h0, s2.PENDING), kk),
                                                                                                 z3.Select(dval(st.h, s2.PENDING), kk) == z3.Select(dval(h0, s2.PENDING), kk))), hints=[kk])
        else:
            s2.oblige(I, "enqueue/no-future-requested:none-returned-none-stored", z3.And(I.lift(out[1]) == NONE, frame_eq(h0, st.h, 0)))
    E.run_function(s2, "enqueue", body)
    spec.path_count += s2.path_count
    spec.assumptions |= s2.assumptions


def h_transport(spec):
    """the delivery contract the composition relies on: the lock-discipline and sequential obligations of the in-memory transport
    (harnesses of specs/C14.py, re-discharged here because C15's end-to-end statement is conditional on them)"""
    from . import C14
    s2 = C14.Spec()
    s2.obligations, s2._seen, s2.undecided, s2.functions, s2.used_contracts = spec.obligations, spec._seen, spec.undecided, spec.functions, spec.used_contracts
    C14.h_publish(s2)
    C14.h_iterate(s2)
    spec.path_count += s2.path_count
    spec.assumptions |= s2.assumptions


TASKS = [h_master, h_enqueue, h_transport, h_worker]


def factory():
    return BaseSpec(PROP)


def replay(ob):
    payload = {"obligation": ob.name, "solver": ob.backend, "model": report.model_summary(ob), "meta": getattr(ob, "meta", {}),
               "goal": ob.goal if isinstance(ob.goal, str) else str(ob.goal)[:400]}
    transport_ob = ob.name.startswith(("publish/", "__iter__/"))
    script = os.path.join(report.ROOT, "replay", "c14_bounded.py" if transport_ob else "c15_bounded.py")
    res, proc = report.native_json(script, {"tier": "quick", "seed": 0}, timeout=900)
    fails = (res or {}).get("failures", [])
    w = (getattr(ob, "meta", {}) or {}).get("witness")
    if w == "falsy-data":
        fails = [f for f in fails if f.get("class", "").startswith("falsy-data")]
    elif w == "failing-job":
        fails = [f for f in fails if "failing-job" in f.get("class", "")]
    elif w == "status-before-registration":
        fails = [f for f in fails if "status-delivered-before-enqueue-returned" in f.get("class", "")]
    payload["native"] = {"failures": fails[:5]}
    return bool(fails), payload


def main(tier="quick", seed=0):
    run = report.Run(PROP, tier, seed)
    spec = factory()
    faults = E.run_parallel(spec, factory, TASKS, timeout_ms=10000 if tier == "quick" else 30000)
    if faults:
        run.engine_fault = faults[0][-1500:]
    generic_refutations(run, spec, PROP, replay)
    run_bounded(run, PROP, "c15_bounded.py", tier)
    return run.finish(spec, "proof", "sequential contracts of worker_loop / run_forever / enqueue; interleavings bounded; see DESIGN.md C15")


if __name__ == "__main__":
    t, s = tier_and_seed()
    sys.exit(main(t, s))
