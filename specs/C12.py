"""C12 — equal expression signatures imply equal values; commuted forms agree.

Deductive part (real code of semantiva/metadata/semantic_id.py):
  _dump_ast_commutative.<locals>.norm.<locals>.collect :  collect(term) appends exactly Flat(op, term) - the in-order list of the
      maximal non-`op` sub-terms of a chain of the SAME operator `op` (never across + and *, never into other operators) -
      and changes nothing else.  Structural induction: the contract itself is the hypothesis at the two recursive calls.
Bounded stand-in (labelled bounded): norm's re-ordering/rebuild and the signature-vs-value relation are checked by exhaustive
  enumeration of small expressions against polynomial normal forms (replay/c12_bounded.py).  The Lean lemmas sketched in
  DESIGN.md (AC folds) were not written: stated as not done.
"""
from __future__ import annotations
import ast, sys, os
import z3
from .common import *
from pyvc.interp import frame_eq, Env
from pyvc.core import Sq

PROP = "C12"
SID = "semantiva/metadata/semantic_id.py"
I_ = core.I
FlatArr = z3.Function("FlatArr", I_, core.VArr)     # Flat(op, t) for the fixed operator class `op_type` of this activation
FlatN = z3.Function("FlatN", I_, I_)


class Spec(BaseSpec):
    def __init__(self):
        super().__init__(PROP)
        self.assumptions |= {
            "expression trees are finite and acyclic (structural induction on ast.parse output)",
            "norm's sort/rebuild step and the composition 'equal signature => equal value' are covered by the bounded tier only",
        }

    def call_override(self, I, f, args, kwargs, star):
        # induction hypothesis at the recursive calls of collect()
        if isinstance(f, O.HFunc) and f.node.name == "collect" and I.depth > 0:
            st = I.st
            term = args[0]
            terms = f.closure.lookup("terms")[0]
            self.oblige(I, "call:collect/pre/argument-is-a-node", z3.And(V.is_ref(term), z3.Select(st.h.kind, V.id(term)) == K_INST))
            old = st.list_sq(terms)
            t = V.id(term)
            new = Sq(fresh("terms_arr", core.VArr), old.n + FlatN(t))
            i = z3.Int("i!ih")
            st.assume(FlatN(t) >= 1)
            st.assume(z3.ForAll([i], z3.Implies(z3.And(i >= 0, i < old.n), new.at(i) == old.at(i)), patterns=[new.at(i)]))
            st.assume(z3.ForAll([i], z3.Implies(z3.And(i >= 0, i < FlatN(t)), new.at(old.n + i) == z3.Select(FlatArr(t), i))))
            st.assume(z3.ForAll([i], z3.Implies(z3.And(i >= old.n, i < new.n), new.at(i) == z3.Select(FlatArr(t), i - old.n)), patterns=[new.at(i)]))
            st.set_list(terms, new)
            return NONE
        return MISSING

    def unknown_attr(self, I, v, name):
        st = I.st
        if is_v(v) and I.tag(v) == "ref" and I.kind(v) == K_INST:
            if st.decide(z3.Select(st.h.hasf(name), V.id(v)), f"hasattr:{name}"):
                return st.wf_read(z3.Select(st.h.field(name), V.id(v)))
            return MISSING
        return super().unknown_attr(I, v, name)


def h_collect(spec):
    fn_info(spec, SID, "_dump_ast_commutative.<locals>.norm.<locals>.collect")

    def body(I):
        st = I.st
        binop = bcls(ast.BinOp)
        astc = bcls(ast.AST)
        st.mention(binop, target=True)
        st.mention(astc, target=True)
        op_type = V.cls(z3.Int("op_type"))          # Add or Mult (any operator class: the contract is generic in it)
        terms = in_list(I, "terms")
        st.assume(z3.Select(st.h.llen, V.id(terms)) >= 0)
        term = in_ref(I, "term", K_INST)
        h = st.h
        t = V.id(term)
        # shape of parser output: a BinOp node carries left/op/right, left and right are nodes, op is an operator object
        r = z3.Int("r!shape")
        isbin = lambda rr: z3.And(z3.Select(h.kind, rr) == K_INST, issub(z3.Select(h.cls, rr), binop.cid))
        left = lambda rr: z3.Select(h.field("left"), rr)
        right = lambda rr: z3.Select(h.field("right"), rr)
        opf = lambda rr: z3.Select(h.field("op"), rr)
        node = lambda v: z3.And(V.is_ref(v), V.id(v) <= 0, z3.Select(h.kind, V.id(v)) == K_INST)
        shape = lambda rr: z3.Implies(isbin(rr), z3.And(z3.Select(h.hasf("left"), rr), z3.Select(h.hasf("right"), rr), z3.Select(h.hasf("op"), rr),
                                                        node(left(rr)), node(right(rr)), node(opf(rr))))
        st.assume(z3.ForAll([r], shape(r)))
        st.instantiators.append(lambda rr: shape(rr))
        st.assume(shape(t))
        # Flat: definition by recursion on the tree
        is_ac = lambda rr: z3.And(isbin(rr), issub(z3.Select(h.cls, V.id(opf(rr))), V.cid(op_type)))
        i = z3.Int("i!flat")
        lft, rgt = lambda rr: V.id(left(rr)), lambda rr: V.id(right(rr))
        flat_def = lambda rr: z3.And(
            z3.Implies(is_ac(rr), z3.And(FlatN(rr) == FlatN(lft(rr)) + FlatN(rgt(rr)),
                                         z3.ForAll([i], z3.Implies(z3.And(i >= 0, i < FlatN(rr)),
                                                                   z3.Select(FlatArr(rr), i) == z3.If(i < FlatN(lft(rr)), z3.Select(FlatArr(lft(rr)), i),
                                                                                                     z3.Select(FlatArr(rgt(rr)), i - FlatN(lft(rr)))))))),
            z3.Implies(z3.Not(is_ac(rr)), z3.And(FlatN(rr) == 1, z3.Select(FlatArr(rr), 0) == V.ref(rr))),
            FlatN(rr) >= 1)
        st.assume(flat_def(t))
        st.assume(z3.ForAll([r], z3.Implies(r <= 0, FlatN(r) >= 1)))
        h0 = st.h.copy()
        old = st.list_sq(terms)
        mod = source.load_module(SID)
        env = Env(mod)
        env.vars.update({"terms": terms, "op_type": op_type})
        f = E.hfunc(SID, "_dump_ast_commutative.<locals>.norm.<locals>.collect", closure=env)
        env.vars["collect"] = f
        I.depth = 0
        try:
            I.call_function(f, [term], {})
            out = "return"
        except PyRaise as pr:
            out = "raise"
        if out != "return":
            spec.oblige(I, "never-raises-on-parser-output", z3.BoolVal(False))
            return
        new = st.list_sq(terms)
        spec.oblige(I, "length-grows-by-|Flat(op,term)|", new.n == old.n + FlatN(t))
        spec.oblige(I, "earlier-terms-kept", z3.ForAll([i], z3.Implies(z3.And(i >= 0, i < old.n), new.at(i) == old.at(i))))
        spec.oblige(I, "appended-terms=Flat(op,term)-in-order",
                    z3.ForAll([i], z3.Implies(z3.And(i >= 0, i < FlatN(t)), new.at(old.n + i) == z3.Select(FlatArr(t), i))))
        spec.oblige(I, "only-the-terms-list-changes", frame_eq(h0, st.h, 0, [terms]))
    E.run_function(spec, "collect", body)


TASKS = [h_collect]


def factory():
    return Spec()


def replay(ob):
    payload = {"obligation": ob.name, "solver": ob.backend, "model": report.model_summary(ob), "goal": ob.goal if isinstance(ob.goal, str) else str(ob.goal)[:800]}
    script = os.path.join(report.ROOT, "replay", "c12_bounded.py")
    res, proc = report.native_json(script, {"tier": "quick", "seed": 0})
    payload["native"] = {"failures": (res or {}).get("failures", [])[:5]}
    return bool(res and res.get("failures")), payload


def main(tier="quick", seed=0):
    run = report.Run(PROP, tier, seed)
    spec = factory()
    faults = E.run_parallel(spec, factory, TASKS, timeout_ms=10000 if tier == "quick" else 30000)
    if faults:
        run.engine_fault = faults[0][-1500:]
    generic_refutations(run, spec, PROP, replay)
    run_bounded(run, PROP, "c12_bounded.py", tier)
    return run.finish(spec, "proof", "collect() proved by structural induction; normal-form/value relation bounded; see DESIGN.md C12")


if __name__ == "__main__":
    t, s = tier_and_seed()
    sys.exit(main(t, s))
