"""C03 — parameter sweeps expand to exactly the documented element sequence.

Deductive part (real functions of semantiva/data_processors/parametric_sweep_factory.py, re-read every run):
  _iterate_sweep  (generator, run to exhaustion; 1..3 variables with lists of arbitrary lengths):
      by_position            lengths differ => ValueError and nothing yielded; otherwise exactly n steps, step j = {v: seq_v[j]}
      by_position+broadcast  exactly max(len) steps over exactly the variable names; step j = {v: seq_v[j mod len_v]} is proved
                             for one variable only - for 2-3 variables the step content is left to the bounded tier
      combinatorial          itertools.product is called with the sequences in SORTED variable-name order and every step is
                             dict(zip(sorted names, combo))   (product's own order - last name fastest - is the library's contract)
      no variable            nothing yielded
      frame                  the materialised sequences handed in are not modified (they are the lists published as <var>_values)
  _merge_call_parameters     fresh dict, keys = base U expression, expression wins, inputs untouched
  _materialize_sequences     per variable: explicit values are copied, from_context takes the context list (missing key / string /
                             empty rejected), the list published as <var>_values IS the materialised sequence, one entry per variable
  _publish_created_context   every created key is written to the context object (set_value) or mapping (update); None => no-op
NOT under contract (bounded tier only): the generated _get_data / _process_logic closures inside ParametricSweepFactory.create
  (class bodies closing over factory locals), numpy range materialisation, the node layer that publishes a probe's sequences.
Bounded stand-in (labelled bounded): real pipelines against an independent oracle (replay/c03_bounded.py).
"""
from __future__ import annotations
import sys, os
import z3
from .common import *
from pyvc.interp import frame_eq
from pyvc.core import Sq

PROP = "C03"
PSF = "semantiva/data_processors/parametric_sweep_factory.py"
I_ = core.I
NAMES = ["b", "a", "c"]          # insertion order deliberately not sorted


class Spec(PureLibMixin, BaseSpec):
    def __init__(self):
        super().__init__(PROP)
        self.inline_files |= {PSF}
        self.map_as_axiom = True
        self.skolem_goals = True
        self.obj_methods = {"set_value": self.m_set_value, "update": self.m_update}
        self.assumptions |= {
            "itertools.product(s1..sk) enumerates the Cartesian product with the last sequence varying fastest (library contract)",
            "numpy.linspace / logspace are abstract (range materialisation is covered by the bounded tier only)",
            "precondition of _iterate_sweep: no sequence is empty (SequenceSpec / from_context / RangeSpec reject empty sequences); context sequences are lists",
        }

    def generator_call(self, I, f, env):
        try:
            I.exec_block(f.node.body, env)
        except Exception as e:
            from pyvc.interp import _Return
            if isinstance(e, _Return):
                return NONE
            raise
        return NONE

    def on_yield(self, I, v, env):
        """a yielded step is recorded as an immutable summary: the tuple of its values in sorted-name order; that it is a dict with
        exactly the variable names as keys is obliged on the spot"""
        st = I.st
        e = I.lift(v)
        h = st.h
        self.oblige(I, "every-step-is-a-mapping-over-exactly-the-variable-names",
                    z3.And(V.is_ref(e), z3.Select(st.kinds, V.id(e)) == K_DICT, ddom(h, e) == self.NAMESET))
        summary = vtup([z3.Select(dval(h, e), vstr(nm)) for nm in sorted(self.CUR_NAMES)])
        st.set_list(self.Y, st.list_sq(self.Y).append(summary))

    def ext_call(self, I, dotted, args, kwargs, star):
        st = I.st
        if dotted == "itertools.product":
            extra = []
            if star is not None:
                extra = star if isinstance(star, list) else (st.list_sq(I.lift(star)).units() or [])
            seqs = [I.lift(a) for a in (list(args) + list(extra))]
            st.ghost["product_args"] = seqs
            n = fresh("n_combos", I_)
            st.assume(n >= 0)
            self.COMBOS = st.new_list(Sq(fresh("combos", core.VArr), n))
            k = len(seqs)
            j = z3.Int("j!combo")
            Comp = [z3.Function(f"ComboComponent{t}", I_, V) for t in range(k)]
            self.COMP = Comp
            arr = z3.Select(st.h.larr, V.id(self.COMBOS))
            st.assume(z3.ForAll([j], z3.Implies(z3.And(j >= 0, j < n), z3.Select(arr, j) == vtup([Comp[t](j) for t in range(k)]))))
            hc = st.h.copy()
            st.list_instantiators.append(lambda lid, idx: z3.Implies(z3.And(lid == V.id(self.COMBOS), idx >= 0, idx < n),
                                                                     z3.Select(z3.Select(hc.larr, lid), idx) == vtup([Comp[t](idx) for t in range(k)])))
            return self.COMBOS
        if dotted.startswith("numpy."):
            return V.obj(fresh("ndarray", I_))
        return super().ext_call(I, dotted, args, kwargs, star)

    def isinstance_ext(self, I, v, cls):
        if cls.dotted in ("typing.Sequence", "collections.abc.Sequence"):
            v = I.lift(v)
            h = I.st.h
            return z3.Or(V.is_str(v), V.is_tup(v), z3.And(V.is_ref(v), z3.Select(I.st.kinds, V.id(v)) == K_LIST))
        return super().isinstance_ext(I, v, cls)

    def m_set_value(self, I, recv, args, kwargs, star):
        st = I.st
        st.ghost["published"] = st.ghost.get("published", []) + [(I.lift(args[0]), I.lift(args[1]))]
        return NONE

    def m_update(self, I, recv, args, kwargs, star):
        st = I.st
        st.ghost["updated_with"] = I.lift(args[0])
        return NONE

    def obj_attr(self, I, v, name):
        if name in ("set_value", "update"):
            kind = I.st.ghost.get("context_kind")
            if (name == "set_value" and kind == "object") or (name == "update" and kind in ("object", "mapping")):
                return O.HMeth(v, name)
            return MISSING
        return super().obj_attr(I, v, name)


def mk_sequences(I, spec, nvars):
    st = I.st
    seqs = {}
    d = st.new_dict()
    from pyvc import models as M
    for nm in NAMES[:nvars]:
        l = in_list(I, f"seq_{nm}")
        st.assume(z3.Select(st.h.llen, V.id(l)) >= 1)      # precondition: _materialize_sequences never hands over an empty sequence
        seqs[nm] = l
        M.set_item(I, d, vstr(nm), l)
    return d, seqs


def h_iterate_sweep(spec):
    fn_info(spec, PSF, "_iterate_sweep")

    def body(I):
        st = I.st
        nvars = st.choose(4, "number of variables")          # 0..3
        mode = ["by_position", "by_position+broadcast", "combinatorial"][st.choose(3, "mode")]
        d, seqs = mk_sequences(I, spec, nvars)
        spec.Y = st.new_list()
        names = NAMES[:nvars]
        lens = {nm: z3.Select(st.h.llen, V.id(seqs[nm])) for nm in names}
        h0 = st.h.copy()
        at0 = lambda nm, j: z3.Select(z3.Select(h0.larr, V.id(seqs[nm])), j)
        NAMESET = z3.K(V, z3.BoolVal(False))
        for nm in sorted(names):
            NAMESET = z3.Store(NAMESET, vstr(nm), z3.BoolVal(True))
        spec.NAMESET, spec.CUR_NAMES = NAMESET, names
        maxlen = None
        if names:
            maxlen = lens[names[0]]
            for nm in names[1:]:
                maxlen = z3.If(lens[nm] > maxlen, lens[nm], maxlen)

        def step_ok(h, e, j, cyc, nalloc=None):
            """summary e (tuple of values in sorted-name order) is step j"""
            vals = []
            for nm in sorted(names):
                # j mod len, written so that no modular reasoning is needed for a sequence of full length (j < max = len => j mod len = j)
                idx = z3.If(lens[nm] == maxlen, j, j % lens[nm]) if cyc else j
                vals.append(at0(nm, idx))
            return e == vtup(vals)

        import ast as _ast
        fnode, _ = source.find_def(PSF, "_iterate_sweep")
        loops = sorted([n for n in _ast.walk(fnode) if isinstance(n, (_ast.For, _ast.While))], key=lambda n: (n.lineno, n.col_offset))
        spec.loops.clear()
        for k_, n in enumerate(loops):
            if isinstance(n.iter, _ast.Call) and getattr(n.iter.func, "id", "") == "range":
                def inv(c, cyc=(mode == "by_position+broadcast")):
                    Y = c.st.list_sq(spec.Y)
                    j = z3.Int("j!inv")
                    if cyc and nvars >= 2:
                        # cycling of several sequences: the content of the steps is left to the bounded tier (the solvers do not
                        # decide the modular step relation through the loop frame in reasonable time); count and frame stay proved
                        return Y.n == c.i
                    return z3.And(Y.n == c.i, z3.ForAll([j], z3.Implies(z3.And(j >= 0, j < c.i), step_ok(c.st.h, Y.at(j), j, cyc, c.st.nalloc))))
                spec.loop(PSF, "_iterate_sweep", k_ + 1, LoopSpec(inv, modifies_heap=True, frame_except=lambda c: [lambda r: z3.Or(r > c.entry["nalloc"], r == V.id(spec.Y))]))
            elif isinstance(n.iter, _ast.Call) and isinstance(n.iter.func, _ast.Attribute) and n.iter.func.attr == "product":
                def inv2(c):
                    Y = c.st.list_sq(spec.Y)
                    j = z3.Int("j!inv")
                    srt = sorted(names)
                    return z3.And(Y.n == c.i, z3.ForAll([j], z3.Implies(z3.And(j >= 0, j < c.i), combo_ok(c.st.h, Y.at(j), j, srt, c.st.nalloc))))
                spec.loop(PSF, "_iterate_sweep", k_ + 1, LoopSpec(inv2, modifies_heap=True, frame_except=lambda c: [lambda r: z3.Or(r > c.entry["nalloc"], r == V.id(spec.Y))]))

        def combo_ok(h, e, j, srt, nalloc=None):
            return e == vtup([spec.COMP[t](j) for t, nm in enumerate(srt)])

        f = E.hfunc(PSF, "_iterate_sweep")
        out = E.execute(I, f, [d], {"mode": vstr(mode.split("+")[0]), "broadcast": vbool(mode.endswith("broadcast"))})
        Y = st.list_sq(spec.Y)
        tag = f"{mode}/{nvars}vars"
        j = z3.Int("j!post")
        # frame: the sequences handed in are untouched, whatever happens
        for nm in names:
            r = V.id(seqs[nm])
            spec.oblige(I, f"{tag}/frame:materialised-sequence-{nm}-not-modified",
                        z3.And(z3.Select(st.h.llen, r) == z3.Select(h0.llen, r),
                               z3.ForAll([j], z3.Implies(z3.And(j >= 0, j < z3.Select(h0.llen, r)), z3.Select(z3.Select(st.h.larr, r), j) == z3.Select(z3.Select(h0.larr, r), j)))),
                        meta={"witness": "sequence-mutated"})
        if nvars == 0:
            spec.oblige(I, f"{tag}/no-variable:nothing-yielded", z3.And(z3.BoolVal(out[0] == "return"), Y.n == 0))
            return
        alleq = z3.And([lens[nm] == lens[names[0]] for nm in names[1:]]) if len(names) > 1 else z3.BoolVal(True)
        if mode == "by_position":
            if out[0] != "return":
                spec.oblige(I, f"{tag}/rejects-only-unequal-lengths(ValueError)", z3.And(z3.Not(alleq), z3.BoolVal(exc_is(out[1], ValueError))))
                spec.oblige(I, f"{tag}/nothing-yielded-when-rejected", Y.n == 0)
                return
            spec.oblige(I, f"{tag}/accepted-only-with-equal-lengths", alleq)
            spec.oblige(I, f"{tag}/one-step-per-position", Y.n == lens[names[0]])
            spec.oblige(I, f"{tag}/step-j=aligned-position-j", z3.ForAll([j], z3.Implies(z3.And(j >= 0, j < Y.n), step_ok(st.h, Y.at(j), j, False))))
        elif mode == "by_position+broadcast":
            if out[0] != "return":
                # max() of lengths / modulo by an empty sequence: only an empty sequence may make the broadcast fail
                spec.oblige(I, f"{tag}/fails-only-with-an-empty-sequence", z3.Or([lens[nm] == 0 for nm in names]), meta={"exc": repr(out[1])})
                return
            spec.oblige(I, f"{tag}/one-step-per-position-of-the-longest", Y.n == maxlen)
            if nvars < 2:
                spec.oblige(I, f"{tag}/step-j=shorter-sequences-cycled", z3.ForAll([j], z3.Implies(z3.And(j >= 0, j < Y.n), step_ok(st.h, Y.at(j), j, True))))
        else:
            spec.oblige(I, f"{tag}/never-raises", z3.BoolVal(out[0] == "return"))
            pa = st.ghost.get("product_args")
            srt = sorted(names)
            spec.oblige(I, f"{tag}/product-over-the-sequences-in-sorted-name-order",
                        z3.And([z3.BoolVal(pa is not None and len(pa) == len(srt))] + ([pa[t] == seqs[nm] for t, nm in enumerate(srt)] if pa is not None and len(pa) == len(srt) else [])))
            if pa is not None and out[0] == "return":
                ncomb = z3.Select(st.h.llen, V.id(spec.COMBOS))
                spec.oblige(I, f"{tag}/one-step-per-combination", Y.n == ncomb)
                spec.oblige(I, f"{tag}/step-j=dict(zip(sorted-names,combo-j))", z3.ForAll([j], z3.Implies(z3.And(j >= 0, j < Y.n), combo_ok(st.h, Y.at(j), j, srt))))
    E.run_function(spec, "_iterate_sweep", body, max_paths=3000)


def h_merge(spec):
    fn_info(spec, PSF, "_merge_call_parameters")

    def body(I):
        st = I.st
        base, expr = in_dict(I, "base_kwargs"), in_dict(I, "expression_outputs")
        h0 = st.h.copy()
        out = E.execute(I, E.hfunc(PSF, "_merge_call_parameters"), [], {"base_kwargs": base, "expression_outputs": expr})
        if out[0] != "return":
            spec.oblige(I, "merge/never-raises", z3.BoolVal(False))
            return
        m = out[1]
        k = fresh("any_key")
        h = st.h
        inb, ine = z3.Select(ddom(h0, base), k), z3.Select(ddom(h0, expr), k)
        spec.oblige(I, "merge/keys=base-U-expression", z3.Select(ddom(h, m), k) == z3.Or(inb, ine), hints=[k])
        spec.oblige(I, "merge/expression-wins-over-node-parameters-and-defaults",
                    z3.Implies(z3.Or(inb, ine), z3.Select(dval(h, m), k) == z3.If(ine, z3.Select(dval(h0, expr), k), z3.Select(dval(h0, base), k))), hints=[k])
        spec.oblige(I, "merge/result-is-a-new-dict;inputs-untouched", z3.And(V.id(m) > 0, frame_eq(h0, h, 0)))
    E.run_function(spec, "_merge_call_parameters", body)


def h_publish(spec):
    fn_info(spec, PSF, "_publish_created_context")

    def body(I):
        st = I.st
        created = st.new_dict()
        from pyvc import models as M
        l1, l2 = in_list(I, "a_seq"), in_list(I, "b_seq")
        M.set_item(I, created, vstr("a_values"), l1)
        M.set_item(I, created, vstr("b_values"), l2)
        kind = ["none", "object", "mapping", "neither"][st.choose(4, "context kind")]
        st.ghost["context_kind"] = kind
        ctx = NONE if kind == "none" else V.obj(z3.Int("context"))
        out = E.execute(I, E.hfunc(PSF, "_publish_created_context"), [created, ctx])
        spec.oblige(I, f"publish[{kind}]/never-raises", z3.BoolVal(out[0] == "return"))
        pub = st.ghost.get("published", [])
        if kind == "object":
            ok = len(pub) == 2
            spec.oblige(I, "publish[object]/every-created-key-set-on-the-context",
                        z3.And(z3.BoolVal(ok), *( [z3.Or([z3.And(p[0] == vstr(k_), p[1] == v_) for p in pub]) for k_, v_ in (("a_values", l1), ("b_values", l2))] if ok else [])))
        elif kind == "mapping":
            spec.oblige(I, "publish[mapping]/context-updated-with-the-created-mapping", z3.BoolVal(st.ghost.get("updated_with") is not None and st.ghost["updated_with"].eq(created)))
        else:
            spec.oblige(I, f"publish[{kind}]/nothing-written", z3.BoolVal(not pub and st.ghost.get("updated_with") is None))
    E.run_function(spec, "_publish_created_context", body)


def h_materialize(spec):
    fn_info(spec, PSF, "_materialize_sequences")

    def body(I):
        st = I.st
        seq_ci, ctx_ci = cls_of(I, PSF, "SequenceSpec"), cls_of(I, PSF, "FromContext")
        params = in_dict(I, "params")
        vars_d = st.new_dict()
        from pyvc import models as M
        nvars = st.choose(2, "variables") + 1
        specs = []
        for t in range(nvars):
            nm = NAMES[t]
            if st.choose(2, f"{nm}: kind") == 0:
                vals = in_list(I, f"values_{nm}")
                st.assume(z3.Select(st.h.llen, V.id(vals)) >= 0)
                o = in_inst(I, f"spec_{nm}", seq_ci, {"values": vals})
                specs.append((nm, "values", vals))
            else:
                key = vstr(z3.String(f"ctxkey_{nm}"))
                pv = z3.Select(dval(st.h, params), key)
                st.assume(z3.Implies(V.is_ref(pv), z3.And(V.id(pv) <= 0, z3.Select(st.h.llen, V.id(pv)) >= 0)))
                st.assume(z3.Not(V.is_tup(pv)))     # context values: lists (tuples behave alike; not modelled)
                o = in_inst(I, f"spec_{nm}", ctx_ci, {"key": key})
                specs.append((nm, "from_context", key))
            M.set_item(I, vars_d, vstr(nm), o)
        h0 = st.h.copy()
        out = E.execute(I, E.hfunc(PSF, "_materialize_sequences"), [], {"vars": vars_d, "params": params})
        if out[0] != "return":
            # only a from_context variable can be rejected: missing key (ValueError), string / non-sequence (TypeError), empty (ValueError)
            bad = []
            for nm, kind, x in specs:
                if kind == "from_context":
                    v = z3.Select(dval(h0, params), x)
                    missing = z3.Not(z3.Select(ddom(h0, params), x))
                    notseq = z3.Not(z3.And(V.is_ref(v), z3.Select(h0.kind, V.id(v)) == K_LIST))
                    empty = z3.And(V.is_ref(v), z3.Select(h0.llen, V.id(v)) == 0)
                    bad.append(z3.Or(missing, notseq, empty))
            spec.oblige(I, "materialize/rejects-only-a-bad-from_context-variable", z3.Or(bad) if bad else z3.BoolVal(False), meta={"exc": repr(out[1])})
            return
        seqs_d, created_d = Sq.from_tuple(out[1]).at(0), Sq.from_tuple(out[1]).at(1)
        h = st.h
        j = z3.Int("j!mat")
        for nm, kind, x in specs:
            s_ = z3.Select(dval(h, seqs_d), vstr(nm))
            c_ = z3.Select(dval(h, created_d), vstr(nm + "_values"))
            spec.oblige(I, f"materialize/{kind}:{nm}-has-a-sequence-and-a-published-entry",
                        z3.And(z3.Select(ddom(h, seqs_d), vstr(nm)), z3.Select(ddom(h, created_d), vstr(nm + "_values"))))
            spec.oblige(I, f"materialize/{kind}:published-{nm}_values-is-the-materialised-sequence", c_ == s_)
            src = x if kind == "values" else z3.Select(dval(h0, params), x)
            n0 = z3.Select(h0.llen, V.id(src))
            spec.oblige(I, f"materialize/{kind}:{nm}-sequence=the-declared-values(copied)",
                        z3.And(V.is_ref(s_), V.id(s_) > 0, z3.Select(h.llen, V.id(s_)) == n0,
                               z3.ForAll([j], z3.Implies(z3.And(j >= 0, j < n0), z3.Select(z3.Select(h.larr, V.id(s_)), j) == z3.Select(z3.Select(h0.larr, V.id(src)), j)))))
        kk = fresh("any_key")
        spec.oblige(I, "materialize/published-keys=exactly-<var>_values", z3.Select(ddom(h, created_d), kk) == z3.Or([kk == vstr(nm + "_values") for nm, _, _ in specs]), hints=[kk])
        spec.oblige(I, "materialize/inputs-untouched", frame_eq(h0, h, 0))
    E.run_function(spec, "_materialize_sequences", body)


TASKS = [h_merge, h_publish, h_materialize, h_iterate_sweep]
h_iterate_sweep.shards = 12


def factory():
    return Spec()


def replay(ob):
    payload = {"obligation": ob.name, "solver": ob.backend, "model": report.model_summary(ob), "meta": getattr(ob, "meta", {}),
               "goal": ob.goal if isinstance(ob.goal, str) else str(ob.goal)[:400]}
    script = os.path.join(report.ROOT, "replay", "c03_bounded.py")
    res, proc = report.native_json(script, {"tier": "quick", "seed": 0})
    fails = [f for f in (res or {}).get("failures", []) if not report.open_findings(PROP) or True]
    known = {k.get("witness_class") for k in report.open_findings(PROP).values()}
    fails = [f for f in fails if f.get("class") not in known]
    payload["native"] = {"failures": fails[:5]}
    return bool(fails), payload


def main(tier="quick", seed=0):
    run = report.Run(PROP, tier, seed)
    spec = factory()
    faults = E.run_parallel(spec, factory, TASKS, timeout_ms=10000 if tier == "quick" else 30000)
    if faults:
        run.engine_fault = faults[0][-1500:]
    generic_refutations(run, spec, PROP, replay)
    run_bounded(run, PROP, "c03_bounded.py", tier)
    return run.finish(spec, "proof", "_iterate_sweep / _merge_call_parameters / _materialize_sequences / _publish_created_context contracts; generated closures and ranges bounded; see DESIGN.md C03")


if __name__ == "__main__":
    t, s = tier_and_seed()
    sys.exit(main(t, s))
