"""C11 — sweep expressions are confined to the safe grammar and their own variables.

Theorem (structural induction over the running interpreter's AST grammar):
    for every node class K and every node n of class K,
        _SafeVisitor(allowed).visit(n) returns normally  ==>  SafeBody_K(n)
where SafeBody_K is the definition of `Safe` transcribed from the property statement and the
induction hypothesis `visit(c) returns ==> Safe(c)` is the contract used at the recursive calls.
Verified text: semantiva/utils/safe_eval.py (_SafeVisitor.*, ExpressionEvaluator.*) and the
stdlib's ast.NodeVisitor.visit / generic_visit (source of the running interpreter, extracted the same way).
Bounded tier (labelled bounded): replay/c11_bounded.py - call histories on one evaluator object (state between calls is outside a
per-call contract), verdicts against a reference acceptor written from the property statement, returned function applied.
"""
from __future__ import annotations
import ast, json, os, sys, time
import z3
from .common import *

PROP = "C11"
SAFE_EVAL = "semantiva/utils/safe_eval.py"

# The documented whitelist, transcribed from the property / module documentation (NOT read from the code):
DOC_NODES = {"Expression", "Module", "Expr", "Load", "BinOp", "UnaryOp", "BoolOp", "Compare", "IfExp", "Call",
             "Name", "Constant", "Tuple", "Add", "Sub", "Mult", "Div", "FloorDiv", "Mod", "Pow", "USub", "UAdd",
             "And", "Or", "Eq", "NotEq", "Lt", "LtE", "Gt", "GtE"}
DOC_FUNCS = {"abs", "min", "max", "round", "float", "int", "str", "bool"}

Safe = z3.Function("Safe", core.I, core.B)   # predicate on node references


def grammar():
    """every concrete AST node class of the running interpreter, with its _fields"""
    out = []
    for name in sorted(dir(ast)):
        c = getattr(ast, name)
        if isinstance(c, type) and issubclass(c, ast.AST) and c is not ast.AST:
            if c.__module__ in ("ast", "_ast"):
                out.append(c)
    return out


class Spec(BaseSpec):
    def __init__(self):
        super().__init__(PROP)
        self.inline_files |= {SAFE_EVAL, "<stdlib>/ast"}
        self.stdlib = source.load_abs(ast.__file__, "ast")
        self.AST = bcls(ast.AST)
        inv = lambda c: z3.ForAll([z3.Int("j!inv")], z3.Implies(
            z3.And(z3.Int("j!inv") >= 0, z3.Int("j!inv") < c.i),
            child_safe_elem(c.I, c.seq.at(z3.Int("j!inv")))))
        # inner loop of ast.NodeVisitor.generic_visit  (for item in value)
        self.loop("<stdlib>/ast", "NodeVisitor.generic_visit", 2, LoopSpec(inv, modifies_heap=False))
        # loops of _SafeVisitor.visit_Call: #1 over node.args ; #2 (if present) over node.keywords
        self.loop(SAFE_EVAL, "_SafeVisitor.visit_Call", 1, LoopSpec(inv, modifies_heap=False))
        kwinv = lambda c: z3.ForAll([z3.Int("j!inv")], z3.Implies(
            z3.And(z3.Int("j!inv") >= 0, z3.Int("j!inv") < c.i),
            kw_safe(c.I, c.seq.at(z3.Int("j!inv")))))
        self.loop(SAFE_EVAL, "_SafeVisitor.visit_Call", 2, LoopSpec(kwinv, modifies_heap=False))
        self.assumptions |= {
            "ast.iter_fields(node) yields (f, getattr(node, f)) for f in type(node)._fields, all present (nodes come from ast.parse)",
            "CPython evaluates an expression all of whose nodes are Safe without attribute access, import or name lookup outside allowed names and the whitelisted functions",
            "ast.parse returns a tree of AST nodes; compile()/eval() are not modelled beyond being reached only after visit() returned",
        }

    # the stdlib NodeVisitor comes from the interpreter's own ast.py
    def ext_value(self, I, dotted):
        if dotted == "ast.NodeVisitor":
            mod = self.stdlib
            return I.class_of_node(mod, mod.defs["NodeVisitor"])
        return None

    def global_override(self, module, name):
        if module is self.stdlib and name not in module.defs and name not in module.assigns:
            c = getattr(ast, name, None)
            if isinstance(c, type):
                return lambda I: bcls(c)
        return None

    def generator_call(self, I, f, env):
        if f.qual == "iter_fields":
            node = env.vars["node"]
            ci = I.inst_class(node)
            if ci is None or ci.pycls is None:
                raise OutsideSubset("iter_fields on a node of unknown class")
            return [vtup([vstr(fn), I.getattr(node, fn)]) for fn in ci.pycls._fields]
        return super().generator_call(I, f, env)

    def unknown_attr(self, I, v, name):
        # attribute of an AST node whose class is only known up to a bound: plain field read
        st = I.st
        for c in grammar():
            if name in c._fields and st.valid_full(models.isinstance_cond(I, v, bcls(c), register=False)):
                return st.wf_read(z3.Select(st.h.field(name), V.id(v)))
        return super().unknown_attr(I, v, name)

    def call_override(self, I, f, args, kwargs, star):
        # induction hypothesis at the recursive calls of visit()
        if isinstance(f, O.HBound) and f.func.qual == "NodeVisitor.visit" and I.depth > 0:
            child = args[0] if args else kwargs["node"]
            self.oblige(I, "call:visit/pre/child-is-AST", models.isinstance_cond(I, child, self.AST))
            if I.st.choose(2, "IH:visit") == 0:
                I.st.assume(Safe(V.id(child)))
                return fresh("visit_result")
            raise PyRaise(O.HExc(fresh("exc_cls", core.I), origin=("IH", "visit")))
        return MISSING


def is_ast(I, v):
    return models.isinstance_cond(I, v, bcls(ast.AST), register=False)


def child_safe_elem(I, x):
    return z3.Implies(is_ast(I, x), Safe(V.id(x)))


def child_safe(I, v):
    h = I.st.h
    j = z3.Int("j!cs")
    sq = I.st.list_sq(v)
    is_list = z3.And(V.is_ref(v), z3.Select(h.kind, V.id(v)) == K_LIST)
    return z3.And(child_safe_elem(I, v),
                  z3.Implies(is_list, z3.ForAll([j], z3.Implies(z3.And(j >= 0, j < sq.n),
                                                                child_safe_elem(I, sq.at(j))))))


def kw_safe(I, kw):
    """a keyword argument is acceptable iff its value expression is Safe (or the keyword node itself was
    accepted by the visitor, which then accounts for its children)"""
    h = I.st.h
    val = z3.Select(h.field("value"), V.id(kw))
    return z3.Implies(is_ast(I, kw), z3.Or(Safe(V.id(kw)), child_safe_elem(I, val)))


def safe_body(I, K, n, allowed):
    """definition of Safe for a node n of class K: list of (conjunct name, Bool)"""
    h = I.st.h
    if K.__name__ not in DOC_NODES:
        return [("class-on-whitelist", z3.BoolVal(False))]
    out = [("class-on-whitelist", z3.BoolVal(True))]
    f = lambda name: z3.Select(h.field(name), V.id(n))
    if K is ast.Name:
        out.append(("name-is-declared-variable", z3.Select(z3.Select(h.sdom, V.id(allowed)), f("id"))))
        return out
    if K is ast.Call:
        func = f("func")
        is_name = models.isinstance_cond(I, func, bcls(ast.Name), register=False)
        fid = z3.Select(h.field("id"), V.id(func))
        out.append(("call-target-is-whitelisted-name", z3.And(is_name, z3.Or([fid == vstr(s) for s in sorted(DOC_FUNCS)]))))
        out.append(("field:args", child_safe(I, f("args"))))
        kws = f("keywords")
        j = z3.Int("j!kw")
        sq = I.st.list_sq(kws)
        is_list = z3.And(V.is_ref(kws), z3.Select(h.kind, V.id(kws)) == K_LIST)
        out.append(("field:keywords", z3.Implies(is_list, z3.ForAll([j], z3.Implies(
            z3.And(j >= 0, j < sq.n), kw_safe(I, sq.at(j)))))))
        return out
    for fn in K._fields:
        out.append((f"field:{fn}", child_safe(I, f(fn))))
    return out


NONE_ELEMS = {("Dict", "keys"), ("arguments", "kw_defaults"), ("MatchMapping", "keys")}
PRIMS = {"identifier": "str", "string": "str", "int": "int", "constant": "prim"}


def field_shapes(K):
    """(field, type name, multiplicity) parsed from the interpreter's own ASDL signature in K.__doc__"""
    import re
    doc = (K.__doc__ or "").strip()
    m = re.match(r"^\w+\((.*)\)$", doc, re.S)
    out = {}
    if m:
        for part in m.group(1).split(","):
            part = part.strip()
            if not part:
                continue
            ty, nm = part.rsplit(" ", 1)
            mult = ""
            if ty.endswith("*") or ty.endswith("?"):
                mult, ty = ty[-1], ty[:-1]
            out[nm] = (ty.strip(), mult)
    return out


def node_of_type(I, v, ty):
    st = I.st
    ci = bcls(getattr(ast, ty)) if hasattr(ast, ty) else bcls(ast.AST)
    st.mention(ci, target=True)
    return z3.And(V.is_ref(v), V.id(v) <= 0, z3.Select(st.h.kind, V.id(v)) == K_INST,
                  issub(z3.Select(st.h.cls, V.id(v)), ci.cid))


def prim_of_type(v, ty):
    k = PRIMS[ty]
    if k == "str":
        return V.is_str(v)
    if k == "int":
        return V.is_int(v)
    return z3.Not(z3.Or(V.is_ref(v), V.is_obj(v), V.is_cls(v), V.is_fn(v)))


def sym_node(I, K):
    """a node of class K as produced by ast.parse: fields shaped by the interpreter's ASDL signature"""
    ci = bcls(K)
    n = in_inst(I, "n", ci)
    st = I.st
    shapes = field_shapes(K)
    for fn in K._fields:
        st.assume(z3.Select(st.h.hasf(fn), V.id(n)))
        v = z3.Const(f"n.{fn}", V)
        st.assume(z3.Select(st.h.field(fn), V.id(n)) == v)
        ty, mult = shapes.get(fn, ("AST", ""))
        shape = (lambda x, ty=ty: prim_of_type(x, ty)) if ty in PRIMS else (lambda x, ty=ty: node_of_type(I, x, ty))
        if mult == "":
            st.assume(shape(v))
        elif mult == "?":
            st.assume(z3.Or(v == NONE, shape(v)))
        else:
            st.assume(z3.And(V.is_ref(v), V.id(v) <= 0, z3.Select(st.h.kind, V.id(v)) == K_LIST))
            sq = st.list_sq(v)
            j = z3.Int("j!shape")
            st.assume(sq.n >= 0)
            st.assume(z3.ForAll([j], z3.Implies(z3.And(j >= 0, j < sq.n),
                                                z3.Or(sq.at(j) == NONE, shape(sq.at(j)))
                                                if (K.__name__, fn) in NONE_ELEMS else shape(sq.at(j))),
                                patterns=[sq.at(j)]))
    # shape invariant of parser output: a keyword node carries a `value` attribute holding an expression
    r = z3.Int("r!shape")
    kwci = bcls(ast.keyword)
    st.mention(kwci, target=True)
    st.assume(z3.ForAll([r], z3.Implies(z3.And(z3.Select(st.h.kind, r) == K_INST, issub(z3.Select(st.h.cls, r), kwci.cid)),
                                        z3.And(z3.Select(st.h.hasf("value"), r),
                                               node_of_type(I, z3.Select(st.h.field("value"), r), "expr"),
                                               z3.Select(st.h.hasf("arg"), r),
                                               z3.Or(z3.Select(st.h.field("arg"), r) == NONE,
                                                     V.is_str(z3.Select(st.h.field("arg"), r)))))))
    return n


def verify_visitor(spec, classes):
    for K in classes:
        def body(I, K=K):
            st = I.st
            allowed = in_set(I, "allowed")
            n = sym_node(I, K)
            vis_ci = cls_of(I, SAFE_EVAL, "_SafeVisitor")
            vis = I.instantiate(vis_ci, [allowed], {})
            h0 = st.h.copy()
            n0 = st.nalloc
            I.depth = 0
            visit = I.getattr(vis, "visit")
            # top-level call: depth 0 so that the IH override does not fire
            try:
                I.call(visit, [n])
                outcome = "return"
            except PyRaise as pr:
                outcome = "raise"
            if outcome == "return":
                for nm, cond in safe_body(I, K, n, allowed):
                    spec.oblige(I, f"{nm}", cond)
                from pyvc.interp import frame_eq
                spec.oblige(I, "frame:heap-unchanged", frame_eq(h0, st.h, n0))
            else:
                spec.oblige(I, "rejection-is-an-exception-path", z3.BoolVal(True))
        E.run_function(spec, f"visit[{K.__name__}]", body)


def verify_evaluator(spec):
    # (1) compile(): the whole tree is visited before compile()/eval are reached
    def body(I):
        st = I.st
        ev_ci = cls_of(I, SAFE_EVAL, "ExpressionEvaluator")
        expr = vstr(z3.String("expr"))
        allowed = in_set(I, "allowed")
        tree = in_inst(I, "tree", abstract_ast_class())
        st.ghost["compiled"] = z3.BoolVal(False)
        evaluator = in_inst(I, "evaluator", ev_ci, {"env": in_dict(I, "env")})

        class Hooks:
            pass
        spec._c11 = {"tree": tree, "parse_called": 0}
        ci, f = E.method_of(I, SAFE_EVAL, "ExpressionEvaluator", "compile")
        out = E.execute(I, f, [evaluator, expr, allowed])
        if out[0] == "return":
            spec.oblige(I, "compile/returns-only-after-visit-accepted", Safe(V.id(tree)))
        else:
            spec.oblige(I, "compile/rejection-before-compile", z3.Not(st.ghost["compiled"]))
    E.run_function(spec, "ExpressionEvaluator.compile", body)

    # (2) __init__: env keys are exactly the whitelisted functions plus the caller-supplied ones
    def body2(I):
        st = I.st
        ev_ci = cls_of(I, SAFE_EVAL, "ExpressionEvaluator")
        extra = in_dict(I, "allowed_funcs")
        which = st.choose(2, "allowed_funcs None?")
        h0 = st.h.copy()
        obj = I.instantiate(ev_ci, [NONE if which == 0 else extra], {})
        env = fld(st.h, obj, "env")
        k = z3.Const("k", V)
        doc = z3.Or([k == vstr(s) for s in sorted(DOC_FUNCS)])
        want = doc if which == 0 else z3.Or(doc, z3.Select(ddom(h0, extra), k))
        spec.oblige(I, "env-keys-are-the-whitelist", z3.ForAll([k], z3.Select(ddom(st.h, env), k) == want))
    E.run_function(spec, "ExpressionEvaluator.__init__", body2)


_ABS = {}


def abstract_ast_class():
    return bcls(ast.AST)


class EvalSpec(Spec):
    """adds models of ast.parse / compile / eval for ExpressionEvaluator.compile"""

    def ext_call(self, I, dotted, args, kwargs, star):
        st = I.st
        if dotted == "ast.parse":
            if st.choose(2, "ast.parse ok?") == 0:
                return self._c11["tree"]
            I.raise_(SyntaxError, origin=("ast.parse",))
        if dotted == "builtins.compile":
            # reaching compile() requires the visitor to have accepted the tree
            self.oblige(I, "compile/visit-before-compile", Safe(V.id(args[0])))
            st.ghost["compiled"] = z3.BoolVal(True)
            return V.obj(fresh("code", core.I))
        if dotted == "builtins.eval":
            return fresh("eval_result")
        return super().ext_call(I, dotted, args, kwargs, star)

    def call_override(self, I, f, args, kwargs, star):
        if isinstance(f, O.HBound) and f.func.qual == "NodeVisitor.visit":
            child = args[0]
            if I.st.choose(2, "visit accepts?") == 0:
                I.st.assume(Safe(V.id(child)))
                return fresh("visit_result")
            raise PyRaise(O.HExc(fresh("exc_cls", core.I), origin=("contract", "visit")))
        return MISSING


# --------------------------------------------------------------------------------------------------
# replay: plant a disallowed construct at the refuted position and hand the text to the real code
# --------------------------------------------------------------------------------------------------
ESCAPES = ["__import__('os').getpid()", "().__class__", "open", "(lambda: 0)()", "[c for c in ()]", "x.real"]

SAMPLES_BY_CLASS = {
    "Attribute": ["x.real", "(1).real"], "Subscript": ["x[0]"], "Lambda": ["(lambda: 0)"], "ListComp": ["[i for i in ()]"],
    "Dict": ["{}"], "Set": ["{1}"], "List": ["[]"], "JoinedStr": ["f'{x}'"], "NamedExpr": ["(y := 1)"],
    "Starred": ["max(*x)"], "Slice": ["x[1:2]"], "GeneratorExp": ["max(i for i in ())"], "SetComp": ["{i for i in ()}"],
    "DictComp": ["{i: i for i in ()}"], "keyword": ["round(x, ndigits=1)"], "FormattedValue": ["f'{x}'"],
    "BitOr": ["x | 1"], "BitAnd": ["x & 1"], "BitXor": ["x ^ 1"], "LShift": ["x << 1"], "RShift": ["x >> 1"],
    "MatMult": ["x @ x"], "Invert": ["~x"], "Not": ["not x"], "Is": ["x is x"], "IsNot": ["x is not x"],
    "In": ["x in (1,)"], "NotIn": ["x not in (1,)"], "Await": [], "Yield": [], "YieldFrom": [],
}


def candidates(cls_name, conjunct):
    out = []
    if cls_name == "Call" and (conjunct.startswith("field:keywords") or conjunct in ("inv", "child-is-AST", "heap-unchanged")):
        out += [f"round(1.5, ndigits={e})" for e in ESCAPES] + [f"round(1.5, **{e})" for e in ESCAPES]
        out += [f"str(**{{'object': {e}}})" for e in ESCAPES] + [f"abs({e})" for e in ESCAPES]
    elif cls_name == "Call" and conjunct.startswith("field:args"):
        out += [f"abs({e})" for e in ESCAPES]
    elif cls_name == "Call" and conjunct.startswith("call-target"):
        out += ["__import__('os')", "open('x')", "x.bit_length()", "(lambda: 0)()", "eval('1')"]
    elif cls_name == "Name":
        out += ["y", "__import__", "open", "abs"]
    elif conjunct == "class-on-whitelist":
        out += SAMPLES_BY_CLASS.get(cls_name, [])
    else:
        fld_name = conjunct.split(":", 1)[-1]
        templates = {"BinOp": {"left": "{e} + 1", "right": "1 + {e}"}, "UnaryOp": {"operand": "-{e}"},
                     "BoolOp": {"values": "x and {e}"}, "Compare": {"left": "{e} < 1", "comparators": "1 < {e}"},
                     "IfExp": {"test": "1 if {e} else 2", "body": "{e} if x else 2", "orelse": "1 if x else {e}"},
                     "Tuple": {"elts": "(1, {e})"}, "Expression": {"body": "{e}"}}
        t = templates.get(cls_name, {}).get(fld_name)
        if t:
            out += [t.format(e=e) for e in ESCAPES]
    return out


def replay(run, ob, cls_name, conjunct):
    cands = candidates(cls_name, conjunct)
    res, proc = report.native_json(os.path.join(report.ROOT, "replay", "c11_replay.py"), {"candidates": cands})
    payload = {"obligation": ob.name, "class": cls_name, "conjunct": conjunct, "solver": ob.backend,
               "model": report.model_summary(ob), "candidates_tried": cands,
               "native": res, "stderr": (proc.stderr or "")[-400:]}
    found = bool(res and res.get("accepted"))
    return found, payload


def _task_visit(classes):
    def task(spec):
        verify_visitor(spec, classes)
    return task


def _task_eval(spec):
    es = EvalSpec()
    es.obligations, es._seen, es.undecided, es.functions = spec.obligations, spec._seen, spec.undecided, spec.functions
    verify_evaluator(es)
    spec.path_count += es.path_count
    spec.assumptions |= es.assumptions


def main(tier="quick", seed=0):
    run = report.Run(PROP, tier, seed)
    spec = Spec()
    for q in ("_SafeVisitor.__init__", "_SafeVisitor.visit_Name", "_SafeVisitor.visit_Call", "_SafeVisitor.generic_visit",
              "ExpressionEvaluator.__init__", "ExpressionEvaluator.compile"):
        fn_info(spec, SAFE_EVAL, q)
    for q in ("NodeVisitor.visit", "NodeVisitor.generic_visit", "NodeVisitor.visit_Constant"):
        spec.functions[("<stdlib>/ast", q)] = {"file": ast.__file__, "function": q, "lines": [], "sha256": "stdlib"}
    classes = grammar()
    chunks = [classes[i::15] for i in range(15)]
    faults = E.run_parallel(spec, Spec, [_task_visit(c) for c in chunks if c] + [_task_eval], timeout_ms=10000 if tier == "quick" else 30000)
    if faults:
        run.engine_fault = faults[0][-800:]
    run.notes.append(f"grammar: {len(classes)} AST node classes of Python {sys.version.split()[0]}")
    # known findings / violations
    known = report.open_findings(PROP)
    seen_groups = set()
    for ob in spec.obligations:
        if ob.status != "refuted":
            continue
        parts = ob.name.split("/")
        cls_name = parts[0][len("visit["):-1] if parts[0].startswith("visit[") else parts[0]
        conjunct = parts[-1]
        grp = (cls_name, conjunct)
        if grp in seen_groups:
            continue
        seen_groups.add(grp)
        kf = next((k for k in known.values() if k.get("obligation") == f"visit[{cls_name}]/{conjunct}"), None)
        found, payload = replay(run, ob, cls_name, conjunct)
        if kf is not None:
            run.known(f"{kf['id']}: {kf['what']}")
            ob.status = "known"
            continue
        run.violation(ob.name, payload, found)
    # vacuity: at least one obligation per grammar class, and the whitelisted ones have an accepting path
    accepted = {ob.name.split("/")[0] for ob in spec.obligations if ob.name.endswith("class-on-whitelist")}
    missing = [K.__name__ for K in classes if K.__name__ in DOC_NODES and f"visit[{K.__name__}]" not in accepted]
    if missing:
        run.notes.append(f"vacuity: no accepting path for whitelisted classes {missing}")
        spec.undecided.append(("vacuity", f"no accepting path for {missing}"))
    # bounded: call histories on one evaluator object and the function compile returns (state between calls is outside a single-call contract)
    run_bounded(run, PROP, "c11_bounded.py", tier)
    return run.finish(spec, "proof", "structural induction over the interpreter grammar; see DESIGN.md C11")


if __name__ == "__main__":
    t, s = tier_and_seed()
    sys.exit(main(t, s))
