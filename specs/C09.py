"""C09 — a run-space launch equals its independent runs and is linked by stable ids.

Deductive part (real code, re-read every run):
  * cli._run, the run loop (harness shared with C17, callees abstract): at an arbitrary iteration the context handed to the run is a
    dict created in this iteration whose content is exactly --context overlaid with the plan's run i (nothing carried over from an
    earlier run), the metadata carries run_space_index = i, the trace context of the launch and a *copy* of the run context; the
    identity service receives asdict(pipeline_cfg.run_space); run_space_start / run_space_end bracket the loop exactly once with
    truthful counts also after a failing run (these obligations are stated by the C17 harness and re-discharged here).
  * spec id, inspect == trace: inspection.builder._compute_run_space_spec_id(block) and RunSpaceIdentityService.compute(asdict(parse(block)))
    are executed symbolically with the parser, asdict, the RSCF canonical form and the domain-separated hash as shared abstract
    functions; obligation: the two ids are the same term.
  * RunSpaceIdentityService._rscf_v1: reads no ambient state and its bytes do not depend on mapping order (structural induction:
    normalize()'s contract is the hypothesis at its recursive calls).
  * RunSpaceLaunchManager.create_launch: explicit id verbatim; with an idempotency key the id is a function of (inputs id or spec id, key)
    and reads no clock / random source; attempt recorded.
Bounded stand-in (labelled bounded): real launches vs standalone runs, cosmetic rewrites / mutations, launch-id modes, source-file
edits (replay/c09_bounded.py).
"""
from __future__ import annotations
import sys, os
import z3
from .common import *
from . import C17
from pyvc.core import Sq

PROP = "C09"
CLI = C17.CLI
BUILDER = "semantiva/inspection/builder.py"
IDENT = "semantiva/trace/runtime/run_space_identity.py"
LAUNCH = "semantiva/trace/runtime/run_space_launch.py"
I_ = core.I

Parse = z3.Function("ParseRunSpaceBlock", V, core.VSet, core.VMap, I_)      # the parser: a function of the block's content
Asdict = z3.Function("Asdict", I_, I_)
Rscf = z3.Function("RscfV1Bytes", V, z3.StringSort())
Hash = z3.Function("DomainHash", V, V, z3.StringSort())


class RunSpec(C17.Spec):
    """the C17 harness of cli._run with the per-run obligations of C09 stated inside the loop"""

    def __init__(self):
        super().__init__()
        self.prop = PROP
        self.obj_methods = dict(self.obj_methods, set_run_metadata=self.m_set_run_metadata, set_run_space_fk=self.m_noop)

    def k0(self):
        return fresh("any_key")

    def run_i(self, I):
        st = I.st
        i = st.ghost["executed"]            # = idx at this point of the iteration (loop invariant)
        return z3.Select(z3.Select(self.HS.larr, V.id(self.RUNS)), i)

    def content_is_overlay(self, I, d, k):
        """d's content at key k = --context overlaid with run i"""
        st = I.st
        h = st.h
        ri = self.run_i(I)
        cd, cv = z3.Select(ddom(h, self.CTX), k), z3.Select(dval(h, self.CTX), k)
        rd, rv = z3.Select(ddom(self.HS, ri), k), z3.Select(dval(self.HS, ri), k)
        return z3.And(z3.Select(ddom(h, d), k) == z3.Or(cd, rd),
                      z3.Implies(z3.Or(cd, rd), z3.Select(dval(h, d), k) == z3.If(rd, rv, cv)))

    def instantiate_override(self, I, ci, args, kwargs, star):
        if ci.name == "ContextType" and args and self.CTX is not None and getattr(self, "ITER_NALLOC", None) is not None:
            st = I.st
            rc = I.lift(args[0])
            k = self.k0()
            self.oblige(I, "run-loop/context-of-run-i-is-created-in-iteration-i", z3.And(V.is_ref(rc), V.id(rc) > self.ITER_NALLOC),
                        meta={"witness": "context-carried-over"})
            self.oblige(I, "run-loop/context-of-run-i=--context-overlaid-with-plan[i](nothing-else)", self.content_is_overlay(I, rc, k), hints=[k],
                        meta={"witness": "context-carried-over"})
            st.ghost["run_context"] = rc
        return super().instantiate_override(I, ci, args, kwargs, star)

    def m_set_run_metadata(self, I, recv, args, kwargs, star):
        st = I.st
        md = I.lift(args[0])
        if self.CTX is None or getattr(self, "ITER_NALLOC", None) is None:
            return NONE
        if I.tag(md) == "ref":
            h = st.h
            get = lambda name: z3.Select(dval(h, md), vstr(name))
            self.oblige(I, "run-loop/metadata-carries-the-0-based-index-of-the-run", z3.And(z3.Select(ddom(h, md), vstr("run_space_index")),
                                                                                         get("run_space_index") == V.int(st.ghost["executed"])))
            rsc = get("run_space_context")
            k = self.k0()
            self.oblige(I, "run-loop/metadata-context-is-a-fresh-copy-of-the-planned-context",
                        z3.And(V.is_ref(rsc), V.id(rsc) > self.ITER_NALLOC, self.content_is_overlay(I, rsc, k)), hints=[k], meta={"witness": "context-carried-over"})
            st.ghost["metadata_context"] = rsc
        return NONE

    def m_process(self, I, recv, args, kwargs, star):
        st = I.st
        rc, mc = st.ghost.get("run_context"), st.ghost.get("metadata_context")
        if rc is not None and mc is not None:
            self.oblige(I, "run-loop/recorded-context-is-not-the-live-context-object", V.id(rc) != V.id(mc))
        return super().m_process(I, recv, args, kwargs, star)

    def m_compute(self, I, recv, args, kwargs, star):
        self.oblige(I, "launch/identity-computed-from-asdict(pipeline_cfg.run_space)", z3.BoolVal(getattr(self, "ASDICT_ARG", None) is not None
                                                                                               and self.ASDICT_ARG.eq(self.RUN_SPACE)
                                                                                               and I.lift(args[0]).eq(self.ASDICT_RESULT)))
        return super().m_compute(I, recv, args, kwargs, star)

    def call_override(self, I, f, args, kwargs, star):
        fn = f.func if isinstance(f, O.HBound) else f
        if isinstance(fn, O.HFunc) and fn.node.name == "asdict":
            self.ASDICT_ARG = I.lift(args[0])
            self.ASDICT_RESULT = self.fresh_dict(I)
            return self.ASDICT_RESULT
        return super().call_override(I, f, args, kwargs, star)

    def ext_call(self, I, dotted, args, kwargs, star):
        if dotted == "dataclasses.asdict":
            self.ASDICT_ARG = I.lift(args[0])
            self.ASDICT_RESULT = self.fresh_dict(I)
            return self.ASDICT_RESULT
        return super().ext_call(I, dotted, args, kwargs, star)


def h_run_loop(spec):
    s2 = RunSpec()
    s2.obligations, s2._seen, s2.undecided, s2.functions, s2.used_contracts = spec.obligations, spec._seen, spec.undecided, spec.functions, spec.used_contracts
    s2.ARGS = None
    C17.FLAGS.update(validate=False, dry_run=False)      # the gates are C17's; this harness looks at launches that execute
    orig_loop = s2.loop

    def loop(relpath, qual, ordinal, ls):
        # remember the allocation counter at the start of an (arbitrary) iteration of the run loop
        if ls.frame_except is not None and getattr(ls.frame_except, "__name__", "") == "run_frame":
            inner = ls.frame_except

            def run_frame(c):
                s2.ITER_NALLOC = c.st.nalloc
                s2.HS = c.h0
                return inner(c)
            ls.frame_except = run_frame
        return orig_loop(relpath, qual, ordinal, ls)
    s2.loop = loop
    s2.ITER_NALLOC = None
    C17.h_run(s2, "[launch]")
    spec.path_count += s2.path_count
    spec.assumptions |= s2.assumptions


h_run_loop.shards = 16


# ----------------------------------------------------------------------------------------------------------
class IdSpec(PureLibMixin, BaseSpec):
    def __init__(self):
        super().__init__(PROP)
        self.inline_files |= {BUILDER, IDENT, LAUNCH}
        self.depth_normalize = 0
        self.DIGEST = {}
        self.abstract_rscf = True
        self.assumptions |= {
            "parse_pipeline_config stores _parse_run_space_block(block) as pipeline_cfg.run_space (read, not proved); the parser and dataclasses.asdict are deterministic functions of the block's content",
            "bytes are modelled as text (str.encode is the identity)",
        }

    def call_override(self, I, f, args, kwargs, star):
        st = I.st
        fn = f.func if isinstance(f, O.HBound) else f
        if not isinstance(fn, O.HFunc):
            return MISSING
        name = fn.node.name
        if name == "_normalize_run_space":
            return z3.Function("NormalizeRawBlock", V, V)(I.lift(args[0]))
        if name == "_parse_run_space_block":
            b = I.lift(args[0])
            return V.obj(Parse(b, ddom(st.h, b), dval(st.h, b)))
        if name == "asdict":
            return V.obj(Asdict(V.oid(I.lift(args[0]))))
        if name == "_rscf_v1" and self.abstract_rscf:
            return vstr(Rscf(I.lift(args[-1])))
        if name == "_fingerprints":
            return st.new_list()
        if name == "normalize" and not self.abstract_rscf:
            self.depth_normalize += 1
            if self.depth_normalize > 1:
                # induction hypothesis: normalize(v) is a function of v's content (never of a mapping's order)
                v = I.lift(args[0])
                self.depth_normalize -= 1
                return z3.Function("NormOf", V, V)(v)
            try:
                return MISSING
            finally:
                pass
        return MISSING

    def ext_call(self, I, dotted, args, kwargs, star):
        st = I.st
        if dotted == "dataclasses.asdict":
            return V.obj(Asdict(V.oid(I.lift(args[0]))))
        if dotted == "hashlib.sha256" and not args:
            d = V.obj(fresh("digest", I_))
            self.DIGEST[str(V.oid(d))] = []
            return d
        if dotted == "uuid.uuid7":
            I.st.reads.add(("ambient", dotted))
            return V.obj(fresh("uuid7", I_))
        if dotted == "json.dumps" and not self.abstract_rscf:
            # JSON text of a value as a function of that value's own content: for a mapping its key set, values and key ORDER
            # (no sort_keys here), for a list its elements; nested values are opaque content-determined values (hypothesis)
            x = I.lift(args[0])
            if I.tag(x) == "ref" and I.kind(x) == K_DICT:
                r = V.id(x)
                h = st.h
                return vstr(z3.Function("JsonOfMapping", core.VSet, core.VMap, core.VArr, I_, z3.StringSort())(
                    z3.Select(h.ddom, r), z3.Select(h.dval, r), z3.Select(h.dord, r), z3.Select(h.dlen, r)))
            if I.tag(x) == "ref" and I.kind(x) == K_LIST:
                r = V.id(x)
                return vstr(z3.Function("JsonOfList", core.VArr, I_, z3.StringSort())(z3.Select(st.h.larr, r), z3.Select(st.h.llen, r)))
            return vstr(z3.Function("JsonOfScalar", V, z3.StringSort())(x))
        return super().ext_call(I, dotted, args, kwargs, star)

    def obj_method_call(self, I, recv, name, args, kwargs, star):
        if name == "encode":
            return recv
        if name == "update":
            # incremental digest: the parts fed so far are ghost state of the digest object
            self.DIGEST.setdefault(str(V.oid(recv)), []).append(I.lift(args[0]))
            return NONE
        if name == "hexdigest":
            parts = self.DIGEST.get(str(V.oid(recv)))
            if parts is not None and len(parts) == 2:
                return vstr(Hash(parts[0], parts[1]))       # sha256(prefix || payload): the same function _hash computes
        return super().obj_method_call(I, recv, name, args, kwargs, star)

    def obj_attr(self, I, v, name):
        if name in ("update",):
            return O.HMeth(v, name)
        if name == "hex":
            return vstr(z3.Function("HexStr", I_, z3.StringSort())(V.oid(v)))
        return super().obj_attr(I, v, name)

    def binop_unknown(self, I, op, a, b):
        if type(op).__name__ == "Add":
            return V.obj(z3.Function("BytesCat", V, V, I_)(I.lift(a), I.lift(b)))
        return super().binop_unknown(I, op, a, b)


def h_spec_id_inspect_equals_trace(spec):
    s2 = IdSpec()
    s2.obligations, s2._seen, s2.undecided, s2.functions, s2.used_contracts = spec.obligations, spec._seen, spec.undecided, spec.functions, spec.used_contracts
    fn_info(s2, BUILDER, "_compute_run_space_spec_id")
    fn_info(s2, IDENT, "RunSpaceIdentityService.compute")

    def body(I):
        st = I.st
        block = in_dict(I, "run_space_block")
        out1 = E.execute(I, E.hfunc(BUILDER, "_compute_run_space_spec_id"), [block])
        ci, f = E.method_of(I, IDENT, "RunSpaceIdentityService", "compute")
        svc = st.new_inst(ci)
        runtime_spec = V.obj(Asdict(Parse(block, ddom(st.h, block), dval(st.h, block))))     # asdict(pipeline_cfg.run_space)
        out2 = E.execute(I, f, [svc, runtime_spec], {"base_dir": NONE})
        if out1[0] != "return" or out2[0] != "return":
            # the inspection side may give up (the caller maps an exception to spec_id None) only if the runtime side does too
            s2.oblige(I, "spec-id/inspect-fails-only-where-the-launch-fails", z3.BoolVal(out1[0] == out2[0]), meta={"inspect": repr(out1)[:300], "launch": repr(out2)[:300]})
            return
        rt_id = fld(st.h, out2[1], "spec_id")
        s2.oblige(I, "spec-id/inspect-output==trace(run_space_start)", I.lift(out1[1]) == rt_id, meta={"witness": "inspect-vs-trace"})
        bad = sorted(r for r in st.reads if r[0] == "ambient")
        s2.oblige(I, "spec-id/frame:no-ambient-reads", z3.BoolVal(not bad), meta={"reads": [str(r) for r in bad]})
    E.run_function(s2, "spec_id[inspect-vs-launch]", body)
    spec.path_count += s2.path_count
    spec.assumptions |= s2.assumptions


def h_rscf(spec):
    """_rscf_v1 on an arbitrary value: one level of normalize() is executed, the recursive calls enter through the hypothesis"""
    s2 = IdSpec()
    s2.abstract_rscf = False
    s2.obligations, s2._seen, s2.undecided, s2.functions, s2.used_contracts = spec.obligations, spec._seen, spec.undecided, spec.functions, spec.used_contracts
    fn_info(s2, IDENT, "RunSpaceIdentityService._rscf_v1")

    def body(I):
        st = I.st
        ci, f = E.method_of(I, IDENT, "RunSpaceIdentityService", "_rscf_v1")
        svc = st.new_inst(ci)
        c = st.choose(4, "shape of the value")
        if c == 0:
            obj = in_dict(I, "obj")
        elif c == 1:
            obj = in_list(I, "obj")
            st.assume(z3.Select(st.h.llen, V.id(obj)) >= 0)
        elif c == 2:
            obj = vstr(z3.String("obj"))
        else:
            obj = z3.Const("obj", V)
            st.assume(z3.Or(obj == NONE, V.is_int(obj), V.is_bool(obj), V.is_real(obj)))
        s2.depth_normalize = 0
        out = E.execute(I, f, [svc, obj])
        shape = ["mapping", "list", "string", "scalar"][c]
        if out[0] != "return":
            s2.oblige(I, f"_rscf_v1[{shape}]/never-raises", z3.BoolVal(False), meta={"exc": repr(out[1])})
            return
        bad = sorted(r for r in st.reads if r[0] == "ambient")
        s2.oblige(I, f"_rscf_v1[{shape}]/frame:no-ambient-reads", z3.BoolVal(not bad), meta={"reads": [str(r) for r in bad]})
        oracles = sorted(order_oracles_in(z3.simplify(out[1]))) if is_v(out[1]) else ["<host value>"]
        s2.oblige(I, f"_rscf_v1[{shape}]/order:bytes-independent-of-mapping-order", z3.BoolVal(not oracles), meta={"oracles": oracles, "witness": "key-order", "term": str(out[1])[:1500] if is_v(out[1]) else ""})
    E.run_function(s2, "_rscf_v1", body)
    spec.path_count += s2.path_count
    spec.assumptions |= s2.assumptions


def h_create_launch(spec):
    s2 = IdSpec()
    s2.obligations, s2._seen, s2.undecided, s2.functions, s2.used_contracts = spec.obligations, spec._seen, spec.undecided, spec.functions, spec.used_contracts
    fn_info(s2, LAUNCH, "RunSpaceLaunchManager.create_launch")

    def body(I):
        st = I.st
        ci, f = E.method_of(I, LAUNCH, "RunSpaceLaunchManager", "create_launch")
        mgr = st.new_inst(ci)
        spec_id = vstr(z3.String("spec_id"))
        has_inputs, has_provided, has_key = (st.choose(2, n_) == 1 for n_ in ("inputs id given", "launch id given", "idempotency key given"))
        inputs_id = vstr(z3.String("inputs_id")) if has_inputs else NONE
        provided = vstr(z3.String("provided")) if has_provided else NONE
        key = vstr(z3.String("key")) if has_key else NONE
        attempt = vint(z3.Int("attempt"))
        out = E.execute(I, f, [mgr], dict(run_space_spec_id=spec_id, run_space_inputs_id=inputs_id, provided_launch_id=provided,
                                          idempotency_key=key, attempt=attempt))
        if out[0] != "return":
            s2.oblige(I, "create_launch/never-raises", z3.BoolVal(False))
            return
        h = st.h
        lid, att = z3.simplify(fld(h, out[1], "id")), z3.simplify(fld(h, out[1], "attempt"))
        s2.oblige(I, "create_launch/attempt-recorded", att == attempt)
        use_provided = z3.And(z3.BoolVal(has_provided), z3.Length(z3.String("provided")) > 0)
        use_key = z3.And(z3.Not(use_provided), z3.BoolVal(has_key), z3.Length(z3.String("key")) > 0)
        s2.oblige(I, "create_launch/explicit-id-used-verbatim", z3.Implies(use_provided, lid == vstr(z3.String("provided"))))
        ambient = sorted(r for r in st.reads if r[0] == "ambient")
        s2.oblige(I, "create_launch/clock-or-random-source-read-only-without-id-and-key", z3.Implies(z3.Or(use_provided, use_key), z3.BoolVal(not ambient)),
                  meta={"reads": [str(r) for r in ambient]})
        if not ambient:
            # the id is one term over the inputs: equal (basis, key) give the equal id; it mentions nothing else
            names = {n_ for n_ in _consts(lid) if not n_.startswith("bytes!")}
            allowed = {"spec_id", "inputs_id", "key", "provided"}
            s2.oblige(I, "create_launch/id-is-a-function-of(explicit-id | inputs-or-spec-id,key)", z3.BoolVal(names <= allowed), meta={"mentions": sorted(names - allowed)})
            if st.feasible(use_key):
                basis = "inputs_id" if has_inputs else "spec_id"
                s2.oblige(I, "create_launch/idempotent-id-depends-on-key-and-basis", z3.Implies(use_key, z3.BoolVal("key" in names and (basis in names or (has_inputs and "spec_id" in names)))),
                          meta={"mentions": sorted(names)})
    E.run_function(s2, "create_launch", body)
    spec.path_count += s2.path_count
    spec.assumptions |= s2.assumptions


def _feasible(st, f):
    return st.feasible(f)


def _consts(t):
    out, seen, stack = set(), set(), [t]
    while stack:
        x = stack.pop()
        if x.get_id() in seen:
            continue
        seen.add(x.get_id())
        if z3.is_const(x) and x.decl().kind() == z3.Z3_OP_UNINTERPRETED:
            out.add(x.decl().name())
        stack.extend(x.children())
    return out


HasSrc = z3.Function("BlockHasReadableSource", I_, core.B)
Count = z3.Function("SourcesBefore", I_, I_)
UriOf = z3.Function("UriOfSource", V, V)
FPOf = z3.Function("FingerprintOf", V, I_)


class FpSpec(PureLibMixin, BaseSpec):
    def __init__(self):
        super().__init__(PROP)
        self.inline |= {(IDENT, "RunSpaceIdentityService._fingerprints")}
        self.skolem_goals = True
        self.assumptions |= {"_fingerprint_source(source) returns (None, '', None) when the source has no string path and (uri, digest, size) of the file otherwise (file system: bounded tier only)"}

    def call_override(self, I, f, args, kwargs, star):
        fn = f.func if isinstance(f, O.HBound) else f
        if isinstance(fn, O.HFunc) and fn.node.name == "_fingerprint_source":
            src = I.lift(args[-2])
            u = UriOf(src)
            I.st.assume(z3.Or(u == NONE, V.is_str(u)))
            return vtup([u, vstr(fresh("digest", z3.StringSort())), vint(fresh("size", I_))])
        return MISSING

    def instantiate_override(self, I, ci, args, kwargs, star):
        if ci.name == "Fingerprint":
            return V.obj(FPOf(I.lift(kwargs["uri"])))
        return MISSING

    def ext_call(self, I, dotted, args, kwargs, star):
        if dotted == "pathlib.Path":
            return V.obj(fresh("path", I_))
        return super().ext_call(I, dotted, args, kwargs, star)


def h_fingerprints(spec):
    """_fingerprints: every block with a readable source contributes exactly one fingerprint, in block order, wherever it stands
    in the list; nothing else is recorded (loop invariant over a counting function of the blocks seen)"""
    s2 = FpSpec()
    s2.obligations, s2._seen, s2.undecided, s2.functions, s2.used_contracts = spec.obligations, spec._seen, spec.undecided, spec.functions, spec.used_contracts
    fn_info(s2, IDENT, "RunSpaceIdentityService._fingerprints")

    def body(I):
        st = I.st
        ci, f = E.method_of(I, IDENT, "RunSpaceIdentityService", "_fingerprints")
        svc = st.new_inst(ci)
        sp = in_dict(I, "run_space_spec")
        blocks = in_list(I, "blocks")
        st.assume(z3.Select(ddom(st.h, sp), vstr("blocks")))
        st.assume(z3.Select(dval(st.h, sp), vstr("blocks")) == blocks)
        n = z3.Select(st.h.llen, V.id(blocks))
        st.assume(n >= 1)
        hs = st.h.copy()
        blk = lambda j: z3.Select(z3.Select(hs.larr, V.id(blocks)), j)
        is_dict = lambda v, h=hs: z3.And(V.is_ref(v), z3.Select(h.kind, V.id(v)) == K_DICT)
        srcv = lambda j: z3.If(z3.Select(ddom(hs, blk(j)), vstr("source")), z3.Select(dval(hs, blk(j)), vstr("source")), NONE)
        defn = lambda j: HasSrc(j) == z3.And(is_dict(blk(j)), is_dict(srcv(j)), UriOf(srcv(j)) != NONE)
        wf = lambda j: z3.And(z3.Implies(V.is_ref(blk(j)), V.id(blk(j)) <= 0), z3.Implies(V.is_ref(srcv(j)), V.id(srcv(j)) <= 0))
        j = z3.Int("j!fp")
        st.assume(z3.ForAll([j], z3.Implies(z3.And(j >= 0, j < n), z3.And(defn(j), wf(j)))))
        st.list_instantiators.append(lambda lid, idx: z3.Implies(z3.And(idx >= 0, idx < n), z3.And(defn(idx), wf(idx))))
        st.assume(Count(0) == 0)
        st.assume(z3.ForAll([j], z3.Implies(j >= 0, Count(j + 1) == Count(j) + z3.If(HasSrc(j), 1, 0)), patterns=[Count(j + 1)]))
        st.assume(z3.ForAll([j], z3.Implies(j >= 0, Count(j) >= 0), patterns=[Count(j)]))
        a_, b_ = z3.Int("a!mono"), z3.Int("b!mono")
        # lemma about the spec function (induction on b - a; stated, not re-proved): the count is monotone
        st.assume(z3.ForAll([a_, b_], z3.Implies(z3.And(a_ >= 0, a_ <= b_), Count(a_) <= Count(b_)), patterns=[z3.MultiPattern(Count(a_), Count(b_))]))
        s2.assumptions.add("SourcesBefore (the counting spec function of _fingerprints' invariant) is monotone - a lemma by induction, stated as an axiom")

        def inv(c):
            Eq = c.st.list_sq(c.var("entries"))
            jj = z3.Int("j!inv")
            return z3.And(Eq.n == Count(c.i), Count(c.i + 1) == Count(c.i) + z3.If(HasSrc(c.i), 1, 0),
                          z3.ForAll([jj], z3.Implies(z3.And(jj >= 0, jj < c.i, HasSrc(jj)), Eq.at(Count(jj)) == V.obj(FPOf(UriOf(srcv(jj)))))))
        s2.loops.clear()
        s2.loop(IDENT, "RunSpaceIdentityService._fingerprints", 1, LoopSpec(inv, modifies_heap=True, frame_except=lambda c: [c.var("entries")]))
        out = E.execute(I, f, [svc, sp, NONE])
        if out[0] != "return":
            s2.oblige(I, "_fingerprints/never-raises(file-access-abstract)", z3.BoolVal(False), meta={"exc": repr(out[1])})
            return
        Eq = st.list_sq(out[1])
        s2.oblige(I, "_fingerprints/one-entry-per-block-with-a-readable-source(wherever-it-stands)", Eq.n == Count(n), meta={"witness": "fingerprints"}, hints=[n])
        k = fresh("any_block", I_)
        s2.oblige(I, "_fingerprints/entries-are-the-sources'-fingerprints-in-block-order",
                  z3.Implies(z3.And(k >= 0, k < n, HasSrc(k)), Eq.at(Count(k)) == V.obj(FPOf(UriOf(srcv(k))))), meta={"witness": "fingerprints"}, hints=[k])
    E.run_function(s2, "_fingerprints", body)
    spec.path_count += s2.path_count
    spec.assumptions |= s2.assumptions


TASKS = [h_spec_id_inspect_equals_trace, h_rscf, h_create_launch, h_fingerprints, h_run_loop]


def factory():
    s = BaseSpec(PROP)
    return s


def replay(ob):
    payload = {"obligation": ob.name, "solver": ob.backend, "model": report.model_summary(ob), "meta": getattr(ob, "meta", {}),
               "goal": ob.goal if isinstance(ob.goal, str) else str(ob.goal)[:400]}
    script = os.path.join(report.ROOT, "replay", "c09_bounded.py")
    res, proc = report.native_json(script, {"tier": "quick", "seed": 0})
    fails = (res or {}).get("failures", [])
    w = (getattr(ob, "meta", {}) or {}).get("witness")
    if w == "inspect-vs-trace":
        fails = [f for f in fails if f.get("class", "").startswith("spec-id:inspect-differs")]
    elif w == "context-carried-over":
        fails = [f for f in fails if "context" in f.get("class", "") or "standalone" in f.get("class", "")]
    payload["native"] = {"failures": fails[:5]}
    return bool(fails), payload


def main(tier="quick", seed=0):
    run = report.Run(PROP, tier, seed)
    spec = factory()
    faults = E.run_parallel(spec, factory, TASKS, timeout_ms=10000 if tier == "quick" else 30000)
    if faults:
        run.engine_fault = faults[0][-1500:]
    generic_refutations(run, spec, PROP, replay)
    run_bounded(run, PROP, "c09_bounded.py", tier)
    return run.finish(spec, "proof", "run loop of cli._run, spec-id composition, _rscf_v1 frame/order, create_launch; run equivalence and file identities bounded; see DESIGN.md C09")


if __name__ == "__main__":
    t, s = tier_and_seed()
    sys.exit(main(t, s))
