"""C07 — what a Semantic Execution Record says about its node is true.

Functions under contract (real code, re-read on every run):
  semantiva/trace/delta_collector.py :: DeltaCollector.compute, _stable_equal
  semantiva/execution/orchestrator/orchestrator.py :: _build_pre_checks, _build_post_checks, _type_check_entry,
        _normalize_expected, _extract_context_delta_lists, _resolve_params_with_sources, _context_snapshot, _data_summary,
        _iso_now, _start_timing, _end_timing
  semantiva/trace/drivers/jsonl.py :: JsonlTraceDriver._now_timestamp
Top-level postconditions are transcribed from the property statement.
Parameter provenance (h_params_sources): _resolve_params_with_sources is executed on an arbitrary node configuration, context view,
required-key list and processor parameter-name list; its loops are cut by invariants over PrefixSet(sequence, i) (spec function: the
set of the first i elements); postcondition per declared parameter p: recorded iff resolvable, value = JsonSafe(config > context >
signature default), source label = the channel the value came from.  _default_for and serialize_json_safe are abstract (DefaultOf,
JsonSafe).  Bounded tier (labelled bounded): replay/c07_bounded.py on real SERs.
"""
from __future__ import annotations
import sys, os, json
import z3
from .common import *
from pyvc.interp import frame_eq
from pyvc.core import Sq, SortedArr, SetOfArr

PROP = "C07"
ORCH = "semantiva/execution/orchestrator/orchestrator.py"
DELTA = "semantiva/trace/delta_collector.py"
JSONL = "semantiva/trace/drivers/jsonl.py"
UTILS = "semantiva/trace/_utils.py"

I_ = core.I
SerOk = z3.Function("SerOk", V, core.B)               # serialize(v) succeeds
SerId = z3.Function("SerId", V, I_)                   # its result (a bytes object, identified by content)


def Ser(v):
    return V.obj(SerId(v))
JsonSafe = z3.Function("JsonSafe", V, V)              # serialize_json_safe(v)
Sha = z3.Function("Sha", V, V)
IsoOf = z3.Function("IsoOf", I_, z3.StringSort())     # ISO-8601 rendering of wall-clock fields (ms count), injective
dt_fields = z3.Function("dt_fields", I_, I_)
dt_aware = z3.Function("dt_aware", I_, core.B)
UTC = z3.Int("UTC_NOW_MS")                            # the true UTC instant of the clock read
TZ = z3.Int("TZ_OFFSET_MS")                           # host zone offset (local = UTC + TZ)


PyEq = z3.Function("PyEq", V, V, core.B)              # Python == on arbitrary (user) values: pure, deterministic


def stable_eq(I, a, b):
    return z3.If(z3.And(SerOk(a), SerOk(b)), Ser(a) == Ser(b), PyEq(a, b))


class Spec(BaseSpec):
    def __init__(self):
        super().__init__(PROP)
        self.inline_files |= {DELTA}
        self.inline |= {(ORCH, q) for q in (
            "SemantivaOrchestrator._type_check_entry", "SemantivaOrchestrator._normalize_expected",
            "SemantivaOrchestrator._format_expected_type", "SemantivaOrchestrator._extract_context_delta_lists",
            "SemantivaOrchestrator._iso_now")}
        self.obj_methods = {
            "input_data_type": self.m_data_type("InType"),
            "output_data_type": self.m_data_type("OutType"),
        }
        self.obj_missing = {"invalid_parameters", "get_default_params", "shape", "to_dict"}
        self.use_stable_contract = True
        self.assumptions |= {
            "== on arbitrary user values is a pure deterministic relation (PyEq); serialize(v) / sha256_bytes / safe_repr / serialize_json_safe are deterministic functions of their argument that raise at most Exception (uninterpreted Ser/SerOk/Sha/JsonSafe)",
            "clock contract: datetime.now() (naive) = UTC instant + host zone offset; datetime.now(timezone.utc) / utcnow() = UTC instant; time.time/process_time do not step backwards",
            "isoformat renders wall-clock fields injectively (IsoOf); an aware UTC datetime renders with suffix +00:00",
        }

    # ---- abstract methods of opaque processors ---------------------------------------------------
    def m_data_type(self, fname):
        f = z3.Function(fname, I_, V)

        def h(I, recv, args, kwargs, star):
            return f(V.oid(recv))
        return h

    def m_missing(self, I, recv, args, kwargs, star):
        raise OutsideSubset("unexpected call")

    def obj_truthy(self, I, v):
        return z3.Function("ObjTruthy", I_, core.B)(V.oid(v))

    # ---- assumed library / repo helper contracts --------------------------------------------------
    def call_override(self, I, f, args, kwargs, star):
        if isinstance(f, O.HFunc) and f.module.relpath == UTILS:
            nm = f.qual
            a0 = I.lift(args[0]) if args else None
            if nm == "serialize":
                if I.st.decide(SerOk(a0), "serialize-ok"):
                    return Ser(a0)
                raise PyRaise(self.some_exception(I, "serialize"))
            if nm == "sha256_bytes":
                return Sha(a0)
            if nm == "safe_repr":
                return vstr(core.ReprOf(a0))
            if nm == "serialize_json_safe":
                return JsonSafe(a0)
        if isinstance(f, O.HFunc) and f.key == (DELTA, "_stable_equal") and self.use_stable_contract:
            a, b = I.lift(args[0]), I.lift(args[1])
            self.used_contracts.add(f.key)
            return vbool(stable_eq(I, a, b))
        if isinstance(f, O.HFunc) and f.key in ((DELTA, "_len_or_none"), (DELTA, "_rows_or_none")):
            # pure summary helpers: proved separately to return None or an int and never raise
            self.used_contracts.add(f.key)
            r = fresh("summary")
            I.st.assume(z3.Or(r == NONE, V.is_int(r)))
            return r
        return MISSING

    def obj_len(self, I, v):
        # len() of a user object: some non-negative size, or any Exception (TypeError when absent, OverflowError, ...)
        st = I.st
        if st.choose(2, "len ok?") == 0:
            n = fresh("len", I_)
            st.assume(n >= 0)
            return vint(n)
        raise PyRaise(self.some_exception(I, "len(obj)"))

    def some_exception(self, I, origin):
        c = fresh("exc_cls", I_)
        ex = bcls(Exception)
        I.st.mention(ex, target=True)
        I.st.symcls.append(c)
        I.st.assume(issub(c, ex.cid))
        return O.HExc(c, origin=("assumed", origin))

    # ---- clock model ----------------------------------------------------------------------------------
    def ext_call(self, I, dotted, args, kwargs, star):
        st = I.st
        if dotted in ("datetime.datetime.now", "datetime.datetime.utcnow"):
            o = fresh("dt", I_)
            tz = args[0] if args else kwargs.get("tz")
            if dotted.endswith("utcnow"):
                st.assume(dt_fields(o) == UTC)
                st.assume(z3.Not(dt_aware(o)))
            elif tz is None or (is_v(tz) and I.tag(tz) == "none"):
                st.assume(dt_fields(o) == UTC + TZ)
                st.assume(z3.Not(dt_aware(o)))
            else:
                if not (isinstance(tz, O.HExt) and tz.dotted in ("datetime.timezone.utc", "datetime.UTC")):
                    raise OutsideSubset("datetime.now with a zone other than UTC")
                st.assume(dt_fields(o) == UTC)
                st.assume(dt_aware(o))
            st.reads.add(("ambient", "clock"))
            return V.obj(o)
        if dotted in ("datetime.datetime.fromtimestamp", "datetime.datetime.utcfromtimestamp"):
            # a clock reading rendered as a datetime: naive LOCAL time unless a zone is given (the model has one instant: every
            # clock reading of the call denotes UTC_NOW)
            o = fresh("dt", I_)
            tz = (args[1] if len(args) > 1 else kwargs.get("tz"))
            if dotted.endswith("utcfromtimestamp"):
                st.assume(dt_fields(o) == UTC)
                st.assume(z3.Not(dt_aware(o)))
            elif tz is None or (is_v(tz) and I.tag(tz) == "none"):
                st.assume(dt_fields(o) == UTC + TZ)
                st.assume(z3.Not(dt_aware(o)))
            else:
                if not (isinstance(tz, O.HExt) and tz.dotted in ("datetime.timezone.utc", "datetime.UTC")):
                    raise OutsideSubset("datetime.fromtimestamp with a zone other than UTC")
                st.assume(dt_fields(o) == UTC)
                st.assume(dt_aware(o))
            return V.obj(o)
        if dotted in ("time.time", "time.process_time"):
            st.reads.add(("ambient", "clock"))
            n = st.ghost.get("clock_reads_" + dotted, 0)
            st.ghost["clock_reads_" + dotted] = n + 1
            t = z3.Real(f"{dotted}#{n}")
            if n > 0:
                st.assume(t >= z3.Real(f"{dotted}#{n - 1}"))
            return V.real(t)
        if dotted == "builtins.int" :
            pass
        return super().ext_call(I, dotted, args, kwargs, star)

    def ext_value(self, I, dotted):
        return None

    def obj_method_call(self, I, recv, name, args, kwargs, star):
        st = I.st
        o = V.oid(recv)
        if name == "isoformat":
            return vstr(z3.If(dt_aware(o), z3.Concat(IsoOf(dt_fields(o)), z3.StringVal("+00:00")), IsoOf(dt_fields(o))))
        if name == "replace":
            if set(kwargs) == {"tzinfo"}:
                n = fresh("dt", I_)
                st.assume(dt_fields(n) == dt_fields(o))
                tzv = kwargs["tzinfo"]
                if is_v(tzv) and I.tag(tzv) == "none":
                    st.assume(z3.Not(dt_aware(n)))
                else:
                    st.assume(dt_aware(n))
                return V.obj(n)
            raise OutsideSubset("datetime.replace with other fields")
        if name == "astimezone":
            n = fresh("dt", I_)
            st.assume(dt_fields(n) == z3.If(dt_aware(o), dt_fields(o), dt_fields(o) - TZ))
            st.assume(dt_aware(n))
            return V.obj(n)
        if name == "strftime":
            raise OutsideSubset("strftime is not modelled")
        return super().obj_method_call(I, recv, name, args, kwargs, star)

    def obj_attr(self, I, v, name):
        if name in ("isoformat", "replace", "astimezone", "strftime"):
            return O.HMeth(v, name)
        return super().obj_attr(I, v, name)

    def binop_unknown(self, I, op, a, b):
        raise OutsideSubset("operator on unknown values")

    def eq_override(self, I, a, b):
        if is_v(a) and is_v(b) and I.tag(a, cheap=True) is None and I.tag(b, cheap=True) is None:
            return PyEq(a, b)
        if is_v(a) and is_v(b) and I.tag(a, cheap=True) == "obj" and I.tag(b, cheap=True) == "obj":
            return a == b
        return None


# ==================================================================================================
# harnesses
# ==================================================================================================
def orch_self(I):
    ci = cls_of(I, ORCH, "SemantivaOrchestrator")
    return in_inst(I, "orch", ci)


def h_stable_equal(spec):
    fn_info(spec, DELTA, "_stable_equal")

    def body(I):
        a, b = in_val(I, "a"), in_val(I, "b")
        spec.use_stable_contract = False
        try:
            out = E.execute(I, E.hfunc(DELTA, "_stable_equal"), [a, b])
        finally:
            spec.use_stable_contract = True
        if out[0] == "return":
            spec.oblige(I, "result=StableEq", out[1] == vbool(stable_eq(I, a, b)))
        else:
            spec.oblige(I, "never-raises", z3.BoolVal(False))
    E.run_function(spec, "_stable_equal", body)


def h_compute(spec):
    fn_info(spec, DELTA, "DeltaCollector.compute")
    # loop over the changed keys only writes the fresh key_summaries dict
    spec.loop(DELTA, "DeltaCollector.compute", 1, LoopSpec(lambda c: z3.BoolVal(True), modifies_heap=True,
                                                          frame_except=lambda c: [c.var("key_summaries")]))

    def body(I):
        st = I.st
        ci = cls_of(I, DELTA, "DeltaCollector")
        me = in_inst(I, "collector", ci, {"enable_hash": vbool(z3.Bool("enable_hash")), "enable_repr": vbool(z3.Bool("enable_repr"))})
        pre = in_dict(I, "pre_ctx")
        post = in_dict(I, "post_ctx")
        req = in_list(I, "required_keys")
        h0 = st.h.copy()
        _, f = E.method_of(I, DELTA, "DeltaCollector", "compute")
        out = E.execute(I, f, [me, pre, post, req if st.choose(2, "required None?") else NONE])
        if out[0] != "return":
            spec.oblige(I, "never-raises", z3.BoolVal(False))
            return
        res = out[1]
        h = st.h
        k = z3.Const("k", V)
        pd, qd = ddom(h0, pre), ddom(h0, post)
        created = z3.Lambda([k], z3.And(z3.Select(qd, k), z3.Not(z3.Select(pd, k))))
        get = lambda dom, d: z3.If(z3.Select(dom, k), z3.Select(dval(h0, d), k), NONE)   # ctx.get(k)
        updated = z3.Lambda([k], z3.And(z3.Select(qd, k), z3.Select(pd, k),
                                        z3.Not(stable_eq(I, get(pd, pre), get(qd, post)))))
        spec.oblige(I, "result-is-dict-with-keys", z3.And(
            V.is_ref(res), z3.Select(h.kind, V.id(res)) == K_DICT,
            z3.Select(ddom(h, res), vstr("created_keys")), z3.Select(ddom(h, res), vstr("updated_keys"))))
        ck = z3.Select(dval(h, res), vstr("created_keys"))
        uk = z3.Select(dval(h, res), vstr("updated_keys"))
        for nm, lst, want in (("created_keys=sorted(post-pre)", ck, created), ("updated_keys=sorted(changed)", uk, updated)):
            arr = z3.simplify(z3.Select(h.larr, V.id(lst)))
            is_list = z3.And(V.is_ref(lst), z3.Select(h.kind, V.id(lst)) == K_LIST)
            if z3.is_app(arr) and arr.decl().eq(SortedArr):
                # the list is sorted(S) for the set S the code built: S must be the documented set, pointwise
                S = arr.arg(0)
                spec.oblige(I, nm, z3.And(is_list, z3.ForAll([k], z3.Select(S, k) == z3.Select(want, k))))
            else:
                spec.oblige(I, nm, z3.And(is_list, arr == SortedArr(want)))
        spec.oblige(I, "inputs-unchanged", frame_eq(h0, h, 0))
    E.run_function(spec, "DeltaCollector.compute", body)


def sym_node(I, with_cfg=True):
    """a pipeline node as the orchestrator sees it: an instance with .processor (opaque) and .processor_config"""
    node_ci = O.abstract_class("NodeLike")
    proc = V.obj(z3.Int("proc"))
    cfg = in_dict(I, "node_cfg")
    node = in_inst(I, "node", node_ci, {"processor": proc, "processor_config": cfg})
    return node, proc, cfg


class NodeSpec(Spec):
    """adds: attribute protocol of abstract node instances"""

    def abstract_inst_attr(self, I, v, ci, name):
        if name in ("invalid_parameters", "input_context_key", "required_context_keys", "get_required_keys"):
            return MISSING
        raise OutsideSubset(f"attribute {name} of a node")


def h_pre_checks(spec):
    fn_info(spec, ORCH, "SemantivaOrchestrator._build_pre_checks")
    fn_info(spec, ORCH, "SemantivaOrchestrator._type_check_entry")
    fn_info(spec, ORCH, "SemantivaOrchestrator._normalize_expected")

    def body(I):
        st = I.st
        me = orch_self(I)
        node, proc, cfg = sym_node(I)
        view = in_dict(I, "view")
        data = in_val(I, "data")
        req = in_list(I, "required_keys")
        rq = st.list_sq(req)
        st.assume(rq.n >= 0)
        # expected input type: None or a single class (what processors return)
        exp = z3.Function("InType", I_, V)(V.oid(proc))
        st.assume(z3.Or(exp == NONE, V.is_cls(exp)))
        h0 = st.h.copy()
        _, f = E.method_of(I, ORCH, "SemantivaOrchestrator", "_build_pre_checks")
        out = E.execute(I, f, [me, node, view, data, req])
        if out[0] != "return":
            spec.oblige(I, "never-raises", z3.BoolVal(False))
            return
        h = st.h
        checks = st.list_sq(out[1])
        spec.oblige(I, "at-least-the-two-builtin-checks", checks.n >= 2)
        c0, c1 = checks.at(0), checks.at(1)
        i = z3.Int("i!req")
        all_present = z3.ForAll([i], z3.Implies(z3.And(i >= 0, i < rq.n), z3.Select(ddom(h0, view), rq.at(i))))
        r0 = z3.Select(dval(h, c0), vstr("result"))
        spec.oblige(I, "required_keys_present:code", z3.Select(dval(h, c0), vstr("code")) == vstr("required_keys_present"))
        spec.oblige(I, "required_keys_present:PASS-iff-all-present", (r0 == vstr("PASS")) == all_present)
        spec.oblige(I, "required_keys_present:PASS-or-FAIL", z3.Or(r0 == vstr("PASS"), r0 == vstr("FAIL")))
        r1 = z3.Select(dval(h, c1), vstr("result"))
        isinst = z3.And(V.is_cls(exp), models.instof(I, data, V.cid(exp)))
        spec.oblige(I, "input_type_ok:PASS-iff-None-or-isinstance",
                    (r1 == vstr("PASS")) == z3.Or(exp == NONE, isinst))
        spec.oblige(I, "input_type_ok:code", z3.Select(dval(h, c1), vstr("code")) == vstr("input_type_ok"))
        spec.oblige(I, "inputs-unchanged", frame_eq(h0, h, 0))
    E.run_function(spec, "_build_pre_checks", body)


def h_post_checks(spec):
    fn_info(spec, ORCH, "SemantivaOrchestrator._build_post_checks")
    fn_info(spec, ORCH, "SemantivaOrchestrator._extract_context_delta_lists")

    def body(I):
        st = I.st
        me = orch_self(I)
        node, proc, cfg = sym_node(I)
        view = in_dict(I, "view")
        data = in_val(I, "data")
        cd_ci = cls_of(I, "semantiva/trace/model.py", "ContextDelta")
        created, updated = in_list(I, "created"), in_list(I, "updated")
        delta = in_inst(I, "delta", cd_ci, {"created_keys": created, "updated_keys": updated,
                                            "read_keys": in_list(I, "read"), "key_summaries": in_dict(I, "ks")})
        cs, us = st.list_sq(created), st.list_sq(updated)
        st.assume(cs.n >= 0)
        st.assume(us.n >= 0)
        exp = z3.Function("OutType", I_, V)(V.oid(proc))
        st.assume(z3.Or(exp == NONE, V.is_cls(exp)))
        h0 = st.h.copy()
        _, f = E.method_of(I, ORCH, "SemantivaOrchestrator", "_build_post_checks")
        out = E.execute(I, f, [me, node, view, data, delta])
        if out[0] != "return":
            spec.oblige(I, "never-raises", z3.BoolVal(False))
            return
        h = st.h
        checks = st.list_sq(out[1])
        spec.oblige(I, "at-least-the-two-builtin-checks", checks.n >= 2)
        c0, c1 = checks.at(0), checks.at(1)
        r0 = z3.Select(dval(h, c0), vstr("result"))
        isinst = z3.And(V.is_cls(exp), models.instof(I, data, V.cid(exp)))
        spec.oblige(I, "output_type_ok:PASS-iff-None-or-isinstance", (r0 == vstr("PASS")) == z3.Or(exp == NONE, isinst))
        i = z3.Int("i!cw")
        realized = z3.And(
            z3.ForAll([i], z3.Implies(z3.And(i >= 0, i < cs.n), z3.Select(ddom(h0, view), cs.at(i)))),
            z3.ForAll([i], z3.Implies(z3.And(i >= 0, i < us.n), z3.Select(ddom(h0, view), us.at(i)))))
        r1 = z3.Select(dval(h, c1), vstr("result"))
        spec.oblige(I, "context_writes_realized:code", z3.Select(dval(h, c1), vstr("code")) == vstr("context_writes_realized"))
        spec.oblige(I, "context_writes_realized:PASS-or-FAIL", z3.Or(r1 == vstr("PASS"), r1 == vstr("FAIL")))
        spec.oblige(I, "context_writes_realized:PASS-implies-realized", z3.Implies(r1 == vstr("PASS"), realized))
        spec.oblige(I, "context_writes_realized:realized-implies-PASS", z3.Implies(realized, r1 == vstr("PASS")))
        spec.oblige(I, "inputs-unchanged", frame_eq(h0, h, 0))
    E.run_function(spec, "_build_post_checks", body)


def h_iso_now(spec):
    fn_info(spec, ORCH, "SemantivaOrchestrator._iso_now")
    fn_info(spec, JSONL, "JsonlTraceDriver._now_timestamp")

    def mk(relpath, cls, meth, label):
        def body(I):
            st = I.st
            ci = cls_of(I, relpath, cls)
            me = in_inst(I, "self", ci)
            _, f = E.method_of(I, relpath, cls, meth)
            out = E.execute(I, f, [me])
            if out[0] != "return":
                spec.oblige(I, "never-raises", z3.BoolVal(False))
                return
            spec.oblige(I, "timestamp-denotes-the-UTC-instant",
                        out[1] == vstr(z3.Concat(IsoOf(UTC), z3.StringVal("Z"))),
                        meta={"witness": "tz"})
        E.run_function(spec, label, body)
    mk(ORCH, "SemantivaOrchestrator", "_iso_now", "_iso_now")
    mk(JSONL, "JsonlTraceDriver", "_now_timestamp", "_now_timestamp")


def h_timing(spec):
    fn_info(spec, ORCH, "SemantivaOrchestrator._start_timing")
    fn_info(spec, ORCH, "SemantivaOrchestrator._end_timing")

    def body(I):
        st = I.st
        me = orch_self(I)
        _, f0 = E.method_of(I, ORCH, "SemantivaOrchestrator", "_start_timing")
        _, f1 = E.method_of(I, ORCH, "SemantivaOrchestrator", "_end_timing")
        o0 = E.execute(I, f0, [me])
        if o0[0] != "return":
            spec.oblige(I, "start-never-raises", z3.BoolVal(False))
            return
        sw, sc, siso = models.unpack(I, o0[1], 3)
        o1 = E.execute(I, f1, [me, sw, sc])
        if o1[0] != "return":
            spec.oblige(I, "end-never-raises", z3.BoolVal(False))
            return
        eiso, dur, cpu = models.unpack(I, o1[1], 3)
        utc_z = vstr(z3.Concat(IsoOf(UTC), z3.StringVal("Z")))
        spec.oblige(I, "started_at-denotes-the-UTC-instant", I.lift(siso) == utc_z, meta={"witness": "tz"})
        spec.oblige(I, "finished_at-denotes-the-UTC-instant", I.lift(eiso) == utc_z, meta={"witness": "tz"})
        spec.oblige(I, "wall_ms-non-negative", z3.And(V.is_int(dur), V.i(dur) >= 0))
        spec.oblige(I, "cpu_ms-non-negative", z3.And(V.is_int(cpu), V.i(cpu) >= 0))
    E.run_function(spec, "_start_timing;_end_timing", body)


Pref = z3.Function("PrefixSet", core.VArr, I_, core.VSet)       # the set of the first i elements of a sequence (spec function)
Dflt = z3.Function("DefaultOf", I_, V, V)                     # _default_for(processor class, name)
NO_DEFAULT = z3.Const("NO_DEFAULT_SENTINEL", V)


def pref_axioms(st, arr):
    i = z3.Int("i!pref")
    st.assume(Pref(arr, 0) == z3.K(V, z3.BoolVal(False)))
    st.assume(z3.ForAll([i], z3.Implies(i >= 0, Pref(arr, i + 1) == z3.Store(Pref(arr, i), z3.Select(arr, i), True)), patterns=[Pref(arr, i + 1)]))


class ProvSpec(NodeSpec):
    """_resolve_params_with_sources: serialize_json_safe = JsonSafe (pure), _default_for abstract, processor parameter names a list"""

    def __init__(self):
        super().__init__()
        self.skolem_goals = True
        self.obj_missing = set(self.obj_missing) | {"get_default_params"}
        self.obj_methods = dict(self.obj_methods, get_processing_parameter_names=self.m_names)

    def m_names(self, I, recv, args, kwargs, star):
        return self.NAMES

    def call_override(self, I, f, args, kwargs, star):
        fn = f.func if isinstance(f, O.HBound) else f
        if isinstance(fn, O.HFunc) and fn.node.name == "_default_for":
            return Dflt(V.oid(self.PROC), I.lift(args[1]))
        if isinstance(fn, O.HFunc) and fn.node.name == "serialize_json_safe":
            return JsonSafe(I.lift(args[0]))
        return super().call_override(I, f, args, kwargs, star)

    def global_override(self, module, name):
        if name == "_NO_DEFAULT":
            return NO_DEFAULT
        return super().global_override(module, name)

    def obj_attr(self, I, v, name):
        if name == "__class__":
            return V.obj(z3.Int("ProcessorClass"))
        return super().obj_attr(I, v, name)


def h_params_sources(spec):
    """provenance lemma: for every parameter name p of the processor that the node can resolve (configuration > context > signature
    default), the SER says parameters[p] = JsonSafe(resolved value) and parameter_sources[p] = the channel it came from."""
    fn_info(spec, ORCH, "SemantivaOrchestrator._resolve_params_with_sources")

    def body(I):
        st = I.st
        me = orch_self(I)
        node, proc, cfg = sym_node(I)
        spec.PROC = proc
        view = in_dict(I, "ctx_view")
        node_def = in_dict(I, "node_def")
        st.assume(z3.Select(ddom(st.h, node_def), vstr("parameters")))
        st.assume(z3.Select(dval(st.h, node_def), vstr("parameters")) == cfg)
        st.assume(z3.Select(st.h.dlen, V.id(node_def)) >= 1)
        req = in_list(I, "required_keys")
        spec.NAMES = in_list(I, "processor_parameter_names")
        for l in (req, spec.NAMES):
            st.assume(z3.Select(st.h.llen, V.id(l)) >= 0)
        h0 = st.h.copy()
        D1, C = ddom(h0, cfg), ddom(h0, view)
        cv, vv = dval(h0, cfg), dval(h0, view)
        ord_d, n_d = z3.Select(h0.dord, V.id(cfg)), z3.Select(h0.dlen, V.id(cfg))
        rq_a, m = z3.Select(h0.larr, V.id(req)), z3.Select(h0.llen, V.id(req))
        nm_a, q = z3.Select(h0.larr, V.id(spec.NAMES)), z3.Select(h0.llen, V.id(spec.NAMES))
        for a in (ord_d, rq_a, nm_a):
            pref_axioms(st, a)
        # a dict's order array enumerates exactly its keys
        st.assume(Pref(ord_d, n_d) == D1)
        st.assume(n_d >= 0)
        o = V.oid(proc)
        has_d = lambda k: Dflt(o, k) != NO_DEFAULT
        k = z3.Const("k!pv", V)

        def val_src(hh, po, so, kk, in1, in2, in4c, in4d):
            """value / source of key kk given which stage added it"""
            pv, sv = z3.Select(dval(hh, po), kk), z3.Select(dval(hh, so), kk)
            return z3.And(z3.Implies(in1, z3.And(pv == JsonSafe(z3.Select(cv, kk)), sv == vstr("node"))),
                          z3.Implies(z3.And(z3.Not(in1), z3.Or(in2, in4c)), z3.And(pv == JsonSafe(z3.Select(vv, kk)), sv == vstr("context"))),
                          z3.Implies(z3.And(z3.Not(in1), z3.Not(in2), z3.Not(in4c), in4d), z3.And(pv == JsonSafe(Dflt(o, kk)), sv == vstr("default"))))

        def inv1(c):
            po, so, hh = c.var("params_out"), c.var("source_out"), c.st.h
            P = Pref(ord_d, c.i)
            return z3.And(ddom(hh, po) == P, ddom(hh, so) == P,
                          z3.ForAll([k], z3.Implies(z3.Select(P, k), z3.And(z3.Select(D1, k), z3.Select(dval(hh, po), k) == JsonSafe(z3.Select(cv, k)),
                                                                              z3.Select(dval(hh, so), k) == vstr("node")))))

        def dom2(kk, i_):
            return z3.Or(z3.Select(D1, kk), z3.And(z3.Select(Pref(rq_a, i_), kk), z3.Select(C, kk)))

        def inv2(c):
            po, so, hh = c.var("params_out"), c.var("source_out"), c.st.h
            in1 = z3.Select(D1, k)
            in2 = z3.And(z3.Select(Pref(rq_a, c.i), k), z3.Select(C, k))
            return z3.And(z3.ForAll([k], z3.Select(ddom(hh, po), k) == dom2(k, c.i)),
                          z3.ForAll([k], z3.Select(ddom(hh, so), k) == dom2(k, c.i)),
                          z3.ForAll([k], z3.Implies(dom2(k, c.i), val_src(hh, po, so, k, in1, in2, z3.BoolVal(False), z3.BoolVal(False)))))

        def dom4(kk, i_):
            return z3.Or(dom2(kk, m), z3.And(z3.Select(Pref(nm_a, i_), kk), z3.Or(z3.Select(C, kk), has_d(kk))))

        def inv4(c):
            po, so, hh = c.var("params_out"), c.var("source_out"), c.st.h
            in1 = z3.Select(D1, k)
            in2 = z3.And(z3.Select(Pref(rq_a, m), k), z3.Select(C, k))
            in4 = z3.Select(Pref(nm_a, c.i), k)
            return z3.And(z3.ForAll([k], z3.Select(ddom(hh, po), k) == dom4(k, c.i)),
                          z3.ForAll([k], z3.Select(ddom(hh, so), k) == dom4(k, c.i)),
                          z3.ForAll([k], z3.Implies(dom4(k, c.i), val_src(hh, po, so, k, in1, in2, z3.And(in4, z3.Select(C, k)), z3.And(in4, has_d(k))))))

        import ast as _ast
        fnode, _ = source.find_def(ORCH, "SemantivaOrchestrator._resolve_params_with_sources")
        loops = sorted([n_ for n_ in _ast.walk(fnode) if isinstance(n_, (_ast.For, _ast.While))], key=lambda n_: (n_.lineno, n_.col_offset))
        spec.loops.clear()
        frame = lambda c: [c.var("params_out"), c.var("source_out")]
        for idx_, (lp, inv) in enumerate(zip(loops, (inv1, inv2, None, inv4))):
            if inv is not None:
                spec.loop(ORCH, "SemantivaOrchestrator._resolve_params_with_sources", idx_ + 1, LoopSpec(inv, modifies_heap=True, frame_except=frame))
        _, f = E.method_of(I, ORCH, "SemantivaOrchestrator", "_resolve_params_with_sources")
        out = E.execute(I, f, [me, node, node_def, view, req])
        if out[0] != "return":
            spec.oblige(I, "provenance/never-raises", z3.BoolVal(False), meta={"exc": repr(out[1])})
            return
        po, so = models.unpack(I, out[1], 2)
        h = st.h
        p_ = fresh("any_parameter")
        is_name = z3.Select(Pref(nm_a, q), p_)
        in_cfg, in_ctx = z3.Select(D1, p_), z3.Select(C, p_)
        resolvable = z3.Or(in_cfg, in_ctx, has_d(p_))
        value = z3.If(in_cfg, z3.Select(cv, p_), z3.If(in_ctx, z3.Select(vv, p_), Dflt(o, p_)))
        label = z3.If(in_cfg, vstr("node"), z3.If(in_ctx, vstr("context"), vstr("default")))
        spec.oblige(I, "provenance/every-resolvable-parameter-of-the-processor-is-recorded", z3.Implies(z3.And(is_name, resolvable), z3.And(z3.Select(ddom(h, po), p_), z3.Select(ddom(h, so), p_))),
                    meta={"witness": "provenance"}, hints=[p_])
        spec.oblige(I, "provenance/recorded-value-is-the-resolved-value(config>context>default)", z3.Implies(z3.And(is_name, resolvable), z3.Select(dval(h, po), p_) == JsonSafe(value)),
                    meta={"witness": "provenance"}, hints=[p_])
        spec.oblige(I, "provenance/recorded-source-is-the-channel-the-value-came-from", z3.Implies(z3.And(is_name, resolvable), z3.Select(dval(h, so), p_) == label),
                    meta={"witness": "provenance"}, hints=[p_])
        spec.oblige(I, "provenance/an-unresolvable-parameter-is-not-recorded", z3.Implies(z3.And(is_name, z3.Not(resolvable), z3.Not(z3.Select(Pref(rq_a, m), p_))), z3.Not(z3.Select(ddom(h, po), p_))), hints=[p_])
        spec.oblige(I, "provenance/inputs-untouched", frame_eq(h0, h, 0))
    E.run_function(spec, "_resolve_params_with_sources", body)


def h_data_summary(spec):
    """_data_summary: what a SER says about the data is a function of that data and of the trace options - sha256 = Sha(Ser(data)),
    repr = ReprOf(data), recorded exactly when the option is on (and serialisation succeeded), empty when neither option is on;
    nothing is remembered between calls (no attribute of the orchestrator is read or written)."""
    fn_info(spec, ORCH, "SemantivaOrchestrator._data_summary")

    def body(I):
        st = I.st
        me = V.obj(z3.Int("orchestrator"))          # opaque: any attribute read or write on it is outside the contract
        data = V.obj(z3.Int("payload_data"))
        opts = in_dict(I, "trace_opts")
        for k_ in ("hash", "repr"):
            v_ = z3.Select(dval(st.h, opts), vstr(k_))
            st.assume(z3.Implies(z3.Select(ddom(st.h, opts), vstr(k_)), V.is_bool(v_)))
        on = lambda k_: z3.And(z3.Select(ddom(st.h, opts), vstr(k_)), z3.Select(dval(st.h, opts), vstr(k_)) == vbool(z3.BoolVal(True)))
        want_hash, want_repr = on("hash"), on("repr")
        h0 = st.h.copy()
        _, f = E.method_of(I, ORCH, "SemantivaOrchestrator", "_data_summary")
        out = E.execute(I, f, [me, data, opts])
        if out[0] != "return":
            spec.oblige(I, "_data_summary/never-raises", z3.BoolVal(False))
            return
        res, h = out[1], st.h
        has = lambda k_: z3.Select(ddom(h, res), vstr(k_))
        get = lambda k_: z3.Select(dval(h, res), vstr(k_))
        spec.oblige(I, "_data_summary/empty-when-neither-hash-nor-repr-is-requested", z3.Implies(z3.And(z3.Not(want_hash), z3.Not(want_repr)), z3.Select(h.dlen, V.id(res)) == 0))
        spec.oblige(I, "_data_summary/sha256-is-the-digest-of-this-data's-serialisation", z3.Implies(has("sha256"), z3.And(want_hash, SerOk(data), get("sha256") == Sha(Ser(data)))))
        spec.oblige(I, "_data_summary/sha256-recorded-whenever-requested-and-serialisable", z3.Implies(z3.And(want_hash, SerOk(data)), has("sha256")))
        spec.oblige(I, "_data_summary/repr-is-the-repr-of-this-data", z3.And(z3.Implies(has("repr"), z3.And(want_repr, get("repr") == vstr(core.ReprOf(data)))),
                                                                              z3.Implies(want_repr, has("repr"))))
        spec.oblige(I, "_data_summary/options-untouched", frame_eq(h0, h, 0))
    E.run_function(spec, "_data_summary", body)


def h_context_snapshot(spec):
    fn_info(spec, ORCH, "SemantivaOrchestrator._context_snapshot")

    def body(I):
        st = I.st
        me = orch_self(I)
        ctx_ci = cls_of(I, "semantiva/context_processors/context_types.py", "ContextType")
        cd = in_dict(I, "container")
        ctx = in_inst(I, "ctx", ctx_ci, {"_context_container": cd})
        h0 = st.h.copy()
        n0 = st.nalloc
        _, f = E.method_of(I, ORCH, "SemantivaOrchestrator", "_context_snapshot")
        out = E.execute(I, f, [me, ctx])
        if out[0] != "return":
            spec.oblige(I, "never-raises", z3.BoolVal(False))
            return
        snap = out[1]
        h = st.h
        spec.oblige(I, "snapshot-is-a-fresh-dict", z3.And(V.is_ref(snap), V.id(snap) > n0, z3.Select(h.kind, V.id(snap)) == K_DICT))
        spec.oblige(I, "snapshot-has-the-context-content",
                    z3.And(ddom(h, snap) == ddom(h0, cd), dval(h, snap) == dval(h0, cd)))
        spec.oblige(I, "context-unchanged", frame_eq(h0, h, 0))
    E.run_function(spec, "_context_snapshot", body)


h_compute.shards = 16
h_pre_checks.shards = 16
h_post_checks.shards = 16
class DigestSpec(PureLibMixin, BaseSpec):
    """canonical_json_bytes: the bytes every SER digest is computed from"""

    def __init__(self):
        super().__init__(PROP)
        self.inline_files |= {"semantiva/trace/_utils.py"}


def h_canonical_json(spec):
    s2 = DigestSpec()
    s2.obligations, s2._seen, s2.undecided, s2.functions, s2.used_contracts = spec.obligations, spec._seen, spec.undecided, spec.functions, spec.used_contracts
    fn_info(s2, "semantiva/trace/_utils.py", "canonical_json_bytes")

    def body(I):
        st = I.st
        c = st.choose(3, "shape of the value")
        obj = in_dict(I, "obj") if c == 0 else (in_list(I, "obj") if c == 1 else z3.Const("obj", V))
        shape = ["mapping", "list", "scalar"][c]
        out = E.execute(I, E.hfunc("semantiva/trace/_utils.py", "canonical_json_bytes"), [obj])
        if out[0] != "return":
            s2.oblige(I, f"canonical_json_bytes[{shape}]/never-raises", z3.BoolVal(False))
            return
        bad = sorted(r for r in st.reads if r[0] == "ambient")
        s2.oblige(I, f"canonical_json_bytes[{shape}]/frame:no-ambient-reads", z3.BoolVal(not bad), meta={"reads": [str(r) for r in bad]})
        if is_v(out[1]):
            oracles = sorted(order_oracles_in(z3.simplify(out[1])))
            s2.oblige(I, f"canonical_json_bytes[{shape}]/digest-bytes-independent-of-mapping-order(any-depth)", z3.BoolVal(not oracles),
                      meta={"oracles": oracles, "witness": "digest-order"})
    E.run_function(s2, "canonical_json_bytes", body)
    spec.path_count += s2.path_count
    spec.assumptions |= s2.assumptions


def t_params_sources(spec):
    s2 = ProvSpec()
    s2.obligations, s2._seen, s2.undecided, s2.functions, s2.used_contracts = spec.obligations, spec._seen, spec.undecided, spec.functions, spec.used_contracts
    h_params_sources(s2)
    spec.path_count += s2.path_count
    spec.assumptions |= s2.assumptions


TASKS = [h_stable_equal, h_compute, h_pre_checks, h_post_checks, h_iso_now, h_timing, h_context_snapshot, h_canonical_json, t_params_sources, h_data_summary]


def factory():
    s = NodeSpec()
    s.inline_files |= {"semantiva/context_processors/context_types.py"}
    return s


def main(tier="quick", seed=0):
    run = report.Run(PROP, tier, seed)
    spec = factory()
    faults = E.run_parallel(spec, factory, TASKS, timeout_ms=10000 if tier == "quick" else 30000)
    if faults:
        run.engine_fault = faults[0][-1500:]
    handle_refutations(run, spec)
    run_bounded(run, PROP, "c07_bounded.py", tier)      # parameter provenance of real SERs (bounded, not proof)
    return run.finish(spec, "proof", "per-function contracts transcribed from the property; parameter provenance bounded; see DESIGN.md C07")


def handle_refutations(run, spec):
    known = report.open_findings(PROP)
    groups = {}
    for ob in spec.obligations:
        if ob.status == "refuted":
            groups.setdefault(ob.name, ob)
    for name, ob in groups.items():
        kf = next((k for k in known.values() if k.get("obligation") == name), None)
        found, payload = replay(ob)
        if kf is not None:
            run.known(f"{kf['id']}: {kf['what']}")
            for o in spec.obligations:
                if o.name == name and o.status == "refuted":
                    o.status = "known"
            continue
        if getattr(ob, "weak", False) and not found:
            ob.status = "undecided"
            ob.note = "candidate counter-model (quantified hypotheses dropped) did not replay natively"
            continue
        run.violation(name, payload, found)


def replay(ob):
    payload = {"obligation": ob.name, "solver": ob.backend, "model": report.model_summary(ob), "goal": str(ob.goal)[:800]}
    script = os.path.join(report.ROOT, "replay", "c07_replay.py")
    if "timestamp-denotes" in ob.name:
        found_any = False
        res_all = {}
        for tz in ("Asia/Tokyo", "America/Los_Angeles", "Asia/Kathmandu", "UTC"):
            res, proc = report.native_json(script, {"case": "timestamp", "which": ob.name.split("/")[0]}, env={"TZ": tz})
            res_all[tz] = res
            if res and res.get("violates"):
                found_any = True
        payload["native"] = res_all
        return found_any, payload
    if "provenance" in ob.name:
        res, proc = report.native_json(script, {"case": "provenance"})
        payload["native"] = res
        payload["stderr"] = (proc.stderr or "")[-400:]
        return bool(res and res.get("violates")), payload
    res, proc = report.native_json(script, {"case": "generic", "obligation": ob.name})
    payload["native"] = res
    return bool(res and res.get("violates")), payload


if __name__ == "__main__":
    t, s = tier_and_seed()
    sys.exit(main(t, s))
