"""Helpers shared by the property specs: symbolic inputs, frames, running conventions."""
from __future__ import annotations
import os, sys, json, z3
from pyvc.core import *
from pyvc import core, engine as E, objects as O, models, report, source
from pyvc.engine import BaseSpec, Contract
from pyvc.interp import LoopSpec, _MISSING
from pyvc.source import OutsideSubset
from pyvc.state import PyRaise, PathEnd

_input_counter = [0]


def in_ref(I, name, kind, cls=None):
    """a pre-existing heap object (id <= 0), distinct from every other input created through this helper"""
    st = I.st
    r = z3.Int(name)
    st.assume(r <= 0)
    prev = st.ghost.setdefault("__inputs__", [])
    for p in prev:
        st.assume(r != p)
    st.ghost["__inputs__"] = prev + [r]
    st.assume(z3.Select(st.h.kind, r) == kind)
    if cls is not None:
        st.mention(cls, target=True)
        st.assume(z3.Select(st.h.cls, r) == cls.cid)
    return V.ref(r)


def in_dict(I, name):
    d = in_ref(I, name, K_DICT)
    I._card_axioms(d)
    return d


def in_list(I, name):
    return in_ref(I, name, K_LIST)


def in_set(I, name):
    s = in_ref(I, name, K_SET)
    I._card_axioms(s)
    return s


def in_inst(I, name, ci, fields=None):
    o = in_ref(I, name, K_INST, ci)
    st = I.st
    for f, v in (fields or {}).items():
        st.assume(z3.Select(st.h.hasf(f), V.id(o)))
        st.assume(z3.Select(st.h.field(f), V.id(o)) == I.lift(v))
    return o


def in_val(I, name):
    """an arbitrary input value; if it is a reference it denotes a pre-existing object"""
    v = z3.Const(name, V)
    I.st.assume(z3.Implies(V.is_ref(v), V.id(v) <= 0))
    return v


def ddom(h, d):
    return z3.Select(h.ddom, V.id(d))


def dval(h, d):
    return z3.Select(h.dval, V.id(d))


def fld(h, o, name):
    return z3.Select(h.field(name), V.id(o))


def cls_of(I, relpath, name):
    mod = source.load_module(relpath)
    return I.class_of_node(mod, mod.defs[name])


def bcls(py):
    return O.builtin_class(py)


def exc_is(exc, pycls_or_ci):
    ci = pycls_or_ci if isinstance(pycls_or_ci, O.ClassInfo) else O.builtin_class(pycls_or_ci)
    return exc.cid == ci.cid


def fn_info(spec, relpath, qual):
    try:
        spec.functions[(relpath, qual)] = source.source_info(relpath, qual)
    except Exception as e:
        spec.undecided.append((f"{relpath}::{qual}", f"MISSING: {e}"))


def tier_and_seed(argv=None):
    tier = os.environ.get("VERIF_TIER", "quick")
    seed = int(os.environ.get("VERIF_SEED", "0") or 0)
    return tier, seed
MISSING = _MISSING


def generic_refutations(run, spec, prop, replay):
    """refuted obligations -> native replay -> VIOLATION / KNOWN-FINDING / (weak candidates that do not replay) undecided"""
    known = report.open_findings(prop)
    groups = {}
    for ob in spec.obligations:
        if ob.status == "refuted":
            groups.setdefault(ob.name, ob)
    for name, ob in groups.items():
        kf = next((k for k in known.values() if k.get("obligation") == name), None)
        try:
            found, payload = replay(ob)
        except Exception as e:   # replay infrastructure failure: the refutation stands, no input
            found, payload = False, {"obligation": name, "replay_error": repr(e), "model": report.model_summary(ob)}
        if kf is not None:
            run.known(f"{kf['id']}: {kf['what']}")
            for o in spec.obligations:
                if o.name == name and o.status == "refuted":
                    o.status = "known"
            continue
        if getattr(ob, "weak", False) and not found:
            for o in spec.obligations:
                if o.name == name and o.status == "refuted":
                    o.status = "undecided"
                    o.note = "candidate counter-model (quantified hypotheses dropped) did not replay natively"
            continue
        run.violation(name, payload, found)


def run_bounded(run, prop, script_name, tier, timeout=900):
    """bounded stand-in tier (run-time contracts on the real functions, enumerated to a stated bound).
    Its numbers go under coverage.bounded and are never added to obligations/discharged."""
    script = os.path.join(report.ROOT, "replay", script_name)
    res, proc = report.native_json(script, {"tier": tier, "seed": run.seed}, timeout=timeout)
    if res is None:
        run.engine_fault = f"bounded tier crashed: {(proc.stderr or '')[-600:]}"
        return
    run.bounded = {"label": "bounded (not proof)", "bound": res["bound"], "evaluations": res["evaluations"],
                   "distinct_nontrivial": res["distinct_nontrivial"], "rule": res["rule"], "passed": not res["failures"]}
    run.samples += res.get("samples", [])[:3]
    known = report.open_findings(prop)
    reported = set()
    for f in res["failures"]:
        cls = f.get("class")
        kf = next((k for k in known.values() if k.get("witness_class") == cls), None)
        if kf is not None:
            if cls not in reported:
                reported.add(cls)
                run.known(f"{kf['id']}: {kf['what']}")
            continue
        if cls in reported:
            continue
        reported.add(cls)
        run.violation("bounded/" + str(cls), {"bounded_case": f, "note": "run-time contract failed on the real function (bounded tier)"}, True)


# ---------------------------------------------------------------------------------------------------------
# pure library models shared by the identity specs (json / hashlib / uuid): uninterpreted functions of *content*
# ---------------------------------------------------------------------------------------------------------
def _content_args(h, with_order):
    arrs = [h.ddom, h.dval, h.dlen, h.larr, h.llen, h.sdom]
    if with_order:
        arrs.append(h.dord)
    return arrs


def json_dumps_model(I, args, kwargs):
    """json.dumps(obj, sort_keys=..., ...): with sort_keys=True a function of the mappings' contents only; without it the
    key order of every mapping is an additional argument.  Assumed: deterministic, raises TypeError on non-JSON values."""
    st = I.st
    obj = I.lift(args[0])
    sk = kwargs.get("sort_keys")
    sorted_keys = sk is not None and z3.is_true(z3.simplify(I.truthy(sk)))
    arrs = _content_args(st.h, not sorted_keys)
    f = z3.Function("JsonSorted" if sorted_keys else "JsonOrdered", V, *[a.sort() for a in arrs], z3.StringSort())
    models.assume_lib("json.dumps", "deterministic function of the value's content (plus mapping order unless sort_keys=True)")
    if "default" not in kwargs:
        ok = z3.Function("JsonSerializable", V, *[a.sort() for a in arrs[:6]], core.B)(obj, *arrs[:6])
        if not st.decide(ok, "json-serializable"):
            I.raise_(TypeError, origin=("json.dumps",))
    return vstr(f(obj, *arrs))


class PureLibMixin:
    """ext models: json.dumps, hashlib.sha256(...).hexdigest(), uuid.uuid5, str.encode  (all pure, deterministic)"""

    def sorted_with_key(self, I, args, kwargs):
        """sorted(xs, key=...): modelled as a function of the *set* of elements (assumed: keys pairwise distinct)"""
        st = I.st
        dom = models.as_set_term(I, args[0])
        n = fresh("card", core.I)
        st.assume(n >= 0)
        models.assume_lib("sorted(key=)", "sorted(xs, key=k) with pairwise distinct keys is a function of the set of elements")
        return st.new_list(core.Sq(core.SortedArr(dom), n))

    def ext_call(self, I, dotted, args, kwargs, star):
        if dotted == "json.dumps":
            return json_dumps_model(I, args, kwargs)
        if dotted == "hashlib.sha256":
            models.assume_lib("hashlib.sha256", "deterministic, collision-free on the inputs considered")
            return V.obj(z3.Function("Sha256Obj", V, core.I)(I.lift(args[0]) if args else NONE))
        if dotted == "uuid.uuid5":
            models.assume_lib("uuid.uuid5", "deterministic function of (namespace, name)")
            return V.obj(z3.Function("Uuid5Obj", V, V, core.I)(I.lift(args[0]), I.lift(args[1])))
        if dotted == "uuid.UUID":
            return V.obj(z3.Function("UuidOf", V, core.I)(I.lift(args[0])))
        if dotted in ("uuid.uuid4", "uuid.uuid1", "time.time", "time.time_ns", "time.monotonic", "time.perf_counter", "os.getpid",
                      "os.getcwd", "random.random", "datetime.datetime.now", "datetime.datetime.utcnow", "os.urandom", "socket.gethostname"):
            I.st.reads.add(("ambient", dotted))
            return fresh("ambient")
        return super().ext_call(I, dotted, args, kwargs, star)

    def obj_attr(self, I, v, name):
        if name in ("hexdigest", "hex", "encode", "digest"):
            return O.HMeth(v, name)
        return super().obj_attr(I, v, name)

    def obj_method_call(self, I, recv, name, args, kwargs, star):
        if name in ("hexdigest", "hex"):
            return vstr(z3.Function("HexOf", core.I, z3.StringSort())(V.oid(recv)))
        return super().obj_method_call(I, recv, name, args, kwargs, star)


def order_oracles_in(term):
    """names of order-dependent symbols (dict orders, set/comprehension order oracles) a term depends on"""
    out = set()
    stack = [term]
    seen = set()
    while stack:
        x = stack.pop()
        if x.get_id() in seen:
            continue
        seen.add(x.get_id())
        if z3.is_const(x) and x.decl().kind() == z3.Z3_OP_UNINTERPRETED:
            nm = x.decl().name()
            if nm.endswith(".dord") or nm.startswith(("setord", "compord", "ord_after", "ord!", "filt", "JsonOrdered")):
                out.add(nm)
        if z3.is_app(x) and x.decl().name() == "JsonOrdered":
            out.add("JsonOrdered")
        if z3.is_quantifier(x):
            stack.append(x.body())
        else:
            stack.extend(x.children())
    return out
