"""Helpers shared by the property specs: symbolic inputs, frames, running conventions."""
from __future__ import annotations
import os, sys, json, z3
from pyvc.core import *
from pyvc import core, engine as E, objects as O, models, report, source
from pyvc.engine import BaseSpec, Contract
from pyvc.interp import LoopSpec, _MISSING
from pyvc.source import OutsideSubset
from pyvc.state import PyRaise, PathEnd

_input_counter = [0]


def in_ref(I, name, kind, cls=None):
    """a pre-existing heap object (id <= 0), distinct from every other input created through this helper"""
    st = I.st
    r = z3.Int(name)
    st.assume(r <= 0)
    prev = st.ghost.setdefault("__inputs__", [])
    for p in prev:
        st.assume(r != p)
    st.ghost["__inputs__"] = prev + [r]
    st.assume(z3.Select(st.h.kind, r) == kind)
    if cls is not None:
        st.mention(cls, target=True)
        st.assume(z3.Select(st.h.cls, r) == cls.cid)
    return V.ref(r)


def in_dict(I, name):
    d = in_ref(I, name, K_DICT)
    I._card_axioms(d)
    return d


def in_list(I, name):
    return in_ref(I, name, K_LIST)


def in_set(I, name):
    s = in_ref(I, name, K_SET)
    I._card_axioms(s)
    return s


def in_inst(I, name, ci, fields=None):
    o = in_ref(I, name, K_INST, ci)
    st = I.st
    for f, v in (fields or {}).items():
        st.assume(z3.Select(st.h.hasf(f), V.id(o)))
        st.assume(z3.Select(st.h.field(f), V.id(o)) == I.lift(v))
    return o


def in_val(I, name):
    """an arbitrary input value; if it is a reference it denotes a pre-existing object"""
    v = z3.Const(name, V)
    I.st.assume(z3.Implies(V.is_ref(v), V.id(v) <= 0))
    return v


def ddom(h, d):
    return z3.Select(h.ddom, V.id(d))


def dval(h, d):
    return z3.Select(h.dval, V.id(d))


def fld(h, o, name):
    return z3.Select(h.field(name), V.id(o))


def cls_of(I, relpath, name):
    mod = source.load_module(relpath)
    return I.class_of_node(mod, mod.defs[name])


def bcls(py):
    return O.builtin_class(py)


def exc_is(exc, pycls_or_ci):
    ci = pycls_or_ci if isinstance(pycls_or_ci, O.ClassInfo) else O.builtin_class(pycls_or_ci)
    return exc.cid == ci.cid


def fn_info(spec, relpath, qual):
    try:
        spec.functions[(relpath, qual)] = source.source_info(relpath, qual)
    except Exception as e:
        spec.undecided.append((f"{relpath}::{qual}", f"MISSING: {e}"))


def tier_and_seed(argv=None):
    tier = os.environ.get("VERIF_TIER", "quick")
    seed = int(os.environ.get("VERIF_SEED", "0") or 0)
    return tier, seed
MISSING = _MISSING


def generic_refutations(run, spec, prop, replay):
    """refuted obligations -> native replay -> VIOLATION / KNOWN-FINDING / (weak candidates that do not replay) undecided"""
    known = report.open_findings(prop)
    groups = {}
    for ob in spec.obligations:
        if ob.status == "refuted":
            groups.setdefault(ob.name, ob)
    for name, ob in groups.items():
        kf = next((k for k in known.values() if k.get("obligation") == name), None)
        try:
            found, payload = replay(ob)
        except Exception as e:   # replay infrastructure failure: the refutation stands, no input
            found, payload = False, {"obligation": name, "replay_error": repr(e), "model": report.model_summary(ob)}
        if kf is not None:
            run.known(f"{kf['id']}: {kf['what']}")
            for o in spec.obligations:
                if o.name == name and o.status == "refuted":
                    o.status = "known"
            continue
        if getattr(ob, "weak", False) and not found:
            for o in spec.obligations:
                if o.name == name and o.status == "refuted":
                    o.status = "undecided"
                    o.note = "candidate counter-model (quantified hypotheses dropped) did not replay natively"
            continue
        run.violation(name, payload, found)


def run_bounded(run, prop, script_name, tier, timeout=900):
    """bounded stand-in tier (run-time contracts on the real functions, enumerated to a stated bound).
    Its numbers go under coverage.bounded and are never added to obligations/discharged."""
    script = os.path.join(report.ROOT, "replay", script_name)
    res, proc = report.native_json(script, {"tier": tier, "seed": run.seed}, timeout=timeout)
    if res is None:
        run.engine_fault = f"bounded tier crashed: {(proc.stderr or '')[-600:]}"
        return
    run.bounded = {"label": "bounded (not proof)", "bound": res["bound"], "evaluations": res["evaluations"],
                   "distinct_nontrivial": res["distinct_nontrivial"], "rule": res["rule"], "passed": not res["failures"]}
    run.samples += res.get("samples", [])[:3]
    known = report.open_findings(prop)
    reported = set()
    for f in res["failures"]:
        cls = f.get("class")
        kf = next((k for k in known.values() if k.get("witness_class") == cls), None)
        if kf is not None:
            if cls not in reported:
                reported.add(cls)
                run.known(f"{kf['id']}: {kf['what']}")
            continue
        if cls in reported:
            continue
        reported.add(cls)
        run.violation("bounded/" + str(cls), {"bounded_case": f, "note": "run-time contract failed on the real function (bounded tier)"}, True)
