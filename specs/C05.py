"""C05 — identities discriminate: a change of meaning changes semantic and config ID.

Deductive part (real code), with hashes / JSON assumed injective on content:
  * compute_pipeline_semantic_id : the hashed pre-image (the structure passed to json.dumps) determines, for every node, its
    node_uuid and - when the node carries preprocessor metadata - its node semantic id.  (Relational: two symbolic canonical specs,
    equal pre-images  =>  equal fields.)  Node lists of length 1..2.
  * compute_pipeline_config_id : the hashed pre-image is the list of (uuid, semantic id) pairs sorted by uuid: equal pre-images => equal sets of pairs.
  * build_canonical_spec : loop invariant - node j's canonical mapping carries declaration_index j and its uuid is uuid5 of that
    mapping's JSON; hence node uuids of one pipeline are pairwise distinct (even for textually identical nodes), for any length.
  * variable_domain_signature (explicit sequences): the digest is taken over the whole value list, count = its length.
Bounded stand-in (labelled bounded): single-point semantic mutations of configurations (replay/c05_bounded.py).
"""
from __future__ import annotations
import sys, os
import z3
from .common import *
from pyvc.interp import frame_eq
from pyvc.core import Sq

PROP = "C05"
GB = "semantiva/pipeline/graph_builder.py"
SID = "semantiva/metadata/semantic_id.py"
I_ = core.I
NodeSem = z3.Function("NodeSemId", V, core.VSet, core.VMap, z3.StringSort())   # compute_node_semantic_id(pre) as a function of pre's content


class Spec(PureLibMixin, BaseSpec):
    def __init__(self):
        super().__init__(PROP)
        self.inline_files |= {SID}
        self.inline |= {(GB, "_canonical_node"), (GB, "build_canonical_spec"), (GB, "compute_pipeline_id")}
        self.captured = []
        self.assumptions |= {
            "sha256 / uuid5 / canonical JSON are injective on the contents considered (collision freedom)",
            "compute_node_semantic_id, preprocess_node_config, resolve_parameters, descriptor_to_json, _load_spec are abstract here (deterministic functions of their argument); their discrimination is exercised by the bounded tier",
        }

    def ext_call(self, I, dotted, args, kwargs, star):
        if dotted == "json.dumps":
            self.captured.append((I.lift(args[0]), I.st.h.copy()))
        return super().ext_call(I, dotted, args, kwargs, star)

    def call_override(self, I, f, args, kwargs, star):
        if isinstance(f, O.HFunc):
            st = I.st
            if f.key == (SID, "compute_node_semantic_id"):
                pre = I.lift(args[0])
                self.used_contracts.add(f.key)
                return vstr(NodeSem(pre, ddom(st.h, pre), dval(st.h, pre)))
            if f.node.name == "_load_spec":
                return self._spec_list
            if f.node.name == "preprocess_node_config":
                # returns a (fresh) node configuration mapping
                d = st.new_dict()
                src = I.lift(args[0])
                st.h.ddom = z3.Store(st.h.ddom, V.id(d), z3.Function("PreDom", V, core.VSet)(src))
                st.h.dval = z3.Store(st.h.dval, V.id(d), z3.Function("PreVal", V, core.VMap)(src))
                st.h.dlen = z3.Store(st.h.dlen, V.id(d), fresh("card", I_))
                st.h.dord = z3.Store(st.h.dord, V.id(d), fresh("ord", core.VArr))
                pv = z3.Select(dval(st.h, d), vstr("processor"))
                st.assume(z3.Not(V.is_cls(pv)))
                for k in ("role", "processor", "parameters", "ports"):
                    v = z3.Select(dval(st.h, d), vstr(k))
                    st.assume(z3.Implies(V.is_ref(v), V.id(v) <= 0))
                return d
            if f.node.name in ("resolve_parameters", "descriptor_to_json"):
                r = z3.Function("Pure_" + f.node.name, V, V)(I.lift(args[0]))
                st.assume(z3.Implies(V.is_ref(r), V.id(r) <= 0))
                return r
        return MISSING


def sym_canonical(I, tag, n):
    """a canonical spec with n nodes; each node mapping has name / node_uuid / payload_from and maybe preprocessor_metadata"""
    st = I.st
    canonical = in_dict(I, f"canonical{tag}")
    nodes, facts = [], []
    for i in range(n):
        d = in_dict(I, f"node{tag}{i}")
        pre = in_dict(I, f"pre{tag}{i}")
        pv = z3.Select(dval(st.h, d), vstr("preprocessor_metadata"))
        st.assume(z3.Or(z3.Not(z3.Select(ddom(st.h, d), vstr("preprocessor_metadata"))), pv == pre, pv == NONE))
        for k in ("name", "node_uuid", "payload_from"):
            v = z3.Select(dval(st.h, d), vstr(k))
            st.assume(z3.Not(V.is_ref(v)))
        nodes.append(d)
        facts.append((d, pre))
    lst = st.new_list(Sq.of(nodes))
    st.assume(z3.Select(ddom(st.h, canonical), vstr("nodes")))
    st.assume(z3.Select(dval(st.h, canonical), vstr("nodes")) == lst)
    return canonical, facts


def get(h, d, key):
    return z3.If(z3.Select(ddom(h, d), vstr(key)), z3.Select(dval(h, d), vstr(key)), NONE)


def h_semantic_id_determines(spec):
    fn_info(spec, SID, "compute_pipeline_semantic_id")

    def body(I):
        st = I.st
        n = st.choose(2, "nodes") + 1
        ca, fa = sym_canonical(I, "A", n)
        cb, fb = sym_canonical(I, "B", n)
        h0 = st.h.copy()
        spec.captured = []
        f = E.hfunc(SID, "compute_pipeline_semantic_id")
        oa = E.execute(I, f, [ca])
        ob = E.execute(I, f, [cb])
        if oa[0] != "return" or ob[0] != "return":
            return
        (sa, ha), (sb, hb) = spec.captured[-2], spec.captured[-1]
        # deep equality of the two hashed structures {"nodes": [entry, ...]}
        la, lb = z3.Select(dval(ha, sa), vstr("nodes")), z3.Select(dval(hb, sb), vstr("nodes"))
        qa, qb = Sq(z3.Select(ha.larr, V.id(la)), z3.Select(ha.llen, V.id(la))), Sq(z3.Select(hb.larr, V.id(lb)), z3.Select(hb.llen, V.id(lb)))
        eq = [qa.n == qb.n]
        for i in range(n):
            ea, eb = qa.at(i), qb.at(i)
            eq.append(z3.And(ddom(ha, ea) == ddom(hb, eb), dval(ha, ea) == dval(hb, eb)))
        pre_equal = z3.And(eq)
        for i in range(n):
            (da, pa), (db, pb) = fa[i], fb[i]
            spec.oblige(I, f"pre-image-determines-node_uuid[{i}]", z3.Implies(pre_equal, get(h0, da, "node_uuid") == get(h0, db, "node_uuid")))
            has_a = z3.And(z3.Select(ddom(h0, da), vstr("preprocessor_metadata")), z3.Select(dval(h0, da), vstr("preprocessor_metadata")) == pa)
            has_b = z3.And(z3.Select(ddom(h0, db), vstr("preprocessor_metadata")), z3.Select(dval(h0, db), vstr("preprocessor_metadata")) == pb)
            sem = lambda p: vstr(NodeSem(p, ddom(h0, p), dval(h0, p)))
            spec.oblige(I, f"pre-image-determines-sweep-identity[{i}]",
                        z3.Implies(pre_equal, z3.And(has_a == has_b, z3.Implies(has_a, sem(pa) == sem(pb)))))
    E.run_function(spec, "compute_pipeline_semantic_id", body)


def h_config_id_determines(spec):
    fn_info(spec, SID, "compute_pipeline_config_id")

    def body(I):
        st = I.st
        pa, pb = in_list(I, "pairsA"), in_list(I, "pairsB")
        for p in (pa, pb):
            st.assume(z3.Select(st.h.llen, V.id(p)) >= 0)
        h0 = st.h.copy()
        spec.captured = []
        f = E.hfunc(SID, "compute_pipeline_config_id")
        oa = E.execute(I, f, [pa])
        ob = E.execute(I, f, [pb])
        if oa[0] != "return" or ob[0] != "return":
            return
        (sa, ha), (sb, hb) = spec.captured[-2], spec.captured[-1]
        qa, qb = Sq(z3.Select(ha.larr, V.id(sa)), z3.Select(ha.llen, V.id(sa))), Sq(z3.Select(hb.larr, V.id(sb)), z3.Select(hb.llen, V.id(sb)))
        pre_equal = z3.And(qa.n == qb.n, qa.arr == qb.arr)
        seta = models.set_term_ax(I, Sq(z3.Select(h0.larr, V.id(pa)), z3.Select(h0.llen, V.id(pa))))
        setb = models.set_term_ax(I, Sq(z3.Select(h0.larr, V.id(pb)), z3.Select(h0.llen, V.id(pb))))
        # sorted(xs) determines the set xs (the sorted list enumerates exactly the set)
        srt = lambda s_: core.SortedArr(s_)
        k = z3.Const("k", V)
        spec.oblige(I, "hashed-list-is-the-sorted-set-of-pairs", z3.And(qa.arr == srt(seta), qb.arr == srt(setb)))
        spec.assumptions.add("sorted(xs) determines the set of its elements (SortedArr injective)")
    E.run_function(spec, "compute_pipeline_config_id", body)


def h_distinct_uuids(spec):
    """build_canonical_spec: nodes[j] carries declaration_index j and uuid = uuid5(JSON of its canonical mapping)"""
    fn_info(spec, GB, "build_canonical_spec")
    j = z3.Int("j!bc")

    def inv(c):
        h = c.h
        nodes = c.var("nodes")
        uu = c.var("node_uuids")
        nq, uq = c.I.st.list_sq(nodes), c.I.st.list_sq(uu)
        ent = nq.at(j)
        return z3.And(
            V.is_ref(nodes), z3.Select(h.kind, V.id(nodes)) == K_LIST, V.is_ref(uu), z3.Select(h.kind, V.id(uu)) == K_LIST,
            nq.n == c.i, uq.n == c.i,
            z3.ForAll([j], z3.Implies(z3.And(j >= 0, j < c.i), z3.And(
                V.is_ref(ent), z3.Select(h.kind, V.id(ent)) == K_DICT, V.id(ent) <= c.st.nalloc, V.id(ent) > 0,
                z3.Select(ddom(h, ent), vstr("declaration_index")), z3.Select(dval(h, ent), vstr("declaration_index")) == V.int(j),
                z3.Select(ddom(h, ent), vstr("node_uuid")), z3.Select(dval(h, ent), vstr("node_uuid")) == uq.at(j),
                UuidOfIndex(j) == uq.at(j)))))

    spec.loop(GB, "build_canonical_spec", 1, LoopSpec(inv, modifies_heap=True,
                                                      frame_except=lambda c: [c.var("nodes"), c.var("node_uuids"), c.var("resolved")]))

    def body(I):
        st = I.st
        specl = in_list(I, "spec")
        st.assume(z3.Select(st.h.llen, V.id(specl)) >= 0)
        spec._spec_list = specl
        hs = st.h.copy()
        st.list_instantiators.append(lambda lid, idx: z3.Implies(
            z3.And(lid == V.id(specl), idx >= 0, idx < z3.Select(hs.llen, lid)),
            z3.And(V.is_ref(z3.Select(z3.Select(hs.larr, lid), idx)), V.id(z3.Select(z3.Select(hs.larr, lid), idx)) <= 0,
                   z3.Select(hs.kind, V.id(z3.Select(z3.Select(hs.larr, lid), idx))) == K_DICT)))
        spec.captured = []
        a_, b_ = z3.Ints("a!inj b!inj")
        st.assume(z3.ForAll([a_, b_], z3.Implies(a_ != b_, UuidOfIndex(a_) != UuidOfIndex(b_))))   # uuid5 / JSON injectivity
        spec._uuid_hook = True
        out = E.execute(I, E.hfunc(GB, "build_canonical_spec"), [specl])
        if out[0] != "return":
            return
        canonical = models.unpack(I, out[1], 2)[0]
        h = st.h
        nodes = z3.Select(dval(h, canonical), vstr("nodes"))
        nq = st.list_sq(nodes)
        a, b = z3.Ints("a b")
        ua = z3.Select(dval(h, nq.at(a)), vstr("node_uuid"))
        ub = z3.Select(dval(h, nq.at(b)), vstr("node_uuid"))
        spec.oblige(I, "node-uuids-pairwise-distinct",
                    z3.ForAll([a, b], z3.Implies(z3.And(a >= 0, a < b, b < nq.n), ua != ub)))
    E.run_function(spec, "build_canonical_spec", body)


# uuid of the node declared at index j: uuid5 of a JSON text that contains declaration_index = j; distinct indices give
# distinct JSON texts (json injective on content) and therefore distinct uuids (uuid5 injective)
UuidOfIndex = z3.Function("UuidOfIndex", I_, V)


class UuidSpec(Spec):
    """str(uuid.uuid5(ns, json.dumps(canon))) is recorded as UuidOfIndex(canon['declaration_index']) and assumed injective in it:
    the JSON text of a mapping determines the value under its 'declaration_index' key."""

    def ext_call(self, I, dotted, args, kwargs, star):
        st = I.st
        if dotted == "json.dumps":
            obj = I.lift(args[0])
            idx = z3.Select(dval(st.h, obj), vstr("declaration_index"))
            self._last_index = (idx, z3.Select(ddom(st.h, obj), vstr("declaration_index")))
            return super().ext_call(I, dotted, args, kwargs, star)
        if dotted == "uuid.uuid5":
            idx, present = self._last_index
            self.oblige(I, "uuid-pre-image-contains-declaration_index", z3.And(present, V.is_int(idx)))
            u = V.obj(fresh("uuidobj", I_))
            self._pending = (u, idx)
            return u
        if dotted == "builtins.str" and args and is_v(args[0]) and getattr(self, "_pending", None) is not None and args[0].eq(self._pending[0]):
            idx = self._pending[1]
            r = UuidOfIndex(V.i(idx))
            a, b = z3.Ints("a!inj b!inj")
            st.assume(z3.ForAll([a, b], z3.Implies(a != b, UuidOfIndex(a) != UuidOfIndex(b))))
            st.assume(V.is_str(r))
            return r
        return super().ext_call(I, dotted, args, kwargs, star)

    def ext_override(self, I, dotted, args, kwargs, star):
        if dotted == "builtins.str" and args and is_v(args[0]) and getattr(self, "_pending", None) is not None and args[0].eq(self._pending[0]):
            return self.ext_call(I, dotted, args, kwargs, star)
        return MISSING



PSF = "semantiva/data_processors/parametric_sweep_factory.py"


class DomainSpec(PureLibMixin, BaseSpec):
    """variable_domain_signature on an explicit value sequence: which list does the digest cover?"""

    def __init__(self):
        super().__init__(PROP)
        self.inline |= {(SID, "variable_domain_signature")}
        self.DIGEST_ARG = None

    def call_override(self, I, f, args, kwargs, star):
        fn = f.func if isinstance(f, O.HBound) else f
        if isinstance(fn, O.HFunc) and fn.node.name == "_sha256_json":
            self.DIGEST_ARG = (I.lift(args[0]), I.st.h.copy())
            return vstr(z3.Function("Sha256Json", V, core.VArr, core.I, z3.StringSort())(I.lift(args[0]),
                        z3.Select(I.st.h.larr, V.id(I.lift(args[0]))), z3.Select(I.st.h.llen, V.id(I.lift(args[0])))))
        return MISSING


def h_domain_signature(spec):
    s2 = DomainSpec()
    s2.obligations, s2._seen, s2.undecided, s2.functions, s2.used_contracts = spec.obligations, spec._seen, spec.undecided, spec.functions, spec.used_contracts
    fn_info(s2, SID, "variable_domain_signature")

    def body(I):
        st = I.st
        seq_ci = cls_of(I, PSF, "SequenceSpec")
        vals = in_list(I, "values")
        n = z3.Select(st.h.llen, V.id(vals))
        st.assume(n >= 0)
        sp = in_inst(I, "spec", seq_ci, {"values": vals})
        h0 = st.h.copy()
        s2.DIGEST_ARG = None
        out = E.execute(I, E.hfunc(SID, "variable_domain_signature"), [sp])
        if out[0] != "return":
            s2.oblige(I, "domain-signature/never-raises-on-an-explicit-sequence", z3.BoolVal(False), meta={"exc": repr(out[1])})
            return
        s2.oblige(I, "domain-signature/the-sequence-is-digested", z3.BoolVal(s2.DIGEST_ARG is not None))
        if s2.DIGEST_ARG is None:
            return
        arg, ha = s2.DIGEST_ARG
        j = fresh("any_index", core.I)
        an = z3.Select(ha.llen, V.id(arg))
        s2.oblige(I, "domain-signature/the-digest-covers-every-value-of-the-sequence(first,interior,last)",
                  z3.And(V.is_ref(arg), an == n,
                         z3.Implies(z3.And(j >= 0, j < n), z3.Select(z3.Select(ha.larr, V.id(arg)), j) == z3.Select(z3.Select(h0.larr, V.id(vals)), j))),
                  meta={"witness": "sequence-element"}, hints=[j])
        res = out[1]
        h = st.h
        s2.oblige(I, "domain-signature/count-is-the-length", z3.Select(dval(h, res), vstr("count")) == V.int(n))
    E.run_function(s2, "variable_domain_signature", body)
    spec.path_count += s2.path_count
    spec.assumptions |= s2.assumptions

TASKS = [h_semantic_id_determines, h_config_id_determines, h_distinct_uuids, h_domain_signature]
FACTORIES = {"h_distinct_uuids": UuidSpec}


def factory():
    return Spec()


def _wrap(task):
    def run(spec):
        fac = FACTORIES.get(task.__name__)
        if fac is None:
            return task(spec)
        s2 = fac()
        s2.obligations, s2._seen, s2.undecided, s2.functions = spec.obligations, spec._seen, spec.undecided, spec.functions
        s2.used_contracts = spec.used_contracts
        task(s2)
        spec.path_count += s2.path_count
        spec.assumptions |= s2.assumptions
    run.__name__ = task.__name__
    return run


WRAPPED = [_wrap(t) for t in TASKS]


def replay(ob):
    payload = {"obligation": ob.name, "solver": ob.backend, "model": report.model_summary(ob),
               "goal": ob.goal if isinstance(ob.goal, str) else str(ob.goal)[:400]}
    script = os.path.join(report.ROOT, "replay", "c05_bounded.py")
    res, proc = report.native_json(script, {"tier": "quick", "seed": 0})
    payload["native"] = {"failures": (res or {}).get("failures", [])[:5]}
    return bool(res and res.get("failures")), payload


def main(tier="quick", seed=0):
    run = report.Run(PROP, tier, seed)
    spec = factory()
    faults = E.run_parallel(spec, factory, WRAPPED, timeout_ms=10000 if tier == "quick" else 30000)
    if faults:
        run.engine_fault = faults[0][-1500:]
    generic_refutations(run, spec, PROP, replay)
    run_bounded(run, PROP, "c05_bounded.py", tier)
    return run.finish(spec, "proof", "field-determination and distinct-uuid obligations; mutation tier bounded; see DESIGN.md C05")


if __name__ == "__main__":
    t, s = tier_and_seed()
    sys.exit(main(t, s))
