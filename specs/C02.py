"""C02 — static inspection is sound.

Deductive part (real code):
  _param_resolution.py :: inspect_origin  = the channel the run-time resolution (C01 contract) will use, given that the
        inspection's key_origin/deleted_keys describe the run-time context domain
  validator.py :: _is_compatible  (= the run-time gate issubclass(a, b), TypeError-safe)
  validator.py :: _validate_data_flow_compatibility : after it returns, every node whose *arriving* data type (output type of
        the nearest preceding data-typed node) is incompatible with its input type carries an error
  validator.py :: validate_pipeline raises iff some error is recorded
Bounded stand-in (labelled bounded): build_pipeline_inspection (300-line loop over reflection-heavy code) is exercised by
  inspect -> validate -> run over generated pipelines (replay/c02_bounded.py), checking soundness and per-node facts.
"""
from __future__ import annotations
import sys, os
import z3
from .common import *
from pyvc.interp import frame_eq
from pyvc.core import Sq

PROP = "C02"
PR = "semantiva/pipeline/_param_resolution.py"
VAL = "semantiva/inspection/validator.py"
BUILDER = "semantiva/inspection/builder.py"
I_ = core.I
Dflt = z3.Function("Dflt", V, V, V)


class Spec(BaseSpec):
    def __init__(self):
        super().__init__(PROP)
        self.inline_files |= {VAL}
        self.inline |= {(PR, "inspect_origin")}
        self.assumptions |= {
            "build_pipeline_inspection itself is not under contract (reflection over generated classes): bounded tier only",
            "node inspection objects of one pipeline are pairwise distinct objects with their own error lists",
        }

    def call_override(self, I, f, args, kwargs, star):
        if isinstance(f, O.HFunc) and f.key == (PR, "_default_for"):
            b = I.bind_args(f, args, kwargs, star)
            return Dflt(I.lift(b["processor_cls"]), I.lift(b["name"]))
        return MISSING

    def unknown_attr(self, I, v, name):
        st = I.st
        if name == "__name__" and is_v(v):
            # type names only feed error-message text; the value is a class on these paths (checked is-not-None above)
            if st.decide(V.is_cls(v), "__name__:is-class"):
                return vstr(z3.Function("ClsName", I_, z3.StringSort())(V.cid(v)))
            return MISSING
        if os.environ.get("PYVC_DEBUG2"):
            print("UNK", name, I.tag(v), str(v)[:200].replace("\n", " "), "mv", st.model_value(v), "valid_ref", st.valid(V.is_ref(v)))
            for p_ in st.pc[-5:]:
                print("   PC", str(p_)[:300].replace("\n", " "))
        if is_v(v) and I.tag(v) == "ref" and I.kind(v) == K_INST:
            if st.decide(z3.Select(st.h.hasf(name), V.id(v)), f"hasattr:{name}"):
                return st.wf_read(z3.Select(st.h.field(name), V.id(v)))
            return MISSING
        return super().unknown_attr(I, v, name)


def h_inspect_origin(spec):
    fn_info(spec, PR, "inspect_origin")

    def body(I):
        st = I.st
        name = vstr(z3.String("name"))
        cfg = in_dict(I, "cfg")
        key_origin = in_dict(I, "key_origin")
        deleted = in_set(I, "deleted")
        pcls = V.cls(z3.Int("pcls"))
        h0 = st.h.copy()
        out = E.execute(I, E.hfunc(PR, "inspect_origin"), [], dict(name=name, processor_cls=pcls, processor_config=cfg,
                                                                    key_origin=key_origin, deleted_keys=deleted))
        if out[0] != "return":
            spec.oblige(I, "never-raises", z3.BoolVal(False))
            return
        origin, idx, dv = models.unpack(I, out[1], 3)
        nd = I.resolve_global(source.load_module(PR), "_NO_DEFAULT")
        in_cfg = z3.Select(ddom(h0, cfg), name)
        # the run-time context domain the inspection simulates: keys produced so far and not deleted
        in_ctx = z3.And(z3.Select(ddom(h0, key_origin), name), z3.Not(z3.Select(z3.Select(h0.sdom, V.id(deleted)), name)))
        has_d = Dflt(pcls, name) != nd
        # channel of the C01 contract Resolve(config > context > default)
        channel = z3.If(in_cfg, vstr("config"), z3.If(in_ctx, vstr("context"), z3.If(has_d, vstr("default"), vstr("required"))))
        spec.oblige(I, "origin=run-time-channel", origin == channel)
        spec.oblige(I, "context-origin-index=producer", z3.Implies(origin == vstr("context"), idx == z3.Select(dval(h0, key_origin), name)))
        spec.oblige(I, "default-value-reported", z3.Implies(origin == vstr("default"), dv == Dflt(pcls, name)))
        spec.oblige(I, "pure", frame_eq(h0, st.h, 0))
    E.run_function(spec, "inspect_origin", body)


def h_is_compatible(spec):
    fn_info(spec, VAL, "_is_compatible")

    def body(I):
        a, b = in_val(I, "a"), in_val(I, "b")
        I.st.assume(z3.Not(V.is_tup(b)))      # node types are single classes (or None), never tuples
        out = E.execute(I, E.hfunc(VAL, "_is_compatible"), [a, b])
        if out[0] != "return":
            spec.oblige(I, "never-raises", z3.BoolVal(False))
            return
        both = z3.And(V.is_cls(a), V.is_cls(b))
        # run-time gate of _DataNode._process: issubclass(type(data), input_type)
        spec.oblige(I, "classes:compatible-iff-subclass(gate)", z3.Implies(both, out[1] == vbool(z3.Or(a == b, issub(V.cid(a), V.cid(b))))))
        spec.oblige(I, "result-is-bool", V.is_bool(out[1]))
    E.run_function(spec, "_is_compatible", body)


class CompatSpec(Spec):
    def eq_override(self, I, a, b):
        return None

    def ext_override(self, I, dotted, args, kwargs, star):
        if dotted == "builtins.issubclass":
            a, b = I.lift(I.lower(args[0]) if not isinstance(I.lower(args[0]), O.ClassInfo) else args[0]), I.lift(args[1])
            ta, tb = I.tag(a), I.tag(b)
            if ta is None:
                ta = models.split_tag(I, a, "issubclass:a")
            if tb is None:
                tb = models.split_tag(I, b, "issubclass:b")
            if ta != "cls" or tb not in ("cls", "tup"):
                I.raise_(TypeError, origin=("issubclass",))
            if tb == "tup":
                raise OutsideSubset("issubclass with a tuple")
            return vbool(issub(V.cid(a), V.cid(b)))
        return MISSING


# ---- type-flow validation -------------------------------------------------------------------------------
OutT = z3.Function("OutT", I_, V)      # output_type of node j (None for context-only nodes)
InT = z3.Function("InT", I_, V)
LT = z3.Function("LastTyped", I_, I_)  # index of the nearest node before j that has an output type, -1 if none


def Arr(j):
    """data type arriving at node j: output type of the nearest preceding typed node (None if there is none)"""
    return z3.If(LT(j) == -1, NONE, OutT(LT(j)))


def compat(a, b):
    return z3.And(V.is_cls(a), V.is_cls(b), z3.Or(a == b, issub(V.cid(a), V.cid(b))))


def h_type_flow(spec):
    fn_info(spec, VAL, "_validate_data_flow_compatibility")
    j = z3.Int("j!tf")

    def setup(I):
        st = I.st
        insp_ci = cls_of(I, BUILDER, "PipelineInspection")
        node_ci = cls_of(I, BUILDER, "NodeInspection")
        st.mention(node_ci, target=True)
        nodes = in_list(I, "nodes")
        insp = in_inst(I, "inspection", insp_ci, {"nodes": nodes, "errors": in_list(I, "perrors")})
        h = st.h.copy()
        sq = Sq(z3.Select(h.larr, V.id(nodes)), z3.Select(h.llen, V.id(nodes)))
        st.assume(sq.n >= 0)
        NodeAt = lambda jj: sq.at(jj)
        ErrOf = lambda jj: z3.Select(h.field("errors"), V.id(sq.at(jj)))

        def elem_fact(lid, idx):
            e = z3.Select(z3.Select(h.larr, lid), idx)
            er = z3.Select(h.field("errors"), V.id(e))
            return z3.Implies(z3.And(lid == V.id(nodes), idx >= 0, idx < sq.n), z3.And(
                V.is_ref(e), V.id(e) <= 0, z3.Select(h.kind, V.id(e)) == K_INST, z3.Select(h.cls, V.id(e)) == node_ci.cid,
                z3.And([z3.Select(h.hasf(n), V.id(e)) for n in ("input_type", "output_type", "errors", "index")]),
                z3.Select(h.field("output_type"), V.id(e)) == OutT(idx), z3.Select(h.field("input_type"), V.id(e)) == InT(idx),
                z3.Or(OutT(idx) == NONE, V.is_cls(OutT(idx))), z3.Or(InT(idx) == NONE, V.is_cls(InT(idx))),
                V.is_ref(er), V.id(er) <= 0, z3.Select(h.kind, V.id(er)) == K_LIST, z3.Select(h.llen, V.id(er)) >= 0,
                IsErrList(V.id(er)), z3.Not(IsErrList(V.id(e))),
                V.is_int(z3.Select(h.field("index"), V.id(e)))))
        st.list_instantiators.append(elem_fact)
        # the same facts, quantified, for the proof obligations; plus separation of the node objects / error lists
        j2 = z3.Int("j2!tf")
        st.assume(z3.ForAll([j], elem_fact(V.id(nodes), j), patterns=[sq.at(j)]))
        st.assume(z3.ForAll([j, j2], z3.Implies(z3.And(j >= 0, j < j2, j2 < sq.n),
                                                z3.And(sq.at(j) != sq.at(j2), ErrOf(j) != ErrOf(j2)))))
        # Arriving(j): definition by recursion on j
        st.assume(z3.Not(IsErrList(V.id(nodes))))
        st.assume(z3.Not(IsErrList(V.id(insp))))
        st.assume(LT(0) == -1)
        st.assume(z3.ForAll([j], z3.Implies(j >= 1, LT(j) == z3.If(OutT(j - 1) != NONE, j - 1, LT(j - 1))), patterns=[LT(j)]))
        spec._elem_fact = lambda idx: elem_fact(V.id(nodes), idx)
        return insp, nodes, sq, h

    def errlen(h, sq, jj):
        er = z3.Select(h.field("errors"), V.id(sq.at(jj)))
        return z3.Select(h.llen, V.id(er))

    def body(I):
        st = I.st
        insp, nodes, sq, h0 = setup(I)
        spec._tf = (sq, h0)
        out = E.execute(I, E.hfunc(VAL, "_validate_data_flow_compatibility"), [insp])
        if out[0] != "return":
            spec.oblige(I, "never-raises", z3.BoolVal(False))
            return
        h = st.h
        bad = lambda jj: z3.And(Arr(jj) != NONE, InT(jj) != NONE, z3.Not(compat(Arr(jj), InT(jj))))
        spec.oblige(I, "every-node-whose-arriving-type-is-incompatible-carries-an-error",
                    z3.ForAll([j], z3.Implies(z3.And(j >= 0, j < sq.n, bad(j)), errlen(h, sq, j) > errlen(h0, sq, j))),
                    meta={"witness": "untyped-node-between"})
        spec.oblige(I, "no-error-is-invented",
                    z3.ForAll([j], z3.Implies(z3.And(j >= 0, j < sq.n, z3.Not(bad(j))), errlen(h, sq, j) == errlen(h0, sq, j))))
    # loop invariants, keyed by ordinal: (a) the pinned adjacent-pair loop `for i in range(len(nodes) - 1)`;
    # (b) the carried-type form `for node in inspection.nodes`
    def inv_adjacent(c):
        sq, h0 = spec._tf
        h = c.h
        i = c.i
        bad_adj = lambda jj: z3.And(OutT(jj) != NONE, InT(jj + 1) != NONE, z3.Not(compat(OutT(jj), InT(jj + 1))))
        return z3.And(
            z3.ForAll([j], z3.Implies(z3.And(j >= 0, j < i, j + 1 < sq.n, bad_adj(j)), errlen(h, sq, j + 1) > errlen(h0, sq, j + 1))),
            z3.ForAll([j], z3.Implies(z3.And(j >= 0, j < sq.n, z3.Or(j > i, j == 0, z3.Not(bad_adj(j - 1)))), errlen(h, sq, j) == errlen(h0, sq, j))))

    def inv_carried(c):
        """loop `for node in inspection.nodes` carrying the nearest preceding typed node in `previous_node`"""
        sq, h0 = spec._tf
        h = c.h
        i = c.i
        bad = lambda jj: z3.And(Arr(jj) != NONE, InT(jj) != NONE, z3.Not(compat(Arr(jj), InT(jj))))
        prev = c.I.lift(c.var("previous_node"))
        carried = z3.And(LT(i) >= -1, LT(i) < i,
                         z3.If(LT(i) == -1, prev == NONE, z3.And(prev == sq.at(LT(i)), OutT(LT(i)) != NONE, spec._elem_fact(LT(i)))))
        return z3.And(
            carried,
            z3.ForAll([j], z3.Implies(z3.And(j >= 0, j < i, bad(j)), errlen(h, sq, j) > errlen(h0, sq, j))),
            z3.ForAll([j], z3.Implies(z3.And(j >= 0, j < sq.n, z3.Or(j >= i, z3.Not(bad(j)))), errlen(h, sq, j) == errlen(h0, sq, j))))

    def I_lift(c, v):
        return c.I.lift(v)

    def modifies(c):
        # only the error lists of the inspected nodes may change (lists that existed at entry)
        return []
    import ast as _ast
    fnode, _ = source.find_def(VAL, "_validate_data_flow_compatibility")
    loops = sorted([n for n in _ast.walk(fnode) if isinstance(n, (_ast.For, _ast.While))], key=lambda n: n.lineno)
    is_range = bool(loops) and isinstance(loops[0].iter, _ast.Call) and getattr(loops[0].iter.func, "id", "") == "range"
    spec.loop(VAL, "_validate_data_flow_compatibility", 1,
              LoopSpec(inv_adjacent if is_range else inv_carried, modifies_heap=True, frame_except=lambda c: ERRLISTS(c, spec)))
    E.run_function(spec, "_validate_data_flow_compatibility", body)


IsErrList = z3.Function("IsErrList", I_, core.B)    # ghost: r is the `errors` list of one of the inspected nodes


def ERRLISTS(c, spec):
    """frame of the validation loop: only the error lists of the inspected nodes may change"""
    return [lambda r: IsErrList(r)]


TASKS = [h_inspect_origin, h_is_compatible, h_type_flow]
FACTORIES = {"h_is_compatible": CompatSpec}


def factory():
    return Spec()


def _wrap(task):
    def run(spec):
        fac = FACTORIES.get(task.__name__)
        if fac is None:
            return task(spec)
        s2 = fac()
        s2.obligations, s2._seen, s2.undecided, s2.functions = spec.obligations, spec._seen, spec.undecided, spec.functions
        s2.used_contracts = spec.used_contracts
        task(s2)
        spec.path_count += s2.path_count
        spec.assumptions |= s2.assumptions
    run.__name__ = task.__name__
    return run


WRAPPED = [_wrap(t) for t in TASKS]


def replay(ob):
    payload = {"obligation": ob.name, "solver": ob.backend, "model": report.model_summary(ob), "goal": ob.goal if isinstance(ob.goal, str) else str(ob.goal)[:800]}
    script = os.path.join(report.ROOT, "replay", "c02_replay.py")
    res, proc = report.native_json(script, {"obligation": ob.name})
    payload["native"] = res
    payload["stderr"] = (proc.stderr or "")[-400:]
    return bool(res and res.get("violates")), payload


def main(tier="quick", seed=0):
    run = report.Run(PROP, tier, seed)
    spec = factory()
    faults = E.run_parallel(spec, factory, WRAPPED, timeout_ms=10000 if tier == "quick" else 30000)
    if faults:
        run.engine_fault = faults[0][-1500:]
    generic_refutations(run, spec, PROP, replay)
    run_bounded(run, PROP, "c02_bounded.py", tier)
    return run.finish(spec, "proof", "origin classification, type gate and type-flow validation proved; flow analysis bounded; see DESIGN.md C02")


if __name__ == "__main__":
    t, s = tier_and_seed()
    sys.exit(main(t, s))
