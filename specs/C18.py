"""C18 — repeated execution leaves no per-run residue in the process.

What a contract can say: "no growth with N" is a statement about unboundedly many runs of the whole framework; the only
process-wide registry the framework owns is the component registry, and its size is decided by one function.
Deductive part (real code, re-read every run):
  _SemantivaComponentMeta.__init__  (the metaclass hook that registers every component class, including the node wrappers, IO
  adapters and string-defined processors regenerated on every run), for an arbitrary registry and class:
     R1  a class whose (module, qualified name) is already registered under its category REPLACES that entry: the list keeps
         its length, every other entry is untouched;
     R2  otherwise it is appended: length + 1, earlier entries untouched;
     R3  other categories and a class without metadata / category change nothing;
     R4  the registry is only touched under _REGISTRY_LOCK.
  Consequence (argument, DESIGN.md): the registry never holds more entries than there are distinct (category, module, qualified
  name) triples, a number fixed by the configurations in use and not by how often they are run; regenerated classes are no longer
  kept alive by the registry.
NOT decidable by contracts here (bounded tier only): that generated class names are functions of the configuration, that nothing
else in the process retains per-run objects (gc population), logger handlers, the four ways of repeating a run.
Bounded stand-in (labelled bounded): counts over N runs after warm-up (replay/c18_bounded.py).
"""
from __future__ import annotations
import sys, os
import z3
from .common import *
from pyvc.interp import frame_eq
from pyvc.core import Sq

PROP = "C18"
COMP = "semantiva/core/semantiva_component.py"
I_ = core.I
S_ = z3.StringSort()
ModOf = z3.Function("ModuleOf", I_, S_)
QualOf = z3.Function("QualnameOf", I_, S_)


class Spec(PureLibMixin, BaseSpec):
    def __init__(self):
        super().__init__(PROP)
        self.inline_files |= {COMP}
        self.obj_methods = {"get_metadata": self.m_get_metadata}
        self.assumptions |= {
            "ABCMeta.__init__ (super().__init__) does not touch the component registry",
            "generated class names are functions of the node configuration, not of a run counter (bounded tier only)",
            "what else may retain per-run objects (transports, loggers, caches) is not under contract: bounded tier only",
        }

    def global_override(self, module, name):
        if name == "_COMPONENT_REGISTRY":
            return self.REGISTRY
        if name == "_REGISTRY_LOCK":
            return V.obj(z3.Int("registry_lock"))
        if name == "_SemantivaComponent":
            return V.obj(z3.Int("_SemantivaComponent_root"))
        return None

    def with_enter(self, I, cm):
        I.st.ghost["held"] = I.st.ghost.get("held", 0) + 1
        return I.lift(cm)

    def with_exit(self, I, item):
        I.st.ghost["held"] = I.st.ghost.get("held", 0) - 1

    def on_write(self, I, what, ref, key):
        st = I.st
        if getattr(self, "ENTRIES", None) is not None and is_v(ref):
            touched = z3.Or(V.id(I.lift(ref)) == V.id(self.REGISTRY), V.id(I.lift(ref)) == V.id(self.ENTRIES))
            if st.feasible(touched):
                self.oblige(I, "R4/registry-written-only-under-the-registry-lock", z3.Implies(touched, z3.BoolVal(st.ghost.get("held", 0) > 0)))

    def m_get_metadata(self, I, recv, args, kwargs, star):
        st = I.st
        c = st.choose(3, "get_metadata")
        if c == 0:
            return self.META
        if c == 1:
            st.ghost["no_category"] = True
            d = st.new_dict()
            return d
        st.ghost["no_category"] = True
        raise PyRaise(O.HExc(z3.IntVal(bcls(Exception).cid), origin=("get_metadata",)))

    def obj_attr(self, I, v, name):
        o = V.oid(v)
        if name == "__module__":
            return vstr(ModOf(o))
        if name == "__qualname__":
            return vstr(QualOf(o))
        if name == "__name__":
            return vstr(z3.Function("NameOf", I_, S_)(o))      # not tied to the qualified name: factories rename __name__ afterwards
        if name == "get_metadata":
            if v.eq(self.CLS) and I.st.choose(2, "has get_metadata?") == 1:
                I.st.ghost["no_category"] = True
                return MISSING
            return O.HMeth(v, name)
        return super().obj_attr(I, v, name)

    def eq_override(self, I, a, b):
        return None

    def opaque_super(self, I, sup, c, name):
        return O.HExt("builtins.__noop__")

    def ext_call(self, I, dotted, args, kwargs, star):
        if dotted == "builtins.__noop__":
            return NONE
        return super().ext_call(I, dotted, args, kwargs, star)


def h_register(spec):
    fn_info(spec, COMP, "_SemantivaComponentMeta.__init__")

    def body(I):
        st = I.st
        spec.REGISTRY = in_dict(I, "COMPONENT_REGISTRY")
        spec.ENTRIES = in_list(I, "entries_of_the_category")
        spec.META = in_dict(I, "metadata")
        spec.CLS = V.obj(z3.Int("cls"))
        cat = vstr(z3.String("category"))
        h = st.h
        n = z3.Select(h.llen, V.id(spec.ENTRIES))
        st.assume(n >= 0)
        # metadata: component_type present (a non-empty string) or not
        has_cat = z3.Select(ddom(h, spec.META), vstr("component_type"))
        st.assume(z3.Implies(has_cat, z3.Select(dval(h, spec.META), vstr("component_type")) == cat))
        st.assume(z3.Length(z3.String("category")) > 0)
        # the category's entry list, if the category is known
        known_cat = z3.Select(ddom(h, spec.REGISTRY), cat)
        st.assume(z3.Implies(known_cat, z3.Select(dval(h, spec.REGISTRY), cat) == spec.ENTRIES))
        hs = h.copy()
        st.list_instantiators.append(lambda lid, idx: z3.Implies(z3.And(idx >= 0, idx < n), V.is_obj(z3.Select(z3.Select(hs.larr, V.id(spec.ENTRIES)), idx))))
        j_ = z3.Int("j!ent")
        st.assume(z3.ForAll([j_], z3.Implies(z3.And(j_ >= 0, j_ < n), V.is_obj(z3.Select(z3.Select(hs.larr, V.id(spec.ENTRIES)), j_)))))
        # other categories map to other lists
        kk = z3.Const("k!cat", V)
        st.assume(z3.ForAll([kk], z3.Implies(z3.And(z3.Select(ddom(h, spec.REGISTRY), kk), kk != cat), z3.Select(dval(h, spec.REGISTRY), kk) != spec.ENTRIES)))
        ident = lambda o: (ModOf(o), QualOf(o))
        same = lambda e: z3.And(ModOf(V.oid(e)) == ModOf(V.oid(spec.CLS)), QualOf(V.oid(e)) == QualOf(V.oid(spec.CLS)))
        ent0 = lambda j: z3.Select(z3.Select(hs.larr, V.id(spec.ENTRIES)), j)
        import ast as _ast
        fnode, _ = source.find_def(COMP, "_SemantivaComponentMeta.__init__")
        loops = sorted([x for x in _ast.walk(fnode) if isinstance(x, (_ast.For, _ast.While))], key=lambda x: (x.lineno, x.col_offset))
        spec.loops.clear()
        for k, lp in enumerate(loops):
            def inv(c):
                j = z3.Int("j!srch")
                return z3.ForAll([j], z3.Implies(z3.And(j >= 0, j < c.i), z3.Not(same(ent0(j)))))
            spec.loop(COMP, "_SemantivaComponentMeta.__init__", k + 1, LoopSpec(inv, modifies_heap=False))
        bases = vtup([V.obj(z3.Int("some_base"))])
        st.assume(z3.Int("some_base") != z3.Int("_SemantivaComponent_root"))
        ci, f = E.method_of(I, COMP, "_SemantivaComponentMeta", "__init__")
        out = E.execute(I, f, [spec.CLS, vstr(z3.String("name")), bases, in_dict(I, "attrs")])
        spec.oblige(I, "registration-never-raises", z3.BoolVal(out[0] == "return"), meta={"exc": repr(out[1]) if out[0] != "return" else ""})
        if out[0] != "return":
            return
        h1 = st.h
        j = z3.Int("j!post")
        if st.ghost.get("no_category"):
            spec.oblige(I, "R3/no-metadata-or-no-category:registry-untouched", frame_eq(hs, h1, 0))
            return
        # the class has a category (has_cat decided on the path)
        n1 = z3.Select(h1.llen, V.id(spec.ENTRIES))
        ent1 = lambda jj: z3.Select(z3.Select(h1.larr, V.id(spec.ENTRIES)), jj)
        exists_same = z3.Exists([j], z3.And(j >= 0, j < n, same(ent0(j))))
        reg_same_keys = z3.ForAll([kk], z3.Implies(kk != cat, z3.And(z3.Select(ddom(h1, spec.REGISTRY), kk) == z3.Select(ddom(hs, spec.REGISTRY), kk),
                                                                    z3.Select(dval(h1, spec.REGISTRY), kk) == z3.Select(dval(hs, spec.REGISTRY), kk))))
        spec.oblige(I, "R3/other-categories-untouched", z3.Implies(has_cat, reg_same_keys))
        spec.oblige(I, "R1/known-qualified-name:entry-replaced,length-unchanged",
                    z3.Implies(z3.And(has_cat, known_cat, exists_same),
                               z3.And(n1 == n, z3.Exists([j], z3.And(j >= 0, j < n, same(ent0(j)), ent1(j) == spec.CLS,
                                                                     z3.ForAll([j_], z3.Implies(z3.And(j_ >= 0, j_ < n, j_ != j), ent1(j_) == ent0(j_))))))),
                    meta={"witness": "registry-growth"})
        spec.oblige(I, "R2/new-qualified-name:appended-once",
                    z3.Implies(z3.And(has_cat, known_cat, z3.Not(exists_same)),
                               z3.And(n1 == n + 1, ent1(n) == spec.CLS, z3.ForAll([j_], z3.Implies(z3.And(j_ >= 0, j_ < n), ent1(j_) == ent0(j_))))))
        spec.oblige(I, "R2/new-category:a-list-holding-just-this-class",
                    z3.Implies(z3.And(has_cat, z3.Not(known_cat)),
                               z3.And(z3.Select(ddom(h1, spec.REGISTRY), cat),
                                      z3.Select(h1.llen, V.id(z3.Select(dval(h1, spec.REGISTRY), cat))) == 1,
                                      z3.Select(z3.Select(h1.larr, V.id(z3.Select(dval(h1, spec.REGISTRY), cat))), 0) == spec.CLS)))
        spec.oblige(I, "R4/lock-released", z3.BoolVal(st.ghost.get("held", 0) == 0))
    E.run_function(spec, "_SemantivaComponentMeta.__init__", body)


TASKS = [h_register]


def factory():
    return Spec()


def replay(ob):
    payload = {"obligation": ob.name, "solver": ob.backend, "model": report.model_summary(ob), "meta": getattr(ob, "meta", {}),
               "goal": ob.goal if isinstance(ob.goal, str) else str(ob.goal)[:400]}
    script = os.path.join(report.ROOT, "replay", "c18_bounded.py")
    res, proc = report.native_json(script, {"tier": "quick", "seed": 0}, timeout=900)
    known = {k.get("witness_class") for k in report.open_findings(PROP).values()}
    fails = [f for f in (res or {}).get("failures", []) if f.get("class") not in known]
    payload["native"] = {"failures": fails[:5]}
    return bool(fails), payload


def main(tier="quick", seed=0):
    run = report.Run(PROP, tier, seed)
    spec = factory()
    faults = E.run_parallel(spec, factory, TASKS, timeout_ms=10000 if tier == "quick" else 30000)
    if faults:
        run.engine_fault = faults[0][-1500:]
    generic_refutations(run, spec, PROP, replay)
    run_bounded(run, PROP, "c18_bounded.py", tier, timeout=3000)
    return run.finish(spec, "proof", "idempotent registration in the component metaclass; population counts bounded; see DESIGN.md C18")


if __name__ == "__main__":
    t, s = tier_and_seed()
    sys.exit(main(t, s))
