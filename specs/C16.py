"""C16 — every class the factories generate satisfies the framework's own contracts.

Two halves.  "Passes the published contract catalogue" is a statement about ~40 reflective rules (inspect.signature, MRO walks,
metadata dictionaries) applied to classes built at run time by type()/new_class: no contract within reach of this tool chain can
express it for all configurations, so that half is decided only by the bounded tier (labelled bounded) and is listed as NOT proved.
The other half - the node wrapper mirrors the processor it wraps - is a per-function property and is proved on the real code:

  for each node-factory function (create_payload_source_node, create_payload_sink_node, create_data_source_node,
  create_data_sink_node, create_data_operation_node, create_probe_context_injector) executed symbolically with class creation and
  the IO adapter factory abstract: the class attributes handed to the generated node class are recorded, and the REAL class methods
  of the node base class (input_data_type / output_data_type / get_created_keys in pipeline/nodes/nodes.py) are then executed with
  exactly those attributes, for an arbitrary user component:
      sources            input = NoDataType, output = the component's output type; a payload source creates exactly its injected keys
      sinks              input = output = the component's input type, no created keys
      operations         input / output / created keys = the component's
      probe + context key  input = output = the probe's input type, created keys = [context_key]
  and the node instance is built from that generated class with the processor the pipeline will drive (the adapter for IO components).
Bounded stand-in (labelled bounded): 20 generated node configurations through the real factory + contract catalogue (replay/c16_bounded.py).
"""
from __future__ import annotations
import sys, os
import z3
from .common import *
from pyvc.core import Sq

PROP = "C16"
FACT = "semantiva/pipeline/nodes/_pipeline_node_factory.py"
NODES = "semantiva/pipeline/nodes/nodes.py"
I_ = core.I
TIn = z3.Function("InputTypeOf", I_, V)
TOut = z3.Function("OutputTypeOf", I_, V)
Keys = z3.Function("CreatedKeysOf", I_, V)
Injected = z3.Function("InjectedKeysOf", I_, V)
HasInjected = z3.Function("HasInjectedKeys", I_, core.B)
HasKeys = z3.Function("DefinesGetCreatedKeys", I_, core.B)


class ClsMethod:
    """classmethod(f) placed into a generated class namespace"""

    def __init__(self, fn):
        self.fn = fn
Adapter = z3.Function("IOAdapterOf", I_, I_)
NameOf = z3.Function("ClassNameOf", I_, z3.StringSort())

CASES = {
    # factory function: (node base class, how it is called, expected (input, output, created) as functions of the user component u)
    "create_payload_source_node": ("_PayloadSourceNode", "io"),
    "create_payload_sink_node": ("_PayloadSinkNode", "io"),
    "create_data_source_node": ("_DataSourceNode", "io"),
    "create_data_sink_node": ("_DataSinkNode", "io"),
    "create_data_operation_node": ("_DataOperationNode", "proc"),
    "create_probe_context_injector": ("_ProbeContextInjectorNode", "probe"),
}


class Spec(PureLibMixin, BaseSpec):
    def __init__(self):
        super().__init__(PROP)
        self.inline_files |= {FACT}
        self.inline |= {(NODES, f"{c}.{m}") for c, _ in CASES.values() for m in ("input_data_type", "output_data_type", "get_created_keys")}
        self.inline |= {(NODES, f"{c}.{m}") for c in ("_ProbeNode", "_DataNode", "_DataOperationNode") for m in ("input_data_type", "output_data_type", "get_created_keys")}
        self.obj_methods = {"input_data_type": lambda I, r, a, k, s: TIn(V.oid(r)), "output_data_type": lambda I, r, a, k, s: TOut(V.oid(r)),
                            "get_created_keys": lambda I, r, a, k, s: Keys(V.oid(r)), "injected_context_keys": lambda I, r, a, k, s: Injected(V.oid(r))}
        self.ATTRS = None
        self.assumptions |= {
            "class creation (_create_class / types.new_class) builds a subclass of the given base whose namespace holds exactly the given attributes; the IO adapter factory returns a DataOperation adapter that does not itself define injected_context_keys",
            "the contract catalogue half of C16 (validate_components on every generated class) is NOT under contract: bounded tier only",
            "slicer and sweep wrappers (classes generated inside closures) are outside the proof harness: bounded tier only",
        }

    # ---- abstract user component / adapter --------------------------------------------------------------------------
    def obj_attr(self, I, v, name):
        o = V.oid(v)
        if name == "__name__":
            return vstr(NameOf(o))
        if name == "injected_context_keys":
            # only a payload source may define it; the generated adapter does not
            s = z3.simplify(o)
            if z3.is_app(s) and s.decl().name() == "IOAdapterOf":
                return MISSING
            if I.st.decide(HasInjected(o), "component defines injected_context_keys"):
                return O.HMeth(v, name)
            return MISSING
        if name == "get_created_keys" and getattr(self, "KEYS_OPTIONAL", False):
            # a data source may or may not define get_created_keys (the generated node asks with getattr(..., default))
            if I.st.decide(HasKeys(o), "component defines get_created_keys"):
                return O.HMeth(v, name)
            return MISSING
        if name in self.obj_methods:
            return O.HMeth(v, name)
        return super().obj_attr(I, v, name)

    def ext_call(self, I, dotted, args, kwargs, star):
        if dotted == "builtins.classmethod":
            return ClsMethod(args[0])
        return super().ext_call(I, dotted, args, kwargs, star)

    def obj_truthy(self, I, v):
        return z3.BoolVal(True)

    # ---- abstract class creation ----------------------------------------------------------------------------------------
    def call_override(self, I, f, args, kwargs, star):
        fn = f.func if isinstance(f, O.HBound) else f
        if not isinstance(fn, O.HFunc):
            return MISSING
        if fn.node.name == "_create_class":
            base = kwargs.get("base_cls", args[1] if len(args) > 1 else None)
            attrs = {k: v for k, v in kwargs.items() if k not in ("name", "base_cls")}
            self.CREATED = {"base": I.lower(base), "attrs": attrs, "name": kwargs.get("name", args[0] if args else None)}
            return V.obj(z3.Int("generated_node_class"))
        if fn.node.name == "create_data_operation" and "IOOperationFactory" in fn.qual:
            return V.obj(Adapter(V.oid(I.lift(args[0]))))
        return MISSING

    def call_value(self, I, f, args, kwargs, star):
        # instantiating the generated node class
        if is_v(f) and f.eq(V.obj(z3.Int("generated_node_class"))):
            self.INSTANCE_ARGS = {"args": list(args), "kwargs": dict(kwargs)}
            return V.obj(z3.Int("node_instance"))
        return super().call_value(I, f, args, kwargs, star)

    def class_attr_override(self, I, ci, name):
        if self.ATTRS is not None and name in self.ATTRS:
            return self.ATTRS[name]
        return None


def h_factory(spec):
    for fname, (base, kind) in CASES.items():
        fn_info(spec, FACT, f"_PipelineNodeFactory.{fname}")
        import ast as _ast
        cnode, _ = source.find_def(NODES, base)
        own = {n.name for n in cnode.body if isinstance(n, _ast.FunctionDef)}
        for m in ("input_data_type", "output_data_type", "get_created_keys"):
            if m in own:
                fn_info(spec, NODES, f"{base}.{m}")
            elif base == "_ProbeContextInjectorNode":
                fn_info(spec, NODES, f"_ProbeNode.{m}")

    def mk(fname, base, kind):
        def body(I):
            st = I.st
            user = V.obj(z3.Int("user_component"))
            u = V.oid(user)
            params = in_dict(I, "parameters")
            logger = V.obj(z3.Int("logger"))
            spec.ATTRS, spec.CREATED, spec.INSTANCE_ARGS = None, None, None
            ci, f = E.method_of(I, FACT, "_PipelineNodeFactory", fname)
            spec.KEYS_OPTIONAL = base == "_DataSourceNode"
            if kind == "probe":
                ckey = vstr(z3.String("context_key"))
                st.assume(z3.Length(z3.String("context_key")) > 0)        # precondition (the factory rejects an empty key)
                out = E.execute(I, f, [user, ckey], {"parameters": params, "logger": logger})
            else:
                out = E.execute(I, f, [user], {"parameters": params, "logger": logger})
            spec.oblige(I, f"{fname}/never-raises", z3.BoolVal(out[0] == "return"), meta={"exc": repr(out[1]) if out[0] != "return" else ""})
            if out[0] != "return" or spec.CREATED is None:
                spec.oblige(I, f"{fname}/a-node-class-is-generated", z3.BoolVal(spec.CREATED is not None))
                return
            created = spec.CREATED
            base_ci = created["base"]
            spec.oblige(I, f"{fname}/generated-class-derives-from-{base}", z3.BoolVal(isinstance(base_ci, O.ClassInfo) and base_ci.name == base))
            inst = spec.INSTANCE_ARGS
            spec.oblige(I, f"{fname}/returns-an-instance-of-the-generated-class", z3.BoolVal(inst is not None and I.lift(out[1]).eq(V.obj(z3.Int("node_instance")))))
            if inst is not None:
                a_ = inst["args"]
                drives = inst["kwargs"].get("processor", a_[0] if a_ else None)
                want = V.obj(Adapter(u)) if kind == "io" else user
                spec.oblige(I, f"{fname}/node-instance-drives-" + ("the-IO-adapter-of-the-component" if kind == "io" else "the-component"), I.lift(drives) == want)
                if kind == "probe":      # _ProbeContextInjectorNode(processor, context_key, processor_parameters, logger)
                    got_p, got_l = (a_[2] if len(a_) > 2 else NONE), (a_[3] if len(a_) > 3 else NONE)
                    spec.oblige(I, f"{fname}/context-key-handed-to-the-instance", I.lift(a_[1] if len(a_) > 1 else NONE) == vstr(z3.String("context_key")))
                else:
                    got_p, got_l = inst["kwargs"].get("processor_parameters", NONE), inst["kwargs"].get("logger", NONE)
                spec.oblige(I, f"{fname}/parameters-and-logger-handed-on", z3.And(I.lift(got_p) == params, I.lift(got_l) == logger))
            if not isinstance(base_ci, O.ClassInfo):
                return
            # the real class methods of the node base class, with the attributes the factory put into the generated class
            spec.ATTRS = created["attrs"]
            res = {}
            for m in ("input_data_type", "output_data_type", "get_created_keys"):
                ov = created["attrs"].get(m)
                if isinstance(ov, ClsMethod):
                    # the factory put its own classmethod into the generated class: that one is what the node class answers with
                    try:
                        r = ("return", I.call(ov.fn, [base_ci]))
                    except PyRaise as pr:
                        r = ("raise", pr.exc)
                else:
                    owner, node = base_ci.lookup(m)
                    mf = O.HFunc(node, owner.module, None, owner.name + "." + m, owner=owner)
                    r = E.execute(I, mf, [base_ci])
                if r[0] != "return":
                    spec.oblige(I, f"{fname}/{base}.{m}-never-raises", z3.BoolVal(False), meta={"exc": repr(r[1])})
                    return
                res[m] = r[1]
            mod = source.load_module(NODES)
            nodata = I.resolve_global(mod, "NoDataType")
            nodata_v = I.lift(nodata) if is_v(nodata) else None

            def is_nodata(x):
                x = I.lower(x)
                return z3.BoolVal(x is nodata or (isinstance(x, O.ClassInfo) and isinstance(nodata, O.ClassInfo) and x.cid == nodata.cid)
                                  or (isinstance(x, O.HExt) and isinstance(nodata, O.HExt) and x.dotted == nodata.dotted))

            def list_is(v, items):
                v = I.lift(v)
                if I.tag(v) != "ref":
                    return z3.BoolVal(False)
                sq = st.list_sq(v)
                return z3.And([sq.n == len(items)] + [sq.at(i) == it for i, it in enumerate(items)])
            tin, tout, keys = res["input_data_type"], res["output_data_type"], res["get_created_keys"]
            if base in ("_PayloadSourceNode", "_DataSourceNode"):
                spec.oblige(I, f"{fname}/a-source-node-takes-no-data", is_nodata(tin))
                spec.oblige(I, f"{fname}/node-output-type=the-component's-output-type", I.lift(tout) == TOut(u), meta={"witness": "mirror"})
                if base == "_PayloadSourceNode":
                    spec.oblige(I, f"{fname}/created-keys=the-component's-injected-keys",
                                z3.If(HasInjected(u), I.lift(keys) == Injected(u), list_is(keys, [])) if is_v(I.lift(keys)) else z3.BoolVal(False), meta={"witness": "mirror"})
                else:
                    spec.oblige(I, f"{fname}/created-keys=the-component's-created-keys(none-if-it-declares-none)",
                                z3.If(HasKeys(u), I.lift(keys) == Keys(u), list_is(keys, [])), meta={"witness": "mirror"})
            elif base in ("_PayloadSinkNode", "_DataSinkNode"):
                spec.oblige(I, f"{fname}/node-input-type=the-component's-input-type", I.lift(tin) == TIn(u), meta={"witness": "mirror"})
                spec.oblige(I, f"{fname}/a-sink-passes-its-input-type-through", I.lift(tout) == TIn(u), meta={"witness": "mirror"})
                spec.oblige(I, f"{fname}/no-created-keys", list_is(keys, []))
            elif base == "_DataOperationNode":
                spec.oblige(I, f"{fname}/node-input-type=the-component's-input-type", I.lift(tin) == TIn(u), meta={"witness": "mirror"})
                spec.oblige(I, f"{fname}/node-output-type=the-component's-output-type", I.lift(tout) == TOut(u), meta={"witness": "mirror"})
                spec.oblige(I, f"{fname}/created-keys=the-component's-created-keys", I.lift(keys) == Keys(u), meta={"witness": "mirror"})
            else:
                spec.oblige(I, f"{fname}/node-input-type=the-probe's-input-type", I.lift(tin) == TIn(u), meta={"witness": "mirror"})
                spec.oblige(I, f"{fname}/a-probe-passes-its-input-type-through", I.lift(tout) == TIn(u), meta={"witness": "mirror"})
                spec.oblige(I, f"{fname}/created-keys=[context_key]", list_is(keys, [vstr(z3.String("context_key"))]), meta={"witness": "mirror"})
        return body
    for fname, (base, kind) in CASES.items():
        E.run_function(spec, fname, mk(fname, base, kind))


TASKS = [h_factory]


def factory():
    return Spec()


def replay(ob):
    payload = {"obligation": ob.name, "solver": ob.backend, "model": report.model_summary(ob), "meta": getattr(ob, "meta", {}),
               "goal": ob.goal if isinstance(ob.goal, str) else str(ob.goal)[:400]}
    script = os.path.join(report.ROOT, "replay", "c16_bounded.py")
    res, proc = report.native_json(script, {"tier": "quick", "seed": 0})
    fails = (res or {}).get("failures", [])
    payload["native"] = {"failures": fails[:5]}
    return bool(fails), payload


def main(tier="quick", seed=0):
    run = report.Run(PROP, tier, seed)
    spec = factory()
    faults = E.run_parallel(spec, factory, TASKS, timeout_ms=10000 if tier == "quick" else 30000)
    if faults:
        run.engine_fault = faults[0][-1500:]
    generic_refutations(run, spec, PROP, replay)
    run_bounded(run, PROP, "c16_bounded.py", tier)
    return run.finish(spec, "proof", "node wrappers mirror the wrapped component (factory functions composed with the real node class methods); contract catalogue bounded; see DESIGN.md C16")


if __name__ == "__main__":
    t, s = tier_and_seed()
    sys.exit(main(t, s))
