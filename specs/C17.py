"""C17 — the CLI never executes a configuration its pre-flight checks reject.   (also carries the run loop of C09)

Deductive part: the real semantiva.cli._run (400 lines, re-read on every run) is executed symbolically with every callee
abstract (YAML loading, config parsing, inspection, validation, trace/execution factories, Pipeline, run-space expansion,
identity/launch services, emitter) and the flags --validate, --dry-run, --run-space-dry-run, --run-space-max-runs, --context
symbolic.  Ghost state: executed (calls of pipeline.process), emit_start / emit_end counts.
Obligations on every exit:
  * any rejection (config parse error, validation error, missing required key, run-space error or cap, --validate, --dry-run,
    run-space dry run) returns the documented EXIT code with executed == 0 and no run_space_start emitted;
  * `--run-space-dry-run` / `--run-space-max-runs` reach the parsed configuration (contract of the parser: dry_run / max_runs are
    read from config['run_space']);
  * the run loop (any number of runs): invariant runs_completed == idx == executed, exit_code == 0; return 0 iff every planned
    run completed; after a failing run no further run starts; run_space_start / run_space_end bracket the loop exactly once
    with planned = number of runs and completed = runs finished, also when a run fails or is interrupted.
Bounded stand-in (labelled bounded): CLI subprocess-free invocations of semantiva.cli.main on generated configurations,
  checking sink files / trace directories (replay/c17_bounded.py).
"""
from __future__ import annotations
import sys, os
import z3
from .common import *
from pyvc.interp import frame_eq
from pyvc.core import Sq

PROP = "C17"
CLI = "semantiva/cli/__init__.py"
I_ = core.I
EXIT = {"SUCCESS": 0, "CLI": 1, "FILE": 2, "CONFIG": 3, "RUNTIME": 4, "INTERRUPT": 5}


FLAGS = {}      # per task: concrete values of the four gate flags (the 16 combinations are 16 parallel tasks)


def flag(name):
    return z3.BoolVal(FLAGS[name]) if name in FLAGS else z3.Bool("arg_" + name)


class Spec(PureLibMixin, BaseSpec):
    def __init__(self):
        super().__init__(PROP)
        self.inline |= {(CLI, "_run")}
        self.inline_files |= {"semantiva/trace/runtime/context.py"}
        self.obj_methods = {
            "set_run_metadata": self.m_noop, "process": self.m_process, "emit_start": self.m_emit_start, "emit_end": self.m_emit_end,
            "expanduser": self.m_same, "resolve": self.m_same, "compute": self.m_compute, "create_launch": self.m_create_launch,
            "to_dict": self.m_to_dict, "replace": lambda I, r, a, k, s: vstr(fresh("s", z3.StringSort())),
            "info": self.m_noop, "debug": self.m_noop, "warning": self.m_noop, "error": self.m_noop,
        }
        self.assumptions |= {
            "every callee of _run is abstract: _load_yaml, parse_pipeline_config (contract: run_space.dry_run / max_runs are read from config['run_space']; raises on invalid config), build_pipeline_inspection, validate_pipeline (raises on rejection), _build_trace_driver, _build_execution_components, Pipeline, expand_run_space (raises the configuration / max-runs error), RunSpaceIdentityService, RunSpaceLaunchManager, RunSpaceTraceEmitter",
            "flags not listed in the property (--set, --exec-*, --trace-*, --run-space-file, --verbose) are fixed to 'not given' in this harness; they are exercised by the bounded tier",
            "pipeline.process is abstract: returns a payload or raises Exception / KeyboardInterrupt",
        }

    # ---- abstract objects ---------------------------------------------------------------------------
    def m_noop(self, I, recv, args, kwargs, star):
        return NONE

    def m_same(self, I, recv, args, kwargs, star):
        return recv

    def m_to_dict(self, I, recv, args, kwargs, star):
        return I.st.new_dict()

    def m_process(self, I, recv, args, kwargs, star):
        st = I.st
        st.ghost["executed"] = st.ghost["executed"] + 1
        c = st.choose(3, "process outcome")
        if c == 0:
            return V.obj(fresh("result_payload", I_))
        if c == 1:
            ex = self.exc_under(I, bcls(Exception))
            st.ghost["run_failed"] = "exception"
            raise PyRaise(ex)
        st.ghost["run_failed"] = "interrupt"
        I.raise_(KeyboardInterrupt, origin=("process",))

    def exc_under(self, I, bound):
        c = fresh("exc_cls", I_)
        I.st.mention(bound, target=True)
        I.st.symcls.append(c)
        I.st.assume(issub(c, bound.cid))
        ki = bcls(KeyboardInterrupt)
        I.st.mention(ki, target=True)
        I.st.assume(z3.Not(issub(c, ki.cid)))
        return O.HExc(c, origin=("abstract",))

    def m_emit_start(self, I, recv, args, kwargs, star):
        st = I.st
        st.ghost["emit_start"] = st.ghost["emit_start"] + 1
        st.ghost["planned"] = I.lift(kwargs["run_space_planned_run_count"])
        return NONE

    def m_emit_end(self, I, recv, args, kwargs, star):
        st = I.st
        st.ghost["emit_end"] = st.ghost["emit_end"] + 1
        summary = kwargs["summary"]
        st.ghost["end_planned"] = z3.Select(dval(st.h, summary), vstr("planned_runs"))
        st.ghost["end_completed"] = z3.Select(dval(st.h, summary), vstr("completed_runs"))
        st.ghost["end_status"] = z3.If(z3.Select(ddom(st.h, summary), vstr("status")), z3.Select(dval(st.h, summary), vstr("status")), NONE)
        return NONE

    def m_compute(self, I, recv, args, kwargs, star):
        if I.st.choose(2, "identity ok?") == 0:
            return V.obj(fresh("run_space_ids", I_))
        I.raise_(FileNotFoundError, origin=("identity",))

    def m_create_launch(self, I, recv, args, kwargs, star):
        return V.obj(fresh("launch", I_))

    def obj_attr(self, I, v, name):
        st = I.st
        o = V.oid(v)
        if name in self.obj_methods:
            return O.HMeth(v, name)
        if self.ARGS is not None and v.eq(self.ARGS):
            return self.arg_value(I, name)
        if name in ("nodes", "trace", "execution", "base_dir", "raw", "parent", "resolved_spec", "fingerprints",
                    "message", "actual_runs", "max_runs"):
            if name == "raw":
                return NONE
            r = z3.Function("Attr_" + name, I_, V)(o)
            st.assume(z3.Implies(V.is_ref(r), V.id(r) <= 0))
            if name in ("nodes", "resolved_spec"):
                return in_list(I, "cfg_" + name + str(len(st.pc)))
            return r
        if name == "attempt":
            return vint(z3.Function("AttrI_attempt", I_, I_)(o))
        if name in ("id", "spec_id", "inputs_id"):
            return vstr(z3.Function("AttrS_" + name, I_, z3.StringSort())(o))     # launch / identity records carry string ids
        if name in ("data", "context"):
            return V.obj(z3.Function("AttrO_" + name, I_, I_)(o))
        if name == "run_space":
            return self.RUN_SPACE
        if name == "dry_run":
            return vbool(self.cfg_dry_run)
        if name == "required_context_keys":
            return self.REQUIRED
        if name == "key_origin":
            # inspection.key_origin: which node produces which context key (any mapping)
            if getattr(self, "KEY_ORIGIN", None) is None:
                self.KEY_ORIGIN = in_dict(I, "key_origin")
            return self.KEY_ORIGIN
        return super().obj_attr(I, v, name)

    def arg_value(self, I, name):
        fixed_none = {"exec_orchestrator", "exec_executor", "exec_transport", "exec_options", "trace_driver", "trace_output", "trace_options",
                      "run_space_file", "run_space_launch_id", "run_space_idempotency_key", "run_space_attempt"}
        if name in fixed_none:
            return NONE
        if name in ("verbose", "quiet"):
            return vbool(False)
        if name in ("validate", "dry_run", "run_space_dry_run"):
            return vbool(flag(name))
        if name == "run_space_max_runs":
            return z3.If(flag("max_runs_given"), vint(z3.Int("arg_max_runs")), NONE)
        if name == "overrides":
            return I.st.new_list()
        if name == "contexts":
            return self.CONTEXTS
        if name == "pipeline":
            return vstr(z3.String("arg_pipeline"))
        raise OutsideSubset(f"CLI argument {name}")

    def obj_truthy(self, I, v):
        return z3.BoolVal(True)

    # ---- abstract callees -----------------------------------------------------------------------------
    def call_override(self, I, f, args, kwargs, star):
        st = I.st
        fn = f.func if isinstance(f, O.HBound) else f
        if not isinstance(fn, O.HFunc):
            return MISSING
        name = fn.node.name
        if name == "_configure_logger":
            return V.obj(z3.IntVal(-7))
        if name == "_load_yaml":
            c = st.choose(3, "yaml top level")
            if c == 0:
                return self.RAW
            if c == 1:
                return NONE
            return vstr(z3.String("not_a_mapping"))
        if name == "_parse_key_value":
            if st.choose(2, "key=value ok?") == 0:
                return vtup([vstr(fresh("ctxkey", z3.StringSort())), fresh("ctxval")])
            I.raise_(ValueError, origin=("_parse_key_value",))
        if name == "parse_pipeline_config":
            cfg = I.lift(args[0])
            if st.choose(2, "config parses?") == 0:
                # contract of the parser: run_space.dry_run / max_runs are read from config["run_space"]
                h = st.h
                rs = z3.If(z3.Select(ddom(h, cfg), vstr("run_space")), z3.Select(dval(h, cfg), vstr("run_space")), NONE)
                has = z3.And(V.is_ref(rs), z3.Select(st.kinds, V.id(rs)) == K_DICT)
                dr = z3.If(z3.Select(ddom(h, rs), vstr("dry_run")), z3.Select(dval(h, rs), vstr("dry_run")), vbool(False))
                self.cfg_dry_run = z3.And(has, I.truthy(dr))
                mr = z3.If(z3.Select(ddom(h, rs), vstr("max_runs")), z3.Select(dval(h, rs), vstr("max_runs")), vint(1000))
                st.ghost["cfg_max_runs"] = z3.If(has, mr, vint(1000))
                st.ghost["cfg_dry_run"] = self.cfg_dry_run
                return V.obj(fresh("pipeline_cfg", I_))
            st.ghost["rejected"] = "parse"
            raise PyRaise(self.exc_under(I, bcls(Exception)))
        if name == "build_pipeline_inspection":
            return V.obj(fresh("inspection", I_))
        if name == "validate_pipeline":
            if st.choose(2, "validation passes?") == 0:
                return NONE
            st.ghost["rejected"] = "validation"
            raise PyRaise(self.exc_under(I, bcls(Exception)))
        if name == "_build_trace_driver":
            c = st.choose(3, "trace driver")
            if c == 0:
                return V.obj(fresh("trace_driver", I_))
            if c == 1:
                return NONE
            st.ghost["rejected"] = "trace-driver"
            raise PyRaise(self.exc_under(I, bcls(Exception)))
        if name == "_build_execution_components":
            if st.choose(2, "execution components ok?") == 0:
                return vtup([V.obj(fresh("orch", I_)), V.obj(fresh("transport", I_))])
            st.ghost["rejected"] = "execution-components"
            raise PyRaise(self.exc_under(I, bcls(Exception)))
        if name == "expand_run_space":
            c = st.choose(3, "run space expands?")
            if c == 0:
                return vtup([self.RUNS, self.fresh_dict(I)])
            mod = source.load_module(CLI)
            st.ghost["rejected"] = "run-space" if c == 1 else "max-runs"
            ci = I.resolve_global(mod, "PipelineConfigurationError" if c == 1 else "RunSpaceMaxRunsExceededError")
            raise PyRaise(O.HExc(z3.IntVal(ci.cid), kwargs={"message": vstr("m"), "actual_runs": vint(7), "max_runs": vint(3)}, origin=("expand",)))
        if name == "_print_run_space_plan":
            return NONE
        if name == "asdict":
            return self.fresh_dict(I)
        return MISSING

    def instantiate_override(self, I, ci, args, kwargs, star):
        if ci.name in ("Pipeline", "Payload", "ContextType", "NoDataType", "RunSpaceIdentityService", "RunSpaceLaunchManager", "RunSpaceTraceEmitter"):
            if ci.name == "Pipeline":
                I.st.ghost["pipeline_built"] = True
            return V.obj(fresh(ci.name, I_))
        return MISSING

    def ext_call(self, I, dotted, args, kwargs, star):
        if dotted == "pathlib.Path":
            return V.obj(fresh("path", I_))
        if dotted in ("time.time",):
            return V.real(fresh("t", z3.RealSort()))
        if dotted == "dataclasses.asdict":
            return self.fresh_dict(I)
        return super().ext_call(I, dotted, args, kwargs, star)

    def fresh_dict(self, I):
        st = I.st
        d = st.new_dict()
        rid = V.id(d)
        st.h.ddom = z3.Store(st.h.ddom, rid, fresh("dom", core.VSet))
        st.h.dval = z3.Store(st.h.dval, rid, fresh("val", core.VMap))
        n = fresh("n", I_)
        st.assume(n >= 0)
        st.h.dlen = z3.Store(st.h.dlen, rid, n)
        st.h.dord = z3.Store(st.h.dord, rid, fresh("ord", core.VArr))
        return d


def loop_inv(spec):
    def inv(c):
        st = c.st
        g = st.ghost
        return z3.And(c.I.lift(c.var("runs_completed")) == V.int(c.i), c.I.lift(c.var("exit_code")) == vint(0),
                      g["executed"] == c.i, g["emit_end"] == 0)
    return inv


def h_run(spec, tag=""):
    fn_info(spec, CLI, "_run")
    import ast as _ast
    fnode, _ = source.find_def(CLI, "_run")
    loops = sorted([n for n in _ast.walk(fnode) if isinstance(n, (_ast.For, _ast.While))], key=lambda n: (n.lineno, n.col_offset))
    # ordinals: overrides loop, contexts loop, run loop, inner output-context loop
    run_loop_ord = next(i + 1 for i, n in enumerate(loops) if isinstance(n.iter, _ast.Call) and getattr(n.iter.func, "id", "") == "enumerate")
    ctx_loop_ord = next(i + 1 for i, n in enumerate(loops) if isinstance(n.iter, _ast.Attribute) and n.iter.attr == "contexts")

    def body(I):
        st = I.st
        spec.ARGS = V.obj(z3.Int("args"))
        spec.RAW = in_dict(I, "raw_config")
        rs_in = z3.Select(dval(st.h, spec.RAW), vstr("run_space"))
        st.assume(z3.Implies(V.is_ref(rs_in), z3.And(V.id(rs_in) <= 0)))
        st.assume(z3.Implies(z3.Select(ddom(st.h, spec.RAW), vstr("run_space")),
                             z3.Or(rs_in == NONE, z3.And(V.is_ref(rs_in), z3.Select(st.h.kind, V.id(rs_in)) == K_DICT), V.is_str(rs_in))))
        spec.CONTEXTS = in_list(I, "contexts")
        st.assume(z3.Select(st.h.llen, V.id(spec.CONTEXTS)) >= 0)
        spec.RUNS = in_list(I, "runs")
        nruns = z3.Select(st.h.llen, V.id(spec.RUNS))
        st.assume(nruns >= 0)
        hs = st.h.copy()
        st.list_instantiators.append(lambda lid, idx: z3.Implies(
            z3.And(lid == V.id(spec.RUNS), idx >= 0, idx < nruns),
            z3.And(V.is_ref(z3.Select(z3.Select(hs.larr, lid), idx)), V.id(z3.Select(z3.Select(hs.larr, lid), idx)) <= 0,
                   z3.Select(hs.kind, V.id(z3.Select(z3.Select(hs.larr, lid), idx))) == K_DICT,
                   # contract of expand_run_space: the run dicts are its own objects, never the configuration's mappings
                   V.id(z3.Select(z3.Select(hs.larr, lid), idx)) != V.id(rs_in),
                   V.id(z3.Select(z3.Select(hs.larr, lid), idx)) != V.id(spec.RAW))))
        spec.REQUIRED = in_set(I, "required_context_keys")
        spec.KEY_ORIGIN = None
        spec.RUN_SPACE = V.obj(z3.Int("run_space_cfg"))
        spec.cfg_dry_run = z3.BoolVal(False)
        for k in ("executed", "emit_start", "emit_end"):
            st.ghost[k] = z3.IntVal(0)
        spec.loops.clear()
        def ctx_frame(c):
            spec.CTX = c.var("ctx_dict")
            return [spec.CTX]
        spec.CTX = None
        spec.loop(CLI, "_run", ctx_loop_ord, LoopSpec(lambda c: z3.BoolVal(True), modifies_heap=True, frame_except=ctx_frame))
        def run_frame(c):
            spec.H_LOOP = c.h0          # the heap when the run loop is entered (after all pre-flight checks)
            return [lambda r: r > c.entry["nalloc"]]       # an iteration changes nothing but objects created inside the loop
        spec.H_LOOP = None
        spec.loop(CLI, "_run", run_loop_ord, LoopSpec(loop_inv(spec), modifies_heap=True, frame_except=run_frame, ghost=("executed", "emit_end")))
        out = E.execute(I, E.hfunc(CLI, "_run"), [spec.ARGS])
        g = st.ghost
        if out[0] != "return":
            spec.oblige(I, "never-raises(returns-an-exit-code)", z3.BoolVal(False))
            return
        code = out[1]
        executed, es, ee = g["executed"], g["emit_start"], g["emit_end"]
        rej = g.get("rejected")
        spec.oblige(I, "exit-code-is-documented", z3.Or([code == vint(v) for v in EXIT.values()]))
        spec.oblige(I, "run_space_start/end-bracket-exactly-once", z3.And(es <= 1, ee == es))
        if rej is not None:
            spec.oblige(I, f"rejected({rej})/nothing-executed-and-config-error-code", z3.And(executed == 0, es == 0, code == vint(EXIT["CONFIG"])))
        spec.oblige(I, "--validate/nothing-executed", z3.Implies(z3.And(flag("validate"), code == vint(0)), z3.And(executed == 0, es == 0)))
        spec.oblige(I, "--validate/no-run-on-any-path", z3.Implies(flag("validate"), executed == 0))
        spec.oblige(I, "--dry-run/nothing-executed", z3.Implies(flag("dry_run"), z3.And(executed == 0, es == 0)))
        cfg_dry = g.get("cfg_dry_run")
        if cfg_dry is not None:
            spec.oblige(I, "run-space-dry-run(config)/nothing-executed", z3.Implies(cfg_dry, z3.And(executed == 0, es == 0)))
            # the CLI flags must reach the parsed configuration
            spec.oblige(I, "--run-space-dry-run/reaches-the-parsed-configuration", z3.Implies(flag("run_space_dry_run"), cfg_dry),
                        meta={"witness": "flag-lost"})
            spec.oblige(I, "--run-space-max-runs/reaches-the-parsed-configuration",
                        z3.Implies(flag("max_runs_given"), g["cfg_max_runs"] == vint(z3.Int("arg_max_runs"))), meta={"witness": "flag-lost"})
            spec.oblige(I, "--run-space-dry-run/nothing-executed", z3.Implies(flag("run_space_dry_run"), executed == 0), meta={"witness": "flag-lost"})
        # the single pre-flight check of required context keys
        if spec.CTX is not None and spec.H_LOOP is not None:
            k = fresh("any_key")          # an arbitrary key (validity with a free constant = for all keys)
            h = spec.H_LOOP
            runs0 = z3.Select(z3.Select(hs.larr, V.id(spec.RUNS)), 0)
            supplied = z3.Or(z3.Select(ddom(h, spec.CTX), k), z3.And(nruns > 0, z3.Select(ddom(hs, runs0), k)))
            spec.oblige(I, "execution-started/every-required-context-key-was-supplied(--context-or-run-space)",
                        z3.Implies(executed > 0, z3.Implies(z3.Select(z3.Select(hs.sdom, V.id(spec.REQUIRED)), k), supplied)), hints=[k])
        # the run loop
        failed = g.get("run_failed")
        spec.oblige(I, "exit-0-only-if-every-planned-run-completed-or-no-execution-was-requested",
                    z3.Implies(z3.And(code == vint(0), executed > 0), executed == nruns))
        if failed is not None:
            spec.oblige(I, f"failing-run({failed})/non-zero-exit-code",
                        code == vint(EXIT["RUNTIME"] if failed == "exception" else EXIT["INTERRUPT"]))
            spec.oblige(I, f"failing-run({failed})/no-later-run-started", executed <= nruns)
            if z3.is_true(z3.simplify(es == 1)) or True:
                spec.oblige(I, f"failing-run({failed})/run_space_end-reports-truthful-counts",
                            z3.Implies(es == 1, z3.And(g.get("end_planned", NONE) == g.get("planned", NONE),
                                                       g.get("end_completed", NONE) == vint(executed - 1),
                                                       g.get("end_status", NONE) == vstr("failed" if failed == "exception" else "interrupted"))))
        else:
            spec.oblige(I, "successful-launch/run_space_end-reports-all-runs",
                        z3.Implies(z3.And(es == 1, code == vint(0)), z3.And(g.get("end_planned", NONE) == g.get("planned", NONE),
                                                                           g.get("end_completed", NONE) == vint(nruns), g.get("end_status", NONE) == NONE)))
    E.run_function(spec, "_run" + tag, body, max_paths=int(os.environ.get("C17_MAXPATHS", "6000")))


h_run.shards = 16
LOADER = "semantiva/configurations/load_pipeline_from_yaml.py"


class ParserSpec(PureLibMixin, BaseSpec):
    """the parser contract the _run harness assumes: dry_run / max_runs are read from the run_space block as written"""

    def __init__(self):
        super().__init__(PROP)
        self.inline |= {(LOADER, "_parse_run_space_block")}

    def instantiate_override(self, I, ci, args, kwargs, star):
        if ci.name == "RunSpaceV1Config":
            o = I.st.new_inst(ci)
            for k, v in (("combine", vstr("combinatorial")), ("max_runs", vint(1000)), ("dry_run", vbool(False)), ("blocks", I.st.new_list())):
                I.setattr(o, k, v)
            return o
        return MISSING

    def isinstance_ext(self, I, v, cls):
        if cls.dotted in ("typing.Mapping", "collections.abc.Mapping"):
            v = I.lift(v)
            return z3.And(V.is_ref(v), z3.Select(I.st.kinds, V.id(v)) == K_DICT)
        return super().isinstance_ext(I, v, cls)


def h_parse_run_space(spec):
    s2 = ParserSpec()
    s2.obligations, s2._seen, s2.undecided, s2.functions, s2.used_contracts = spec.obligations, spec._seen, spec.undecided, spec.functions, spec.used_contracts
    fn_info(s2, LOADER, "_parse_run_space_block")

    def body(I):
        st = I.st
        block = in_dict(I, "run_space_block")
        h0 = st.h.copy()
        has_mr, has_dr = z3.Select(ddom(h0, block), vstr("max_runs")), z3.Select(ddom(h0, block), vstr("dry_run"))
        mr, dr = z3.Select(dval(h0, block), vstr("max_runs")), z3.Select(dval(h0, block), vstr("dry_run"))
        # the values the CLI / YAML can put there: an integer cap, a boolean flag; no blocks (they do not matter here)
        st.assume(z3.Implies(has_mr, V.is_int(mr)))
        st.assume(z3.Implies(has_dr, V.is_bool(dr)))
        st.assume(z3.Not(z3.Select(ddom(h0, block), vstr("blocks"))))
        st.assume(z3.Not(z3.Select(ddom(h0, block), vstr("combine"))))
        out = E.execute(I, E.hfunc(LOADER, "_parse_run_space_block"), [block])
        if out[0] != "return":
            return              # a rejection (ValueError): the _run harness treats a raising parser as "configuration invalid"
        cfg = out[1]
        h = st.h
        s2.oblige(I, "parser/max_runs-is-the-cap-as-written(0-included)-default-1000", fld(h, cfg, "max_runs") == z3.If(has_mr, mr, vint(1000)),
                  meta={"witness": "cap-lost"})
        s2.oblige(I, "parser/dry_run-is-the-flag-as-written-default-false", fld(h, cfg, "dry_run") == z3.If(has_dr, dr, vbool(False)), meta={"witness": "flag-lost"})
    E.run_function(s2, "_parse_run_space_block", body)
    spec.path_count += s2.path_count
    spec.assumptions |= s2.assumptions


TASKS = [h_parse_run_space, h_run]


def factory():
    s = Spec()
    s.ARGS = None
    return s


def replay(ob):
    payload = {"obligation": ob.name, "solver": ob.backend, "model": report.model_summary(ob),
               "goal": ob.goal if isinstance(ob.goal, str) else str(ob.goal)[:400]}
    script = os.path.join(report.ROOT, "replay", "c17_bounded.py")
    res, proc = report.native_json(script, {"tier": "quick", "seed": 0})
    payload["native"] = {"failures": (res or {}).get("failures", [])[:5]}
    return bool(res and res.get("failures")), payload


def main(tier="quick", seed=0):
    run = report.Run(PROP, tier, seed)
    spec = factory()
    faults = E.run_parallel(spec, factory, TASKS, timeout_ms=10000 if tier == "quick" else 30000)
    if faults:
        run.engine_fault = faults[0][-1500:]
    generic_refutations(run, spec, PROP, replay)
    run_bounded(run, PROP, "c17_bounded.py", tier)
    return run.finish(spec, "proof", "symbolic execution of cli._run with abstract callees; file-system effects bounded; see DESIGN.md C17")


if __name__ == "__main__":
    t, s = tier_and_seed()
    sys.exit(main(t, s))
