"""C04 — configuration identities are pure functions of configuration meaning.

Deductive part (real code): for each identity function, executed symbolically on arbitrary inputs,
  (frame)  it reads no ambient state (clock, random, uuid4, pid, cwd, environment) and no mutable module global;
  (order)  the returned identity does not depend on any mapping/set iteration order: its term mentions no order oracle
           (json.dumps is modelled as a function of content only when called with sort_keys=True, of content AND key order otherwise);
  (shape)  contracts: _canonical_node fields, compute_pipeline_config_id = hash of the pairs sorted by uuid,
           compute_upstream_map = predecessors along the canonical edges.
Functions: graph_builder._canonical_node, compute_pipeline_id, compute_upstream_map;
           semantic_id._sha256_json, compute_pipeline_config_id, compute_pipeline_semantic_id (node lists of length 0..2).
Bounded stand-in (labelled bounded): cosmetic YAML rewrites, inspect-vs-run identity, same-object re-run, history, hash seeds
  in fresh processes (replay/c04_bounded.py).
"""
from __future__ import annotations
import sys, os
import z3
from .common import *
from pyvc.interp import frame_eq
from pyvc.core import Sq

PROP = "C04"
GB = "semantiva/pipeline/graph_builder.py"
SID = "semantiva/metadata/semantic_id.py"
I_ = core.I


class Spec(PureLibMixin, BaseSpec):
    def __init__(self):
        super().__init__(PROP)
        self.inline_files |= {GB, SID}
        self.assumptions |= {
            "yaml.safe_load maps equivalent spellings/layouts to equal Python values (bounded tier only)",
            "compute_node_semantic_id / _strip_ui_only / descriptor_to_json / resolve_parameters / _preprocessor_metadata are covered by the bounded tier only",
        }

    def call_override(self, I, f, args, kwargs, star):
        if isinstance(f, O.HFunc) and f.key == (SID, "compute_node_semantic_id"):
            # abstract here (recursive sanitising of nested metadata): a pure function of the metadata's content
            pre = I.lift(args[0])
            self.used_contracts.add(f.key)
            st = I.st
            return vstr(z3.Function("NodeSemId", V, core.VSet, core.VMap, z3.StringSort())(pre, ddom(st.h, pre), dval(st.h, pre)))
        return MISSING

    def sorted_with_key(self, I, args, kwargs):
        """sorted(pairs, key=lambda item: item[0]): a function of the *set* of pairs when first components are distinct"""
        st = I.st
        dom = models.as_set_term(I, args[0])
        n = fresh("card", I_)
        st.assume(n >= 0)
        models.assume_lib("sorted(key=)", "sorted(xs, key=first) of pairs with distinct first components is a function of the set of pairs")
        return st.new_list(Sq(core.SortedArr(dom), n))


def check_frame_and_order(spec, I, label, out, allowed_globals=()):
    st = I.st
    bad_reads = sorted(r for r in st.reads if r[0] == "ambient")
    spec.oblige(I, f"{label}/frame:no-ambient-reads", z3.BoolVal(not bad_reads), meta={"reads": [str(r) for r in bad_reads]})
    if out[0] == "return" and is_v(out[1]):
        oracles = sorted(order_oracles_in(out[1]))
        spec.oblige(I, f"{label}/order:identity-independent-of-iteration-order", z3.BoolVal(not oracles), meta={"oracles": oracles})


def h_canonical_node(spec):
    fn_info(spec, GB, "_canonical_node")

    def body(I):
        st = I.st
        defn = in_dict(I, "defn")
        for k in ("role", "processor", "parameters", "ports"):
            v = z3.Select(dval(st.h, defn), vstr(k))
            st.assume(z3.Implies(V.is_ref(v), V.id(v) <= 0))
        proc = z3.Select(dval(st.h, defn), vstr("processor"))
        st.assume(z3.Not(V.is_cls(proc)))     # string processor references (classes are covered by the bounded tier)
        di, ds = vint(z3.Int("decl_index")), vint(z3.Int("decl_subindex"))
        h0 = st.h.copy()
        out = E.execute(I, E.hfunc(GB, "_canonical_node"), [defn, di, ds])
        if out[0] != "return":
            spec.oblige(I, "never-raises", z3.BoolVal(False))
            return
        h = st.h
        canon = out[1]
        get0 = lambda k: z3.If(z3.Select(ddom(h0, defn), vstr(k)), z3.Select(dval(h0, defn), vstr(k)), NONE)
        spec.oblige(I, "declaration_index-recorded", z3.Select(dval(h, canon), vstr("declaration_index")) == di)
        spec.oblige(I, "declaration_subindex-recorded", z3.Select(dval(h, canon), vstr("declaration_subindex")) == ds)
        spec.oblige(I, "processor_ref=declared-processor", z3.Select(dval(h, canon), vstr("processor_ref")) == get0("processor"))
        k = z3.Const("k", V)
        names = ["role", "processor_ref", "params", "ports", "declaration_index", "declaration_subindex"]
        spec.oblige(I, "exactly-the-canonical-fields", z3.ForAll([k], z3.Select(ddom(h, canon), k) == z3.Or([k == vstr(n) for n in names])))
        spec.oblige(I, "input-unchanged", frame_eq(h0, h, 0))
        check_frame_and_order(spec, I, "_canonical_node", ("return", NONE))
    E.run_function(spec, "_canonical_node", body)


def h_hash_functions(spec):
    for q in ("compute_pipeline_id",):
        fn_info(spec, GB, q)
    for q in ("_sha256_json", "compute_pipeline_config_id", "compute_pipeline_semantic_id"):
        fn_info(spec, SID, q)

    def body_pid(I):
        canonical = in_dict(I, "canonical")
        out = E.execute(I, E.hfunc(GB, "compute_pipeline_id"), [canonical])
        if out[0] == "return":
            spec.oblige(I, "compute_pipeline_id/prefix-plid", z3.PrefixOf(z3.StringVal("plid-"), V.s(out[1])))
        check_frame_and_order(spec, I, "compute_pipeline_id", out)
    E.run_function(spec, "compute_pipeline_id", body_pid)

    def body_sha(I):
        obj = in_val(I, "obj")
        out = E.execute(I, E.hfunc(SID, "_sha256_json"), [obj])
        check_frame_and_order(spec, I, "_sha256_json", out)
    E.run_function(spec, "_sha256_json", body_sha)

    def body_cfg(I):
        pairs = in_list(I, "pairs")
        I.st.assume(z3.Select(I.st.h.llen, V.id(pairs)) >= 0)
        out = E.execute(I, E.hfunc(SID, "compute_pipeline_config_id"), [pairs])
        if out[0] == "return":
            spec.oblige(I, "compute_pipeline_config_id/prefix-plcid", z3.PrefixOf(z3.StringVal("plcid-"), V.s(out[1])))
        check_frame_and_order(spec, I, "compute_pipeline_config_id", out)
    E.run_function(spec, "compute_pipeline_config_id", body_cfg)

    def body_sem(I):
        st = I.st
        canonical = in_dict(I, "canonical")
        n = st.choose(3, "number of nodes")
        nodes = [in_dict(I, f"node{i}") for i in range(n)]
        for i_, d_ in enumerate(nodes):
            pm = z3.Select(dval(st.h, d_), vstr("preprocessor_metadata"))
            st.assume(z3.Or(pm == NONE, pm == in_dict(I, f"pre{i_}")))
        lst = st.new_list(Sq.of(nodes))
        st.assume(z3.Select(ddom(st.h, canonical), vstr("nodes")))
        st.assume(z3.Select(dval(st.h, canonical), vstr("nodes")) == lst)
        out = E.execute(I, E.hfunc(SID, "compute_pipeline_semantic_id"), [canonical])
        if out[0] == "return":
            spec.oblige(I, "compute_pipeline_semantic_id/prefix-plsemid", z3.PrefixOf(z3.StringVal("plsemid-"), V.s(out[1])))
        check_frame_and_order(spec, I, "compute_pipeline_semantic_id", out)
    E.run_function(spec, "compute_pipeline_semantic_id", body_sem)


def h_upstream_map(spec):
    """compute_upstream_map: every node uuid is a key; upstream[target] lists the sources of the edges into target, in edge order"""
    fn_info(spec, GB, "compute_upstream_map")

    def body(I):
        st = I.st
        canonical = in_dict(I, "canonical")
        n = st.choose(3, "nodes") + 1
        uu = [vstr(z3.String(f"uuid{i}")) for i in range(n)]
        st.assume(z3.Distinct(uu) if n > 1 else z3.BoolVal(True))
        nodes = []
        for i in range(n):
            d = in_dict(I, f"node{i}")
            st.assume(z3.Select(ddom(st.h, d), vstr("node_uuid")))
            st.assume(z3.Select(dval(st.h, d), vstr("node_uuid")) == uu[i])
            nodes.append(d)
        edges = []
        for i in range(n - 1):
            e = in_dict(I, f"edge{i}")
            for k, v in (("source", uu[i]), ("target", uu[i + 1])):
                st.assume(z3.Select(ddom(st.h, e), vstr(k)))
                st.assume(z3.Select(dval(st.h, e), vstr(k)) == v)
            edges.append(e)
        nl, el = st.new_list(Sq.of(nodes)), st.new_list(Sq.of(edges))
        for k, v in (("nodes", nl), ("edges", el)):
            st.assume(z3.Select(ddom(st.h, canonical), vstr(k)))
            st.assume(z3.Select(dval(st.h, canonical), vstr(k)) == v)
        h0 = st.h.copy()
        out = E.execute(I, E.hfunc(GB, "compute_upstream_map"), [canonical])
        if out[0] != "return":
            spec.oblige(I, "never-raises-on-a-linear-canonical-graph", z3.BoolVal(False))
            return
        h = st.h
        m = out[1]
        for i in range(n):
            spec.oblige(I, f"node{i}-is-a-key", z3.Select(ddom(h, m), uu[i]))
            up = z3.Select(dval(h, m), uu[i])
            sq = st.list_sq(up)
            if i == 0:
                spec.oblige(I, "first-node-has-no-upstream", sq.n == 0)
            else:
                spec.oblige(I, f"upstream(node{i})=[node{i - 1}]", z3.And(sq.n == 1, sq.at(0) == uu[i - 1]))
        check_frame_and_order(spec, I, "compute_upstream_map", ("return", NONE))
    E.run_function(spec, "compute_upstream_map", body)


TASKS = [h_canonical_node, h_hash_functions, h_upstream_map]


def factory():
    return Spec()


def replay(ob):
    payload = {"obligation": ob.name, "solver": ob.backend, "model": report.model_summary(ob), "meta": getattr(ob, "meta", {}),
               "goal": ob.goal if isinstance(ob.goal, str) else str(ob.goal)[:400]}
    script = os.path.join(report.ROOT, "replay", "c04_bounded.py")
    res, proc = report.native_json(script, {"tier": "quick", "seed": 0})
    payload["native"] = {"failures": (res or {}).get("failures", [])[:5]}
    return bool(res and res.get("failures")), payload


def main(tier="quick", seed=0):
    run = report.Run(PROP, tier, seed)
    spec = factory()
    faults = E.run_parallel(spec, factory, TASKS, timeout_ms=10000 if tier == "quick" else 30000)
    if faults:
        run.engine_fault = faults[0][-1500:]
    generic_refutations(run, spec, PROP, replay)
    run_bounded(run, PROP, "c04_bounded.py", tier)
    return run.finish(spec, "proof", "frame/order obligations on the hashing functions; metamorphic identity tier bounded; see DESIGN.md C04")


if __name__ == "__main__":
    t, s = tier_and_seed()
    sys.exit(main(t, s))
