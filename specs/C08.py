"""C08 — run-space expansion yields exactly the documented ordered list of runs.

Deductive part (real code of semantiva/execution/run_space.py):
  _load_and_process_source : select / rename semantics - the result columns are exactly the selected columns mapped
      through the rename table, values preserved; a missing selected column or ANY collision after rename is rejected
      with the configuration error; loops cut by invariants over an arbitrary column order.
  _coerce_scalar : non-strings pass through.
Bounded stand-in (labelled bounded, never counted as proved): expand_run_space / _expand_entries against the documented
  Expand function, enumerated exhaustively over small specifications under run-time contracts (see replay/c08_bounded.py).
"""
from __future__ import annotations
import sys, os, json
import z3
from .common import *
from pyvc.interp import frame_eq
from pyvc.core import Sq

PROP = "C08"
RS = "semantiva/execution/run_space.py"
SCHEMA = "semantiva/configurations/schema.py"
I_ = core.I


class Spec(BaseSpec):
    def __init__(self):
        super().__init__(PROP)
        self.inline_files |= {SCHEMA}
        self.obj_methods = {
            "is_absolute": lambda I, r, a, k, s: vbool(z3.Function("PathAbs", I_, core.B)(V.oid(r))),
            "resolve": lambda I, r, a, k, s: V.obj(z3.Function("PathResolve", I_, I_)(V.oid(r))),
            "exists": lambda I, r, a, k, s: vbool(z3.Function("PathExists", I_, core.B)(V.oid(r))),
            "open": lambda I, r, a, k, s: V.obj(fresh("handle", I_)),
            "read": lambda I, r, a, k, s: fresh("chunk"),
            "update": lambda I, r, a, k, s: NONE,
            "hexdigest": lambda I, r, a, k, s: vstr(z3.Function("HexDigest", I_, z3.StringSort())(V.oid(r))),
        }
        self.assumptions |= {
            "file system and parsers are abstract: Path.exists is an arbitrary boolean, _load_source_file returns an arbitrary column mapping or raises the configuration error, the SHA-256 of the file is an uninterpreted string",
            "bounded tier: expand_run_space/_expand_entries are compared with the documented Expand function only up to the stated bound",
        }

    def ext_call(self, I, dotted, args, kwargs, star):
        if dotted == "pathlib.Path":
            return V.obj(z3.Function("PathOf", V, I_)(I.lift(args[0])))
        if dotted == "hashlib.sha256":
            return V.obj(fresh("digest", I_))
        return super().ext_call(I, dotted, args, kwargs, star)

    def ext_override(self, I, dotted, args, kwargs, star):
        if dotted == "builtins.iter":
            return []          # the chunk loop only feeds the (abstract) digest
        return MISSING

    def binop_unknown(self, I, op, a, b):
        import ast as _ast
        if isinstance(op, _ast.Div) and I.tag(a) == "obj":
            return V.obj(z3.Function("PathJoin", I_, V, I_)(V.oid(a), b))
        return super().binop_unknown(I, op, a, b)

    def with_enter(self, I, cm):
        return cm

    def with_exit(self, I, item):
        return None

    def call_override(self, I, f, args, kwargs, star):
        if isinstance(f, O.HFunc) and f.key == (RS, "_load_source_file"):
            self.used_contracts.add(f.key)
            if I.st.choose(2, "load ok?") == 0:
                return self._columns
            ce = I.resolve_global(source.load_module(RS), "ConfigurationError")
            raise PyRaise(O.HExc(z3.IntVal(ce.cid), origin=("assumed", "_load_source_file")))
        return MISSING


def rho(h, rename, k):
    return z3.If(z3.Select(ddom(h, rename), k), z3.Select(dval(h, rename), k), k)


def h_select_rename(spec):
    fn_info(spec, RS, "_load_and_process_source")
    j = z3.Int("j!inv")
    k = z3.Const("k!inv", V)

    def sel_inv(c):
        h, h0 = c.h, c.h0
        selected, missing, columns = c.var("selected"), c.var("missing"), c.var("columns")
        cd, cv = ddom(h0, columns), dval(h0, columns)
        seen = lambda kk: z3.Exists([j], z3.And(j >= 0, j < c.i, c.seq.at(j) == kk))
        return z3.And(
            V.is_ref(selected), z3.Select(h.kind, V.id(selected)) == K_DICT, V.is_ref(missing), z3.Select(h.kind, V.id(missing)) == K_LIST,
            z3.Select(h.llen, V.id(missing)) >= 0,
            z3.ForAll([k], z3.Select(ddom(h, selected), k) == z3.And(seen(k), z3.Select(cd, k))),
            z3.ForAll([k], z3.Implies(z3.Select(ddom(h, selected), k), z3.Select(dval(h, selected), k) == z3.Select(cv, k))),
            (z3.Select(h.llen, V.id(missing)) == 0) == z3.ForAll([j], z3.Implies(z3.And(j >= 0, j < c.i), z3.Select(cd, c.seq.at(j)))))

    def ren_inv(c):
        h, h0 = c.h, c.h0
        renamed, columns = c.var("renamed"), c.var("columns")
        src = c.var("src")
        rename = fld(h0, src, "rename")
        cv = dval(h0, columns)
        j2 = z3.Int("j2!inv")
        keyat = lambda jj: V.items(c.seq.at(jj))[0]
        return z3.And(
            V.is_ref(renamed), z3.Select(h.kind, V.id(renamed)) == K_DICT,
            z3.ForAll([k], z3.Select(ddom(h, renamed), k) == z3.Exists([j], z3.And(j >= 0, j < c.i, rho(h0, rename, keyat(j)) == k))),
            z3.ForAll([j], z3.Implies(z3.And(j >= 0, j < c.i),
                                      z3.Select(dval(h, renamed), rho(h0, rename, keyat(j))) == z3.Select(cv, keyat(j)))),
            z3.ForAll([j, j2], z3.Implies(z3.And(j >= 0, j < j2, j2 < c.i), rho(h0, rename, keyat(j)) != rho(h0, rename, keyat(j2)))))
    spec.loop(RS, "_load_and_process_source", 1, LoopSpec(sel_inv, modifies_heap=True,
                                                          frame_except=lambda c: [c.var("selected"), c.var("missing")]))
    spec.loop(RS, "_load_and_process_source", 2, LoopSpec(ren_inv, modifies_heap=True, frame_except=lambda c: [c.var("renamed")]))

    def body(I):
        st = I.st
        src_ci = cls_of(I, SCHEMA, "RunSource")
        columns = in_dict(I, "columns")
        spec._columns = columns
        rename = in_dict(I, "rename")
        select = in_list(I, "select")
        use_select = st.choose(2, "select given?") == 1
        src = in_inst(I, "src", src_ci, {"path": vstr(z3.String("path")), "format": vstr(z3.String("format")),
                                         "select": select if use_select else NONE, "rename": rename,
                                         "mode": vstr(z3.String("smode"))})
        st.assume(z3.Select(st.h.llen, V.id(select)) >= 0)
        base_dir = V.obj(z3.Int("base_dir"))
        h0 = st.h.copy()
        ce = I.resolve_global(source.load_module(RS), "ConfigurationError")
        out = E.execute(I, E.hfunc(RS, "_load_and_process_source"), [src, base_dir])
        h = st.h
        cd, cv = ddom(h0, columns), dval(h0, columns)
        sel = Sq(z3.Select(h0.larr, V.id(select)), z3.Select(h0.llen, V.id(select)))
        k = z3.Const("k", V)
        c1, c2 = z3.Consts("c1 c2", V)
        j = z3.Int("j")
        in_sel = lambda kk: z3.Exists([j], z3.And(j >= 0, j < sel.n, sel.at(j) == kk)) if use_select else z3.BoolVal(True)
        kept = lambda kk: z3.And(z3.Select(cd, kk), in_sel(kk))           # columns that survive select
        all_selected_present = z3.ForAll([j], z3.Implies(z3.And(j >= 0, j < sel.n), z3.Select(cd, sel.at(j)))) if use_select else z3.BoolVal(True)
        ren_active = z3.Select(h0.dlen, V.id(rename)) > 0
        r_ = lambda kk: z3.If(ren_active, rho(h0, rename, kk), kk)
        injective = z3.ForAll([c1, c2], z3.Implies(z3.And(kept(c1), kept(c2), c1 != c2), r_(c1) != r_(c2)))
        if out[0] == "return":
            cols = models.unpack(I, out[1], 2)[0]
            spec.oblige(I, "returns-only-if-every-selected-column-exists", all_selected_present)
            spec.oblige(I, "returns-only-if-no-collision-after-rename", injective)
            spec.oblige(I, "result-keys=renamed-selected-columns",
                        z3.ForAll([k], z3.Select(ddom(h, cols), k) == z3.Exists([c1], z3.And(kept(c1), r_(c1) == k))))
            spec.oblige(I, "result-values-preserved",
                        z3.ForAll([c1], z3.Implies(kept(c1), z3.Select(dval(h, cols), r_(c1)) == z3.Select(cv, c1))))
        else:
            spec.oblige(I, "rejections-are-configuration-errors", issub(out[1].cid, ce.cid) if not z3.is_int_value(z3.simplify(out[1].cid)) else z3.BoolVal(O.class_by_id(z3.simplify(out[1].cid).as_long()).is_sub(ce)))
        spec.oblige(I, "inputs-unchanged", frame_eq(h0, h, 0))
    E.run_function(spec, "_load_and_process_source", body)


def h_coerce_scalar(spec):
    fn_info(spec, RS, "_coerce_scalar")

    def body(I):
        v = in_val(I, "value")
        I.st.assume(z3.Not(V.is_str(v)))
        out = E.execute(I, E.hfunc(RS, "_coerce_scalar"), [v])
        if out[0] != "return":
            spec.oblige(I, "never-raises-on-non-strings", z3.BoolVal(False))
            return
        spec.oblige(I, "non-strings-pass-through", out[1] == v)
    E.run_function(spec, "_coerce_scalar", body)


TASKS = [h_select_rename, h_coerce_scalar]


def factory():
    return Spec()


def replay(ob):
    payload = {"obligation": ob.name, "solver": ob.backend, "model": report.model_summary(ob), "goal": ob.goal if isinstance(ob.goal, str) else str(ob.goal)[:800]}
    script = os.path.join(report.ROOT, "replay", "c08_replay.py")
    res, proc = report.native_json(script, {"obligation": ob.name})
    payload["native"] = res
    payload["stderr"] = (proc.stderr or "")[-400:]
    return bool(res and res.get("violates")), payload


def main(tier="quick", seed=0):
    run = report.Run(PROP, tier, seed)
    spec = factory()
    faults = E.run_parallel(spec, factory, TASKS, timeout_ms=10000 if tier == "quick" else 30000)
    if faults:
        run.engine_fault = faults[0][-1500:]
    generic_refutations(run, spec, PROP, replay)
    run_bounded(run, PROP, "c08_bounded.py", tier)
    return run.finish(spec, "proof", "select/rename proved; expansion order bounded; see DESIGN.md C08")


if __name__ == "__main__":
    t, s = tier_and_seed()
    sys.exit(main(t, s))
