"""C10 — tracing is purely observational and traces are reproducible.

Deductive part:
 (a) the real execute() satisfies the same contract with and without a trace driver: same number of nodes run, same return /
     raise structure, the ghost trace untouched when no driver is attached (harnesses of specs/C06.py, re-run here for both modes);
 (b) every helper that runs only for tracing (or in both modes) never raises and never modifies data / context / its inputs:
     _data_summary, _context_summary, _init_summaries, _augment_output_summaries, _ensure_context_delta, _trace_options,
     _extract_context_delta_lists, _context_snapshot, _required_keys_for(normalize part: _normalize_keys), with the user hooks they
     call (serialize, sha256, repr, canonical JSON) abstract and allowed to raise any Exception.
(c) JsonlTraceDriver.__init__: the options mapping is the driver's own (created by the call; module-level state untouched) and is the
     documented function of the detail string (eight representative strings, evaluated exactly).
Bounded stand-in (labelled bounded): traced vs untraced native runs, and repeated runs compared after removing the documented
 volatile fields (replay/c10_bounded.py).
"""
from __future__ import annotations
import sys, os
import z3
from .common import *
from pyvc.interp import frame_eq
from pyvc.core import Sq
from . import C06

PROP = "C10"
ORCH = C06.ORCH
UTILS = "semantiva/trace/_utils.py"
I_ = core.I


class HelperSpec(PureLibMixin, BaseSpec):
    def __init__(self):
        super().__init__(PROP)
        self.inline |= {(ORCH, "SemantivaOrchestrator." + n) for n in (
            "_data_summary", "_context_summary", "_init_summaries", "_augment_output_summaries", "_ensure_context_delta",
            "_trace_options", "_extract_context_delta_lists", "_normalize_keys")}
        self.inline_files |= {"semantiva/trace/model.py"}
        self.obj_missing = {"get_options"}
        self.assumptions |= {
            "user-level hooks reached from the summaries (serialize, sha256_bytes, safe_repr, canonical_json_bytes, context_to_kv_repr, len) do not mutate their argument and raise at most Exception",
        }

    def call_override(self, I, f, args, kwargs, star):
        if isinstance(f, O.HFunc) and f.module.relpath == UTILS:
            st = I.st
            if st.choose(2, f"{f.node.name} ok?") == 0:
                return V.obj(z3.Function("Util_" + f.node.name, V, I_)(I.lift(args[0]) if args else NONE)) if f.node.name != "safe_repr" and f.node.name != "context_to_kv_repr" \
                    else vstr(z3.Function("UtilS_" + f.node.name, V, z3.StringSort())(I.lift(args[0])))
            c = fresh("exc_cls", I_)
            ex = bcls(Exception)
            st.mention(ex, target=True)
            st.symcls.append(c)
            st.assume(issub(c, ex.cid))
            raise PyRaise(O.HExc(c, origin=("assumed", f.node.name)))
        return MISSING

    def obj_len(self, I, v):
        st = I.st
        if st.choose(2, "len ok?") == 0:
            n = fresh("len", I_)
            st.assume(n >= 0)
            return vint(n)
        # __len__ of a user object may raise anything (TypeError when absent, OverflowError for huge sizes, ...)
        c = fresh("exc_cls", I_)
        ex = bcls(Exception)
        st.mention(ex, target=True)
        st.symcls.append(c)
        st.assume(issub(c, ex.cid))
        raise PyRaise(O.HExc(c, origin=("assumed", "len(obj)")))


def orch_self(I):
    ci = cls_of(I, ORCH, "SemantivaOrchestrator")
    return in_inst(I, "orch", ci)


def opts_dict(I):
    st = I.st
    d = in_dict(I, "trace_opts")
    for k in ("hash", "repr", "context"):
        v = z3.Select(dval(st.h, d), vstr(k))
        st.assume(z3.Implies(z3.Select(ddom(st.h, d), vstr(k)), V.is_bool(v)))
    return d


def h_helpers(spec):
    names = ["_data_summary", "_context_summary", "_init_summaries", "_augment_output_summaries"]
    for n in names:
        fn_info(spec, ORCH, "SemantivaOrchestrator." + n)

    def mk(name):
        def body(I):
            st = I.st
            me = orch_self(I)
            data = V.obj(z3.Int("data"))
            view = in_dict(I, "context_view")
            opts = opts_dict(I)
            summaries = in_dict(I, "summaries")
            h0 = st.h.copy()
            _, f = E.method_of(I, ORCH, "SemantivaOrchestrator", name)
            args = {"_data_summary": [me, data, opts], "_context_summary": [me, view, opts], "_init_summaries": [me, data, view, opts],
                    "_augment_output_summaries": [me, summaries, data, view, opts]}[name]
            # the contract quantifies over every argument: keyword-only flags get arbitrary boolean values
            extra = {a.arg: vbool(z3.Bool("kw_" + a.arg)) for a in f.node.args.kwonlyargs}
            out = E.execute(I, f, args, extra)
            if out[0] != "return":
                spec.oblige(I, f"{name}/never-raises", z3.BoolVal(False))
                return
            allowed = [summaries] if name == "_augment_output_summaries" else []
            spec.oblige(I, f"{name}/data-context-and-options-untouched", frame_eq(h0, st.h, 0, allowed))
            spec.oblige(I, f"{name}/returns-a-dict", z3.And(V.is_ref(out[1]), z3.Select(st.kinds, V.id(out[1])) == K_DICT))
        return body
    for n in names:
        E.run_function(spec, n, mk(n))


def h_trace_options(spec):
    fn_info(spec, ORCH, "SemantivaOrchestrator._trace_options")

    def body(I):
        st = I.st
        me = orch_self(I)
        trace = V.obj(z3.Int("trace")) if st.choose(2, "trace?") else NONE
        h0 = st.h.copy()
        _, f = E.method_of(I, ORCH, "SemantivaOrchestrator", "_trace_options")
        out = E.execute(I, f, [me, trace])
        if out[0] != "return":
            spec.oblige(I, "_trace_options/never-raises", z3.BoolVal(False))
            return
        res = out[1]
        for k in ("hash", "repr", "context"):
            spec.oblige(I, f"_trace_options/{k}-is-a-bool", z3.And(z3.Select(ddom(st.h, res), vstr(k)), V.is_bool(z3.Select(dval(st.h, res), vstr(k)))))
        spec.oblige(I, "_trace_options/nothing-modified", frame_eq(h0, st.h, 0))
    E.run_function(spec, "_trace_options", body)


def h_ensure_delta(spec):
    fn_info(spec, ORCH, "SemantivaOrchestrator._ensure_context_delta")
    fn_info(spec, ORCH, "SemantivaOrchestrator._extract_context_delta_lists")

    def body(I):
        st = I.st
        me = orch_self(I)
        which = st.choose(3, "delta shape")
        if which == 0:
            delta = in_dict(I, "delta")
            for k in ("read_keys", "read", "created_keys", "created", "updated_keys", "updated", "key_summaries", "summaries"):
                v = z3.Select(dval(st.h, delta), vstr(k))
                ok_list = z3.And(V.is_ref(v), V.id(v) <= 0, z3.Select(st.h.kind, V.id(v)) == (K_DICT if "summar" in k else K_LIST),
                                 z3.Select(st.h.llen, V.id(v)) >= 0)
                st.assume(z3.Implies(z3.Select(ddom(st.h, delta), vstr(k)), z3.Or(v == NONE, ok_list)))
        elif which == 1:
            delta = in_val(I, "delta_other")
            st.assume(z3.Not(z3.And(V.is_ref(delta), z3.Select(st.h.kind, V.id(delta)) == K_DICT)))
            cd = cls_of(I, "semantiva/trace/model.py", "ContextDelta")
            st.mention(cd, target=True)
            st.assume(z3.Not(z3.And(V.is_ref(delta), z3.Select(st.h.kind, V.id(delta)) == K_INST, issub(z3.Select(st.h.cls, V.id(delta)), cd.cid))))
            st.assume(z3.Not(V.is_obj(delta)))
        else:
            cd = cls_of(I, "semantiva/trace/model.py", "ContextDelta")
            delta = in_inst(I, "delta_obj", cd)
        h0 = st.h.copy()
        _, f = E.method_of(I, ORCH, "SemantivaOrchestrator", "_ensure_context_delta")
        out = E.execute(I, f, [me, delta])
        if out[0] != "return":
            spec.oblige(I, "_ensure_context_delta/never-raises", z3.BoolVal(False))
            return
        spec.oblige(I, "_ensure_context_delta/input-untouched", frame_eq(h0, st.h, 0))
    E.run_function(spec, "_ensure_context_delta", body)


def t_helpers(spec):
    s2 = HelperSpec()
    s2.obligations, s2._seen, s2.undecided, s2.functions, s2.used_contracts = spec.obligations, spec._seen, spec.undecided, spec.functions, spec.used_contracts
    h_helpers(s2)
    h_trace_options(s2)
    h_ensure_delta(s2)
    spec.path_count += s2.path_count
    spec.assumptions |= s2.assumptions


JSONL = "semantiva/trace/drivers/jsonl.py"


class DriverSpec(PureLibMixin, BaseSpec):
    def __init__(self):
        super().__init__(PROP)
        self.inline_files |= {JSONL}

    def ext_call(self, I, dotted, args, kwargs, star):
        if dotted == "pathlib.Path":
            return V.obj(fresh("path", core.I))
        return super().ext_call(I, dotted, args, kwargs, star)


def h_driver_init(spec):
    """JsonlTraceDriver.__init__: the detail options of a driver are its own (a mapping created by this call, nothing at module
    level is read-modified), and they are the documented function of the detail string - whatever was constructed before"""
    s2 = DriverSpec()
    s2.obligations, s2._seen, s2.undecided, s2.functions, s2.used_contracts = spec.obligations, spec._seen, spec.undecided, spec.functions, spec.used_contracts
    fn_info(s2, JSONL, "JsonlTraceDriver.__init__")
    table = [(None, (True, False, False)), ("hash", (True, False, False)), ("repr", (False, True, False)), ("repr,context", (False, True, True)),
             ("all", (True, True, True)), (" Repr , bogus", (False, True, False)), ("bogus", (True, False, False)), ("context, hash", (True, False, True))]

    def body(I):
        st = I.st
        mod = source.load_module(JSONL)
        for name in list(mod.assigns):
            try:
                I.resolve_global(mod, name)          # module-level objects exist before the call
            except Exception:      # noqa
                pass
        n0 = st.nalloc
        h0 = st.h.copy()
        ci = cls_of(I, JSONL, "JsonlTraceDriver")
        me = st.new_inst(ci)
        n1 = st.nalloc
        k = st.choose(len(table), "detail string")
        detail, want = table[k]
        _, f = E.method_of(I, JSONL, "JsonlTraceDriver", "__init__")
        out = E.execute(I, f, [me, vstr("out.jsonl"), NONE if detail is None else vstr(detail)])
        tag = repr(detail)
        if out[0] != "return":
            s2.oblige(I, f"driver.__init__[{tag}]/never-raises", z3.BoolVal(False), meta={"exc": repr(out[1])})
            return
        h = st.h
        opts = fld(h, me, "_opts")
        s2.oblige(I, f"driver.__init__[{tag}]/options-mapping-is-created-by-this-call(not-shared)", z3.And(V.is_ref(opts), V.id(opts) > n1),
                  meta={"witness": "shared-options"})
        s2.oblige(I, f"driver.__init__[{tag}]/module-level-state-untouched", frame_eq(h0, h, n0), meta={"witness": "shared-options"})
        for key, w in zip(("hash", "repr", "context"), want):
            s2.oblige(I, f"driver.__init__[{tag}]/flag-{key}-is-the-documented-value", z3.And(z3.Select(ddom(h, opts), vstr(key)), z3.Select(dval(h, opts), vstr(key)) == vbool(w)))
    E.run_function(s2, "JsonlTraceDriver.__init__", body)
    spec.path_count += s2.path_count
    spec.assumptions |= s2.assumptions


t_helpers.shards = 16
TASKS = [h_driver_init, C06.h_execute_traced, C06.h_execute_untraced, t_helpers]


def factory():
    s = C06.Spec()
    s.prop = PROP
    return s


def replay(ob):
    payload = {"obligation": ob.name, "solver": ob.backend, "model": report.model_summary(ob),
               "goal": ob.goal if isinstance(ob.goal, str) else str(ob.goal)[:400]}
    script = os.path.join(report.ROOT, "replay", "c10_bounded.py")
    res, proc = report.native_json(script, {"tier": "quick", "seed": 0})
    payload["native"] = {"failures": (res or {}).get("failures", [])[:5]}
    return bool(res and res.get("failures")), payload


def main(tier="quick", seed=0):
    run = report.Run(PROP, tier, seed)
    spec = factory()
    faults = E.run_parallel(spec, factory, TASKS, timeout_ms=10000 if tier == "quick" else 30000)
    if faults:
        run.engine_fault = faults[0][-1500:]
    generic_refutations(run, spec, PROP, replay)
    run_bounded(run, PROP, "c10_bounded.py", tier)
    return run.finish(spec, "proof", "execute() in both modes + helper no-raise/no-mutation contracts; reproducibility bounded; see DESIGN.md C10")


if __name__ == "__main__":
    t, s = tier_and_seed()
    sys.exit(main(t, s))
