"""C01 — pipeline execution matches the documented dual-channel node semantics.

Functions under contract (real code, re-read every run):
  _param_resolution.py :: _default_for, resolve_runtime_value
  nodes.py :: _DataNode.__init__, _ContextProcessorNode.__init__ (the node keeps exactly the configured parameters),
              _DataNode._get_processor_parameters, _DataNode._fetch_parameter_value, _DataNode._process,
              _DataNode._process_single_item_with_context,
              _ProbeContextInjectorNode._process_single_item_with_context,
              _ContextProcessorNode._process_single_item_with_context / _fetch_parameter_value
  context_observer.py :: _ContextObserver.update_context/delete_context/update/delete,
              _ValidatingContextObserver.update/delete
  context_types.py :: ContextType.get_value/set_value/delete_value/keys   (inlined)
  context_processors.py :: ContextProcessor.operate_context, _notify_context_update, _notify_context_deletion
  factory.py :: _context_renamer_factory.<locals>._process_logic, _context_deleter_factory.<locals>._process_logic
  data_processors.py :: DataOperation._notify_context_update
  payload_processors.py :: _PayloadProcessor.process  (entry normalisation: None payload / None data / plain-dict context)
  data_slicer_factory.py :: _SlicingDataProcessorFactory.create.<locals>.SlicingDataOperator.process / SlicingDataProbe.process
  io_operation_factory.py :: the four _process_logic_method bodies of create_data_operation (data/payload source, data/payload sink)
  orchestrator.py :: SemantivaOrchestrator.execute  (the node loop as a fold: harness and invariant shared with specs/C06.py; nodes abstract)
Spec functions: Resolve (config > context > default), Logic_p (uninterpreted processor logic).
Bounded tier (labelled bounded, never counted as proved): replay/c01_bounded.py runs generated pipelines (34 node configurations incl.
slicers, a sweep, sources, a sink, context-writing operations, rename/delete/template) through the real Pipeline in ONE process and
compares data, context, the log of leaf-processor invocations and the failing node with a reference interpreter of the documented
semantics - the composition of the node contracts and whatever state the code keeps between runs.
"""
from __future__ import annotations
import sys, os
import z3
from .common import *
from pyvc.interp import frame_eq, Env
from pyvc.core import Sq

PROP = "C01"
PR = "semantiva/pipeline/_param_resolution.py"
NODES = "semantiva/pipeline/nodes/nodes.py"
CT = "semantiva/context_processors/context_types.py"
CO = "semantiva/context_processors/context_observer.py"
CP = "semantiva/context_processors/context_processors.py"
FACT = "semantiva/context_processors/factory.py"
DP = "semantiva/data_processors/data_processors.py"
PAYLOAD = "semantiva/pipeline/payload.py"
I_ = core.I

# specification functions ------------------------------------------------------------------------
Dflt = z3.Function("Dflt", V, V, V)                 # Dflt(processor class, name): declared default or NO_DEFAULT
ProcNames = z3.Function("ProcNames", I_, core.VArr)  # processor.get_processing_parameter_names()
ProcNamesN = z3.Function("ProcNamesN", I_, I_)
LogicOut = z3.Function("LogicOut", I_, V, core.VSet, core.VMap, V)   # processor.process(data, **params) result
LogicFails = z3.Function("LogicFails", I_, V, core.VSet, core.VMap, core.B)
LogicExc = z3.Function("LogicExc", I_, V, core.VSet, core.VMap, I_)
InType = z3.Function("InTypeOf", I_, V)


def resolve_term(cdom, cval, xdom, xval, pcls, name):
    return z3.If(z3.Select(cdom, name), z3.Select(cval, name),
                 z3.If(z3.Select(xdom, name), z3.Select(xval, name), Dflt(pcls, name)))


def resolvable(cdom, xdom, pcls, name, nodef):
    return z3.Or(z3.Select(cdom, name), z3.Select(xdom, name), Dflt(pcls, name) != nodef)


class Spec(BaseSpec):
    def __init__(self):
        super().__init__(PROP)
        self.inline_files |= {CT, CO, PAYLOAD}
        self.inline |= {(PR, "resolve_runtime_value"), (NODES, "_DataNode._fetch_parameter_value"),
                        (NODES, "_ContextProcessorNode._fetch_parameter_value"),
                        (NODES, "_DataNode._get_processor_parameters"),
                        (NODES, "_DataNode._process_single_item_with_context"),
                        (NODES, "_ContextProcessorNode.get_suppressed_keys"),
                        (CP, "ContextProcessor._notify_context_update"), (CP, "ContextProcessor._notify_context_deletion"),
                        (CP, "ContextProcessor._set_context_observer"), (CP, "ContextProcessor.operate_context")}
        self.default_for_contract = True
        self.obj_methods = {
            "get_processing_parameter_names": self.m_names,
            "process": self.m_process,
            "input_data_type": lambda I, r, a, k, s: InType(V.oid(r)),
        }
        self.obj_missing = {"_last_created_sequences"}
        self.assumptions |= {
            "processor logic is an uninterpreted function LogicOut/LogicFails of (processor, data, resolved parameters): it may fail with any exception; data processors in these harnesses do not write the context themselves (context writes go through the notifier API, verified separately)",
            "the context is a plain ContextType (ContextCollectionType is outside the property's quantifier)",
            "attribute reads like node.context_key resolve to the generated class attribute (modelled as a field)",
        }

    # abstract processor methods ---------------------------------------------------------------------
    def m_names(self, I, recv, args, kwargs, star):
        o = V.oid(recv)
        I.st.assume(ProcNamesN(o) >= 0)
        return I.st.new_list(Sq(ProcNames(o), ProcNamesN(o)))

    def m_process(self, I, recv, args, kwargs, star):
        st = I.st
        o = V.oid(recv)
        data = I.lift(args[0])
        if star is None:
            d = st.new_dict()
            for k, v in kwargs.items():
                models.set_item(I, d, vstr(k), v)
            star = d
        dom, val = ddom(st.h, star), dval(st.h, star)
        st.events.append(("process", o.get_id()))
        st.ghost["processed"] = st.ghost.get("processed", z3.IntVal(0)) + 1
        if st.decide(LogicFails(o, data, dom, val), "logic-fails"):
            raise PyRaise(O.HExc(LogicExc(o, data, dom, val), origin=("logic", "process")))
        r = LogicOut(o, data, dom, val)
        st.assume(z3.Implies(V.is_ref(r), V.id(r) <= 0))
        return r

    def obj_setattr(self, I, v, name, value):
        return None     # observer_context bookkeeping on the opaque processor

    def obj_attr(self, I, v, name):
        if name == "__class__":
            return V.cls(objcls(V.oid(v)))
        return super().obj_attr(I, v, name)

    def call_override(self, I, f, args, kwargs, star):
        if isinstance(f, O.HFunc) and f.key == (PR, "_default_for") and self.default_for_contract:
            self.used_contracts.add(f.key)
            b = I.bind_args(f, args, kwargs, star)
            return Dflt(I.lift(b["processor_cls"]), I.lift(b["name"]))
        return MISSING

    def symcls_attr(self, I, v, name):
        if name == "get_metadata":
            return O.HExt("spec.get_metadata")
        return super().symcls_attr(I, v, name)

    def inst_attr_override(self, I, v, ci, name):
        if name == "logger":
            return V.obj(z3.IntVal(-777))
        return None

    def obj_method_call(self, I, recv, name, args, kwargs, star):
        if name in models.LOGGING_NOOPS:
            return NONE
        return super().obj_method_call(I, recv, name, args, kwargs, star)

    def obj_attr_logger(self):
        pass


class LSpec(Spec):
    def obj_attr(self, I, v, name):
        if name in models.LOGGING_NOOPS:
            return O.HMeth(v, name)
        return super().obj_attr(I, v, name)

    def isinstance_ext(self, I, v, cls):
        # repo instances (ContextType, ...) are never ChainMap instances
        if cls.dotted == "collections.ChainMap" and is_v(v) and I.tag(v) == "ref" and I.kind(v) == K_INST:
            ci = I.inst_class(v)
            if ci is not None and ci.pycls is None:
                return z3.BoolVal(False)
        return super().isinstance_ext(I, v, cls)

    def unknown_attr(self, I, v, name):
        # attribute of an instance whose class is known only up to a bound: plain field read
        st = I.st
        if is_v(v) and I.tag(v) is None:
            t = models.split_tag(I, v, f"attr:{name}")
            if t == "obj":
                return self.obj_attr(I, v, name)
            if t != "ref":
                return MISSING
        if is_v(v) and I.tag(v) == "ref" and I.kind(v) == K_INST:
            if st.decide(z3.Select(st.h.hasf(name), V.id(v)), f"hasattr:{name}"):
                return st.wf_read(z3.Select(st.h.field(name), V.id(v)))
            return MISSING
        return super().unknown_attr(I, v, name)


# ------------------------------------------------------------------------------------------------
def sym_context(I, name="ctx"):
    ci = cls_of(I, CT, "ContextType")
    cd = in_dict(I, name + "_container")
    ctx = in_inst(I, name, ci, {"_context_container": cd})
    return ctx, cd


def no_default(I):
    mod = source.load_module(PR)
    return I.resolve_global(mod, "_NO_DEFAULT")


def h_default_for(spec):
    """_default_for against the metadata-level definition of a declared default"""
    fn_info(spec, PR, "_default_for")

    def body(I):
        st = I.st
        spec.default_for_contract = False
        meta = in_dict(I, "meta")
        params = in_dict(I, "params")
        name = vstr(z3.String("name"))
        pcls = V.cls(z3.Int("pcls"))
        pinfo_ci = cls_of(I, DP, "ParameterInfo")
        spec._meta = meta
        has_params = z3.Select(ddom(st.h, meta), vstr("parameters"))
        st.assume(z3.Implies(has_params, z3.Select(dval(st.h, meta), vstr("parameters")) == params))
        r = z3.Int("r!pi")
        st.mention(pinfo_ci, target=True)
        st.assume(z3.ForAll([r], z3.Implies(z3.And(z3.Select(st.h.kind, r) == K_INST, issub(z3.Select(st.h.cls, r), pinfo_ci.cid)),
                                            z3.Select(st.h.hasf("default"), r))))
        pv = z3.Select(dval(st.h, params), name)
        st.assume(z3.Not(V.is_obj(pv)))        # parameter infos are modelled instances or plain dicts
        st.assume(z3.Implies(V.is_ref(pv), V.id(pv) <= 0))
        h0 = st.h.copy()
        try:
            out = E.execute(I, E.hfunc(PR, "_default_for"), [pcls, name])
        finally:
            spec.default_for_contract = True
        nd = no_default(I)
        if out[0] != "return":
            spec.oblige(I, "never-raises-on-well-formed-metadata", z3.BoolVal(False))
            return
        pinfo = z3.Select(dval(h0, params), name)
        declared = z3.And(has_params, z3.Select(ddom(h0, params), name))
        is_pi = z3.And(V.is_ref(pinfo), z3.Select(h0.kind, V.id(pinfo)) == K_INST,
                       issub(z3.Select(h0.cls, V.id(pinfo)), pinfo_ci.cid))
        is_d = z3.And(V.is_ref(pinfo), z3.Select(h0.kind, V.id(pinfo)) == K_DICT)
        want = z3.If(z3.And(declared, is_pi), z3.Select(h0.field("default"), V.id(pinfo)),
                     z3.If(z3.And(declared, is_d),
                           z3.If(z3.Select(ddom(h0, pinfo), vstr("default")), z3.Select(dval(h0, pinfo), vstr("default")), nd),
                           nd))
        # ParameterInfo instances always carry a `default` attribute (dataclass/namedtuple field)
        spec.oblige(I, "result=declared-default-or-NO_DEFAULT", out[1] == want)
    E.run_function(spec, "_default_for", body)


class MetaSpec(LSpec):
    def ext_call(self, I, dotted, args, kwargs, star):
        if dotted == "spec.get_metadata":
            return self._meta
        return super().ext_call(I, dotted, args, kwargs, star)


def h_resolve(spec):
    fn_info(spec, PR, "resolve_runtime_value")

    def body(I):
        st = I.st
        name = vstr(z3.String("name"))
        cfg = in_dict(I, "cfg")
        ctx, cd = sym_context(I)
        pcls = V.cls(z3.Int("pcls"))
        h0 = st.h.copy()
        out = E.execute(I, E.hfunc(PR, "resolve_runtime_value"), [], dict(name=name, processor_cls=pcls, processor_config=cfg, context=ctx))
        nd = no_default(I)
        cdom, cval, xdom, xval = ddom(h0, cfg), dval(h0, cfg), ddom(h0, cd), dval(h0, cd)
        ok = resolvable(cdom, xdom, pcls, name, nd)
        if out[0] == "return":
            spec.oblige(I, "result=Resolve(config>context>default)", out[1] == resolve_term(cdom, cval, xdom, xval, pcls, name))
            spec.oblige(I, "returns-only-if-resolvable", ok)
        else:
            spec.oblige(I, "raises-KeyError-iff-unresolvable", z3.And(z3.Not(ok), exc_is(out[1], KeyError)))
        spec.oblige(I, "pure", frame_eq(h0, st.h, 0))
    E.run_function(spec, "resolve_runtime_value", body)


def node_inst(I, clsname, extra=None):
    ci = cls_of(I, NODES, clsname)
    proc = V.obj(z3.Int("proc"))
    cfg = in_dict(I, "cfg")
    fields = {"processor": proc, "processor_config": cfg}
    fields.update(extra or {})
    node = in_inst(I, "node", ci, fields)
    return node, proc, cfg


def params_loop_inv(c):
    """parameters dict after i names: exactly the names seen, each bound to Resolve(name)"""
    I = c.I
    h = c.h
    params = c.var("parameters")
    node = c.var("self")
    ctx = c.var("context")
    h0 = c.h0
    cfg = fld(h0, node, "processor_config")
    proc = fld(h0, node, "processor")
    cd = fld(h0, ctx, "_context_container")
    pcls = V.cls(objcls(V.oid(proc)))
    k = z3.Const("k!pl", V)
    j = z3.Int("j!pl")
    seen = z3.Exists([j], z3.And(j >= 0, j < c.i, c.seq.at(j) == k))
    nd = no_default(I)
    return z3.And(
        z3.ForAll([j], z3.Implies(z3.And(j >= 0, j < c.i),
                                  resolvable(ddom(h0, cfg), ddom(h0, cd), pcls, c.seq.at(j), nd))),
        V.is_ref(params), z3.Select(h.kind, V.id(params)) == K_DICT,
        z3.ForAll([k], z3.Select(ddom(h, params), k) == seen),
        z3.ForAll([k], z3.Implies(z3.Select(ddom(h, params), k),
                                  z3.Select(dval(h, params), k) ==
                                  resolve_term(ddom(h0, cfg), dval(h0, cfg), ddom(h0, cd), dval(h0, cd), pcls, k))))


def h_get_params(spec):
    fn_info(spec, NODES, "_DataNode._get_processor_parameters")
    fn_info(spec, NODES, "_DataNode._fetch_parameter_value")
    spec.loop(NODES, "_DataNode._get_processor_parameters", 1,
              LoopSpec(params_loop_inv, modifies_heap=True, frame_except=lambda c: [c.var("parameters")]))

    def body(I):
        st = I.st
        node, proc, cfg = node_inst(I, "_DataOperationNode")
        ctx, cd = sym_context(I)
        o = V.oid(proc)
        h0 = st.h.copy()
        _, f = E.method_of(I, NODES, "_DataNode", "_get_processor_parameters")
        out = E.execute(I, f, [node, ctx])
        nd = no_default(I)
        pcls = V.cls(objcls(o))
        cdom, cval, xdom, xval = ddom(h0, cfg), dval(h0, cfg), ddom(h0, cd), dval(h0, cd)
        names = Sq(ProcNames(o), ProcNamesN(o))
        k = z3.Const("k", V)
        j = z3.Int("j")
        if out[0] == "return":
            res = out[1]
            h = st.h
            inn = z3.Exists([j], z3.And(j >= 0, j < names.n, names.at(j) == k))
            spec.oblige(I, "keys=declared-parameter-names", z3.ForAll([k], z3.Select(ddom(h, res), k) == inn))
            spec.oblige(I, "values=Resolve", z3.ForAll([k], z3.Implies(z3.Select(ddom(h, res), k),
                        z3.Select(dval(h, res), k) == resolve_term(cdom, cval, xdom, xval, pcls, k))))
            spec.oblige(I, "all-names-resolvable", z3.ForAll([j], z3.Implies(z3.And(j >= 0, j < names.n),
                        resolvable(cdom, xdom, pcls, names.at(j), nd))))
        else:
            spec.oblige(I, "raises-KeyError-only-if-some-name-unresolvable", z3.And(
                exc_is(out[1], KeyError),
                z3.Exists([j], z3.And(j >= 0, j < names.n, z3.Not(resolvable(cdom, xdom, pcls, names.at(j), nd))))))
        spec.oblige(I, "context-and-config-untouched", frame_eq(h0, st.h, 0))
    E.run_function(spec, "_DataNode._get_processor_parameters", body)


def resolved_params_contract(spec):
    """contract of _get_processor_parameters used by the node-level harnesses (proved by h_get_params)"""
    def handler(I, f, args, kwargs, star):
        st = I.st
        b = I.bind_args(f, args, kwargs, star)
        node, ctx = b["self"], b["context"]
        h = st.h
        cfg = fld(h, node, "processor_config")
        proc = fld(h, node, "processor")
        cd = fld(h, ctx, "_context_container")
        o = V.oid(proc)
        pcls = V.cls(objcls(o))
        nd = no_default(I)
        names = Sq(ProcNames(o), ProcNamesN(o))
        st.assume(names.n >= 0)
        j = z3.Int("j!c")
        k = z3.Const("k!c", V)
        cdom, cval, xdom, xval = ddom(h, cfg), dval(h, cfg), ddom(h, cd), dval(h, cd)
        allok = z3.ForAll([j], z3.Implies(z3.And(j >= 0, j < names.n), resolvable(cdom, xdom, pcls, names.at(j), nd)))
        spec.used_contracts.add(f.key)
        if st.decide(allok, "all-parameters-resolvable"):
            d = st.new_dict()
            rid = V.id(d)
            dom = z3.Lambda([k], z3.Exists([j], z3.And(j >= 0, j < names.n, names.at(j) == k)))
            val = z3.Lambda([k], resolve_term(cdom, cval, xdom, xval, pcls, k))
            st.h.ddom = z3.Store(st.h.ddom, rid, dom)
            st.h.dval = z3.Store(st.h.dval, rid, val)
            st.h.dlen = z3.Store(st.h.dlen, rid, fresh("card", I_))
            st.h.dord = z3.Store(st.h.dord, rid, fresh("ord", core.VArr))
            return d
        I.raise_(KeyError, origin=("contract", "_get_processor_parameters"))
    return handler


class NodeSpec(LSpec):
    """node-level harnesses: parameter resolution through the proved contract"""

    def __init__(self):
        super().__init__()
        self.inline.discard((NODES, "_DataNode._get_processor_parameters"))
        self._gp = resolved_params_contract(self)

    def call_override(self, I, f, args, kwargs, star):
        if isinstance(f, O.HFunc) and f.qual == "_DataNode._get_processor_parameters":
            return self._gp(I, f, args, kwargs, star)
        return super().call_override(I, f, args, kwargs, star)


def resolved(I, h, node, cd_term):
    cfg = fld(h, node, "processor_config")
    proc = fld(h, node, "processor")
    o = V.oid(proc)
    pcls = V.cls(objcls(o))
    k = z3.Const("k!r", V)
    j = z3.Int("j!r")
    names = Sq(ProcNames(o), ProcNamesN(o))
    dom = z3.Lambda([k], z3.Exists([j], z3.And(j >= 0, j < names.n, names.at(j) == k)))
    val = z3.Lambda([k], resolve_term(ddom(h, cfg), dval(h, cfg), z3.Select(h.ddom, V.id(cd_term)), z3.Select(h.dval, V.id(cd_term)), pcls, k))
    return dom, val


def h_data_node_process(spec):
    """operation node: type gate, then data' = Logic(data, Resolve*), same context object, context content untouched"""
    fn_info(spec, NODES, "_DataNode._process")
    fn_info(spec, NODES, "_DataNode._process_single_item_with_context")

    def body(I):
        st = I.st
        node, proc, cfg = node_inst(I, "_DataOperationNode")
        ctx, cd = sym_context(I)
        data = V.obj(z3.Int("data"))
        pl_ci = cls_of(I, PAYLOAD, "Payload")
        payload = in_inst(I, "payload", pl_ci, {"data": data, "context": ctx})
        o = V.oid(proc)
        it = InType(o)
        st.assume(V.is_cls(it))
        h0 = st.h.copy()
        st.ghost["processed"] = z3.IntVal(0)
        _, f = E.method_of(I, NODES, "_DataNode", "_process")
        out = E.execute(I, f, [node, payload])
        h = st.h
        gate = issub(objcls(V.oid(data)), V.cid(it))
        dom, val = resolved(I, h0, node, cd)
        fails = LogicFails(o, data, dom, val)
        nd = no_default(I)
        j = z3.Int("j")
        names = Sq(ProcNames(o), ProcNamesN(o))
        pcls = V.cls(objcls(o))
        allok = z3.ForAll([j], z3.Implies(z3.And(j >= 0, j < names.n),
                                          resolvable(ddom(h0, cfg), ddom(h0, cd), pcls, names.at(j), nd)))
        if out[0] == "return":
            res = out[1]
            spec.oblige(I, "returns-only-if-gate-and-params-and-logic-ok", z3.And(gate, allok, z3.Not(fails)))
            spec.oblige(I, "data'=Logic(data,resolved-params)", fld(h, res, "data") == LogicOut(o, data, dom, val))
            spec.oblige(I, "context-object-is-the-input-context", fld(h, res, "context") == ctx)
            spec.oblige(I, "processor-ran-once", st.ghost["processed"] == 1)
        else:
            exc = out[1]
            spec.oblige(I, "failure-is-prescribed", z3.Or(
                z3.And(z3.Not(gate), exc_is(exc, TypeError), st.ghost["processed"] == 0),
                z3.And(gate, z3.Not(allok), exc_is(exc, KeyError), st.ghost["processed"] == 0),
                z3.And(gate, allok, fails, exc.cid == LogicExc(o, data, dom, val), st.ghost["processed"] == 1)))
        spec.oblige(I, "context-content-untouched-by-the-node-itself", z3.And(
            ddom(h, cd) == ddom(h0, cd), dval(h, cd) == dval(h0, cd)))
    E.run_function(spec, "_DataNode._process", body)


def h_probe_node(spec):
    """probe node: data passes through unchanged; ctx' = ctx[context_key := Logic(data, params)] and nothing else"""
    fn_info(spec, NODES, "_ProbeContextInjectorNode._process_single_item_with_context")
    fn_info(spec, CO, "_ContextObserver.update_context")

    def body(I):
        st = I.st
        key = vstr(z3.String("context_key"))
        node, proc, cfg = node_inst(I, "_ProbeContextInjectorNode", {"context_key": key})
        ctx, cd = sym_context(I)
        data = V.obj(z3.Int("data"))
        pl_ci = cls_of(I, PAYLOAD, "Payload")
        payload = in_inst(I, "payload", pl_ci, {"data": data, "context": ctx})
        o = V.oid(proc)
        h0 = st.h.copy()
        st.ghost["processed"] = z3.IntVal(0)
        _, f = E.method_of(I, NODES, "_ProbeContextInjectorNode", "_process_single_item_with_context")
        out = E.execute(I, f, [node, payload])
        h = st.h
        dom, val = resolved(I, h0, node, cd)
        fails = LogicFails(o, data, dom, val)
        if out[0] == "return":
            res = out[1]
            probe = LogicOut(o, data, dom, val)
            spec.oblige(I, "data-passes-through-unchanged", fld(h, res, "data") == data)
            spec.oblige(I, "same-context-object", fld(h, res, "context") == ctx)
            spec.oblige(I, "context'=context[key:=probe-result]", z3.And(
                ddom(h, cd) == z3.Store(ddom(h0, cd), key, True),
                dval(h, cd) == z3.Store(dval(h0, cd), key, probe)))
            spec.oblige(I, "probe-ran-once", st.ghost["processed"] == 1)
        else:
            spec.oblige(I, "on-failure-context-untouched", z3.And(ddom(h, cd) == ddom(h0, cd), dval(h, cd) == dval(h0, cd)))
    E.run_function(spec, "_ProbeContextInjectorNode._process_single_item_with_context", body)


def h_validating_observer(spec):
    """declared-key enforcement: update/delete raise KeyError iff the key is not declared; else exactly that key changes"""
    fn_info(spec, CO, "_ValidatingContextObserver.update")
    fn_info(spec, CO, "_ValidatingContextObserver.delete")
    fn_info(spec, CO, "_ContextObserver.update")
    fn_info(spec, CO, "_ContextObserver.delete")
    fn_info(spec, CO, "_ContextObserver.delete_context")

    def mk(op):
        def body(I):
            st = I.st
            ci = cls_of(I, CO, "_ValidatingContextObserver")
            ctx, cd = sym_context(I)
            allowed_c, allowed_s = in_set(I, "allowed_context"), in_set(I, "allowed_suppressed")
            obs = in_inst(I, "obs", ci, {"observer_context": ctx, "_allowed_context_keys": allowed_c,
                                         "_allowed_suppressed_keys": allowed_s})
            key = vstr(z3.String("key"))
            value = in_val(I, "value")
            h0 = st.h.copy()
            _, f = E.method_of(I, CO, "_ValidatingContextObserver", op)
            out = E.execute(I, f, [obs, key] + ([value] if op == "update" else []))
            h = st.h
            if op == "update":
                ok = z3.Select(z3.Select(h0.sdom, V.id(allowed_c)), key)
                if out[0] == "return":
                    spec.oblige(I, "update/allowed-key-written", z3.And(ok, ddom(h, cd) == z3.Store(ddom(h0, cd), key, True),
                                                                         dval(h, cd) == z3.Store(dval(h0, cd), key, value)))
                else:
                    spec.oblige(I, "update/undeclared-key-raises-KeyError-context-untouched", z3.And(
                        z3.Not(ok), exc_is(out[1], KeyError), ddom(h, cd) == ddom(h0, cd), dval(h, cd) == dval(h0, cd)))
            else:
                ok = z3.Select(z3.Select(h0.sdom, V.id(allowed_s)), key)
                present = z3.Select(ddom(h0, cd), key)
                if out[0] == "return":
                    spec.oblige(I, "delete/declared-present-key-removed", z3.And(ok, present,
                                ddom(h, cd) == z3.Store(ddom(h0, cd), key, False)))
                    k = z3.Const("k", V)
                    spec.oblige(I, "delete/other-values-kept", z3.ForAll([k], z3.Implies(k != key, z3.Select(dval(h, cd), k) == z3.Select(dval(h0, cd), k))))
                else:
                    spec.oblige(I, "delete/raises-KeyError-iff-undeclared-or-absent-context-untouched", z3.And(
                        z3.Or(z3.Not(ok), z3.Not(present)), exc_is(out[1], KeyError),
                        ddom(h, cd) == ddom(h0, cd), dval(h, cd) == dval(h0, cd)))
        return body
    E.run_function(spec, "_ValidatingContextObserver.update", mk("update"))
    E.run_function(spec, "_ValidatingContextObserver.delete", mk("delete"))


def h_rename_delete(spec):
    """generated rename:/delete: processors: a present (non-None) value is moved / removed, through the notifier API"""
    fn_info(spec, FACT, "_context_renamer_factory.<locals>._process_logic")
    fn_info(spec, FACT, "_context_deleter_factory.<locals>._process_logic")
    fn_info(spec, CP, "ContextProcessor._notify_context_update")
    fn_info(spec, CP, "ContextProcessor._notify_context_deletion")

    def mk(which):
        def body(I):
            st = I.st
            cp_ci = cls_of(I, CP, "ContextProcessor")
            obs_ci = cls_of(I, CO, "_ValidatingContextObserver")
            ctx, cd = sym_context(I)
            src, dst = vstr(z3.String("original_key")), vstr(z3.String("destination_key"))
            allowed_c, allowed_s = in_set(I, "allowed_context"), in_set(I, "allowed_suppressed")
            # the observer the node builds from the processor's own declarations (created=[dst], suppressed=[src])
            st.assume(z3.Select(st.h.sdom, V.id(allowed_s)) == z3.Store(models.EMPTY_SET, src, True))
            st.assume(z3.Select(st.h.sdom, V.id(allowed_c)) ==
                      (z3.Store(models.EMPTY_SET, dst, True) if which == "rename" else models.EMPTY_SET))
            obs = in_inst(I, "obs", obs_ci, {"observer_context": ctx, "_allowed_context_keys": allowed_c,
                                             "_allowed_suppressed_keys": allowed_s})
            me = in_inst(I, "proc", cp_ci, {"_context_observer": obs})
            kwargs = in_dict(I, "kwargs")
            # the node resolved the single declared parameter `src` (from config/context/default)
            st.assume(z3.Select(ddom(st.h, kwargs), src))
            value = z3.Select(dval(st.h, kwargs), src)
            st.assume(z3.Implies(V.is_ref(value), V.id(value) <= 0))
            h0 = st.h.copy()
            mod = source.load_module(FACT)
            env = Env(mod)
            if which == "rename":
                env.vars.update({"original_key": src, "destination_key": dst})
                f = E.hfunc(FACT, "_context_renamer_factory.<locals>._process_logic", closure=env)
            else:
                env.vars.update({"key": src})
                f = E.hfunc(FACT, "_context_deleter_factory.<locals>._process_logic", closure=env)
            try:
                I.call_function(f, [me], {}, kwargs)
                out = ("return", NONE)
            except PyRaise as pr:
                out = ("raise", pr.exc)
            h = st.h
            present = z3.Select(ddom(h0, cd), src)
            if out[0] == "return":
                moved_dom = z3.Store(z3.Store(ddom(h0, cd), dst, True), src, False) if which == "rename" else z3.Store(ddom(h0, cd), src, False)
                spec.oblige(I, f"{which}/a-present-non-None-value-is-{'moved' if which == 'rename' else 'removed'}",
                            z3.Implies(value != NONE, z3.And(z3.Or(present, src == dst), ddom(h, cd) == moved_dom)))
                if which == "rename":
                    spec.oblige(I, "rename/destination-holds-the-value", z3.Implies(z3.And(value != NONE, src != dst),
                                                                                   z3.Select(dval(h, cd), dst) == value))
                spec.oblige(I, f"{which}/None-value-leaves-context-unchanged",
                            z3.Implies(value == NONE, z3.And(ddom(h, cd) == ddom(h0, cd), dval(h, cd) == dval(h0, cd))))
                k = z3.Const("k", V)
                spec.oblige(I, f"{which}/only-declared-keys-touched", z3.ForAll([k], z3.Implies(z3.And(k != src, k != dst), z3.And(
                    z3.Select(ddom(h, cd), k) == z3.Select(ddom(h0, cd), k), z3.Select(dval(h, cd), k) == z3.Select(dval(h0, cd), k)))))
            else:
                spec.oblige(I, f"{which}/raises-only-when-the-key-is-absent-from-the-context",
                            z3.And(value != NONE, z3.Not(present) if which == "delete" else z3.Not(present), exc_is(out[1], KeyError)))
        return body
    E.run_function(spec, "rename._process_logic", mk("rename"))
    E.run_function(spec, "delete._process_logic", mk("delete"))


def h_dataop_notify(spec):
    fn_info(spec, DP, "DataOperation._notify_context_update")

    def body(I):
        st = I.st
        ci = cls_of(I, DP, "DataOperation")
        ctx, cd = sym_context(I)
        obs_ci = cls_of(I, CO, "_ContextObserver")
        obs = in_inst(I, "obs", obs_ci, {"observer_context": ctx})
        me = in_inst(I, "op", ci, {"context_observer": obs})
        keys = in_list(I, "declared_keys")
        spec._ckeys = keys
        key = vstr(z3.String("key"))
        value = in_val(I, "value")
        h0 = st.h.copy()
        _, f = E.method_of(I, DP, "DataOperation", "_notify_context_update")
        out = E.execute(I, f, [me, key, value])
        h = st.h
        declared = z3.Select(models.set_term_ax(I, Sq(z3.Select(h0.larr, V.id(keys)), z3.Select(h0.llen, V.id(keys)))), key)
        if out[0] == "return":
            spec.oblige(I, "declared-key-written", z3.And(declared, ddom(h, cd) == z3.Store(ddom(h0, cd), key, True),
                                                          dval(h, cd) == z3.Store(dval(h0, cd), key, value)))
        else:
            spec.oblige(I, "undeclared-key-raises-KeyError-context-untouched", z3.And(
                z3.Not(declared), exc_is(out[1], KeyError), ddom(h, cd) == ddom(h0, cd), dval(h, cd) == dval(h0, cd)))
    E.run_function(spec, "DataOperation._notify_context_update", body)


class DataOpSpec(LSpec):
    def class_attr_override(self, I, ci, name):
        return None

    def call_override(self, I, f, args, kwargs, star):
        if isinstance(f, O.HFunc) and f.node.name == "context_keys":
            return self._ckeys
        return super().call_override(I, f, args, kwargs, star)

    def obj_truthy(self, I, v):
        return z3.BoolVal(True)


PP = "semantiva/pipeline/payload_processors.py"


class EntrySpec(BaseSpec):
    """_PayloadProcessor.process: the entry every node is driven through"""

    def __init__(self):
        super().__init__(PROP)
        self.inline |= {(PP, "_PayloadProcessor.process")}
        self.inline_files |= {PAYLOAD}
        self.obj_methods = {"start": lambda I, r, a, k, s: NONE, "stop": lambda I, r, a, k, s: NONE}

    def instantiate_override(self, I, ci, args, kwargs, star):
        if ci.name == "NoDataType":
            return V.obj(fresh("NoDataType_instance", core.I))
        if ci.name == "ContextType":
            return V.obj(z3.Function("ContextTypeOf", V, core.I)(I.lift(args[0]) if args else NONE))
        return MISSING

    def inst_attr_override(self, I, v, ci, name):
        if name == "input_data_type":
            return O.HExt("c01.input_data_type")
        return None

    def ext_call(self, I, dotted, args, kwargs, star):
        if dotted == "c01.input_data_type":
            return self.CUR["in_type"]
        return super().ext_call(I, dotted, args, kwargs, star)

    def call_override(self, I, f, args, kwargs, star):
        fn = f.func if isinstance(f, O.HBound) else f
        if isinstance(fn, O.HFunc) and fn.node.name == "_process":
            self.CUR["arg"] = I.lift(args[-1])
            self.CUR["calls"] = self.CUR.get("calls", 0) + 1
            self.CUR["result"] = V.obj(fresh("process_result", core.I))
            return self.CUR["result"]
        return MISSING


def h_entry(spec):
    """data handed to _process is the caller's data object itself, replaced by NoDataType() only when it is None and the node
    consumes no data; the context object is the caller's (a plain dict is wrapped once); the result is _process's result"""
    fn_info(spec, PP, "_PayloadProcessor.process")

    def body(I):
        st = I.st
        pp_ci = cls_of(I, PP, "_PayloadProcessor")
        pl_ci = cls_of(I, PAYLOAD, "Payload")
        mod = source.load_module(PP)
        nodata = I.resolve_global(mod, "NoDataType")
        me = in_inst(I, "node", pp_ci, {"stop_watch": V.obj(z3.Int("stop_watch"))})
        # input_data_type(): NoDataType (a source-like node) or some other class
        consumes_nothing = st.choose(2, "input type is NoDataType?") == 0
        in_type = nodata if consumes_nothing else V.cls(z3.Int("SomeDataTypeClass"))
        if not consumes_nothing and isinstance(nodata, O.ClassInfo):
            st.assume(z3.Int("SomeDataTypeClass") != nodata.cid)
        spec.CUR = {"me": me, "in_type": in_type, "arg": None}
        shape = st.choose(3, "payload argument")
        data = z3.Const("data", V)
        st.assume(z3.Or(data == NONE, V.is_obj(data)))
        ctx_obj = V.obj(z3.Int("context_object"))
        if shape == 0:
            payload = NONE
        elif shape == 1:
            payload = in_inst(I, "payload", pl_ci, {"data": data, "context": ctx_obj})
        else:
            payload = in_inst(I, "payload", pl_ci, {"data": data, "context": in_dict(I, "plain_context")})
        _, f = E.method_of(I, PP, "_PayloadProcessor", "process")
        out = E.execute(I, f, [me, payload])
        spec.oblige(I, "process/never-raises-by-itself", z3.BoolVal(out[0] == "return"))
        got = spec.CUR["arg"]
        spec.oblige(I, "process/_process-called-exactly-once", z3.BoolVal(got is not None and spec.CUR.get("calls") == 1))
        if got is None or out[0] != "return":
            return
        h = st.h
        gd, gc = fld(h, got, "data"), fld(h, got, "context")
        is_nodata = lambda v: z3.And(V.is_obj(v), z3.BoolVal("NoDataType_instance" in str(z3.simplify(v))))
        if shape == 0:
            spec.oblige(I, "process/no-payload:_process-gets-NoDataType-and-a-fresh-context", is_nodata(gd))
        else:
            want_keep = z3.Not(z3.And(data == NONE, z3.BoolVal(consumes_nothing)))
            spec.oblige(I, "process/the-caller's-data-object-reaches-_process-unchanged(unless-None-for-a-node-without-input)",
                        z3.Implies(want_keep, gd == data), meta={"witness": "data-replaced"})
            spec.oblige(I, "process/None-becomes-NoDataType-only-for-a-node-without-input",
                        z3.Implies(z3.Not(want_keep), is_nodata(gd)))
            if shape == 1:
                spec.oblige(I, "process/the-caller's-context-object-reaches-_process", gc == ctx_obj)
        spec.oblige(I, "process/returns-what-_process-returned", I.lift(out[1]) == spec.CUR["result"])
    E.run_function(spec, "_PayloadProcessor.process", body)


SLICER = "semantiva/data_processors/data_slicer_factory.py"


class SlicerSpec(LSpec):
    """generated slicer classes: the wrapped processor's process() is the abstract Logic (may fail on any element), the collection
    type's from_list([]) an empty list the slicer appends to, iteration of the input collection = its element list"""

    def __init__(self):
        super().__init__()
        self.obj_methods = dict(self.obj_methods, from_list=self.m_from_list)
        self.skolem_goals = True
        self.assumptions |= {"iterating a DataCollectionType yields its elements in order (DataCollectionType.__iter__); from_list([]) is an empty collection whose append() adds at the end"}

    def m_from_list(self, I, recv, args, kwargs, star):
        return I.st.new_list(Sq(fresh("empty", core.VArr), z3.IntVal(0)))

    def obj_attr(self, I, v, name):
        if name in ("data_type_override", "input_data_type_override"):
            return V.obj(z3.Int("CollectionType"))
        return super().obj_attr(I, v, name)

    def opaque_super(self, I, sup, c, name):
        if name == "process":
            return O.HBound(sup.selfv, O.HExt("c01.wrapped_processor.process"))
        return super().opaque_super(I, sup, c, name)

    def ext_call(self, I, dotted, args, kwargs, star):
        if dotted == "c01.wrapped_processor.process":
            st = I.st
            me, item = args[0], I.lift(args[1])
            o = V.oid(I.lift(me))
            if star is None:
                star = st.new_dict()
            # the mapping handed on is a copy (**kwargs): compared key by key with the resolved parameters, then Logic is taken at the
            # resolved parameters (Logic depends on the content of the mapping only)
            k = fresh("any_parameter_name")
            self.oblige(I, "slicer/the-wrapped-processor-gets-exactly-the-resolved-parameters",
                        z3.And(z3.Select(ddom(st.h, star), k) == z3.Select(self.DOM0, k),
                               z3.Implies(z3.Select(self.DOM0, k), z3.Select(dval(st.h, star), k) == z3.Select(self.VAL0, k))), hints=[k])
            dom, val = self.DOM0, self.VAL0
            st.ghost["calls"] = st.ghost.get("calls", z3.IntVal(0)) + 1
            st.ghost["last_item"] = item
            if st.decide(LogicFails(o, item, dom, val), "logic-fails"):
                e = O.HExc(LogicExc(o, item, dom, val), origin=("logic", "process"))
                st.ghost["logic_exc"] = e
                raise PyRaise(e)
            r = LogicOut(o, item, dom, val)
            st.assume(z3.Implies(V.is_ref(r), V.id(r) <= 0))
            return r
        return super().ext_call(I, dotted, args, kwargs, star)


def h_slicer(spec):
    """slice:<processor>:<collection>: the generated process() maps the wrapped processor over the collection element-wise, in order,
    with the same resolved parameters for every element; the first failing element's exception propagates and no later element is
    processed (operation: the result collection holds Logic(x_i) at position i; probe: the list of probe results likewise)."""
    quals = {"operation": "_SlicingDataProcessorFactory.create.<locals>.SlicingDataOperator.process",
             "probe": "_SlicingDataProcessorFactory.create.<locals>.SlicingDataProbe.process"}
    for q in quals.values():
        fn_info(spec, SLICER, q)

    def mk(which):
        def body(I):
            st = I.st
            coll = in_list(I, "collection_elements")
            n = z3.Select(st.h.llen, V.id(coll))
            st.assume(n >= 0)
            me = V.obj(z3.Int("slicer_instance"))
            kwargs = in_dict(I, "resolved_parameters")
            h0 = st.h.copy()
            arr0 = z3.Select(h0.larr, V.id(coll))
            o = V.oid(me)
            dom, val = ddom(h0, kwargs), dval(h0, kwargs)
            spec.DOM0, spec.VAL0 = dom, val
            node, chain = source.find_def(SLICER, quals[which])
            mod = source.load_module(SLICER)
            base = O.abstract_class("WrappedProcessor")
            owner = O.ClassInfo(("c01-slicer", which, node.lineno), chain[-1].name, module=mod, node=chain[-1], bases=[base])
            env = Env(mod)
            env.vars.update({"processor_class": base, "input_data_collection_type": V.obj(z3.Int("CollectionType"))})
            f = O.HFunc(node, mod, env, quals[which], owner)
            out_var = "processed_data" if which == "operation" else "probed_results"
            j = z3.Int("j!sl")

            def inv(c):
                res = c.st.list_sq(c.var(out_var))
                return z3.And(res.n == c.i, c.st.ghost.get("calls", z3.IntVal(0)) == c.i,
                              z3.ForAll([j], z3.Implies(z3.And(j >= 0, j < c.i), z3.And(z3.Not(LogicFails(o, z3.Select(arr0, j), dom, val)),
                                                                                        res.at(j) == LogicOut(o, z3.Select(arr0, j), dom, val)))))
            spec.loops.clear()
            spec.loop(SLICER, quals[which], 1, LoopSpec(inv, modifies_heap=True, frame_except=lambda c: [c.var(out_var)], ghost=("calls",)))
            st.ghost["calls"] = z3.IntVal(0)
            try:
                r = I.call_function(f, [me, coll], {}, kwargs)
                out = ("return", r)
            except PyRaise as pr:
                out = ("raise", pr.exc)
            calls = st.ghost["calls"]
            if out[0] == "return":
                res = st.list_sq(out[1])
                spec.oblige(I, f"slicer[{which}]/one-result-per-element", z3.And(res.n == n, calls == n))
                spec.oblige(I, f"slicer[{which}]/result[i]=Logic(element[i],resolved-parameters)-in-order",
                            z3.ForAll([j], z3.Implies(z3.And(j >= 0, j < n), res.at(j) == LogicOut(o, z3.Select(arr0, j), dom, val))))
                spec.oblige(I, f"slicer[{which}]/returns-only-if-no-element-fails",
                            z3.ForAll([j], z3.Implies(z3.And(j >= 0, j < n), z3.Not(LogicFails(o, z3.Select(arr0, j), dom, val)))))
            else:
                k = calls - 1
                spec.oblige(I, f"slicer[{which}]/raises-only-the-wrapped-processor's-exception", z3.BoolVal(out[1] is st.ghost.get("logic_exc")))
                spec.oblige(I, f"slicer[{which}]/fails-at-the-first-failing-element,no-later-element-processed",
                            z3.And(k >= 0, k < n, st.ghost["last_item"] == z3.Select(arr0, k), LogicFails(o, z3.Select(arr0, k), dom, val),
                                   z3.ForAll([j], z3.Implies(z3.And(j >= 0, j < k), z3.Not(LogicFails(o, z3.Select(arr0, j), dom, val))))))
            spec.oblige(I, f"slicer[{which}]/input-collection-and-parameters-untouched", frame_eq(h0, st.h, 0))
        return body
    E.run_function(spec, "slicer[operation].process", mk("operation"))
    E.run_function(spec, "slicer[probe].process", mk("probe"))


IOF = "semantiva/data_processors/io_operation_factory.py"
IoOut = z3.Function("IoOut", I_, core.VSet, core.VMap, V)            # what the wrapped source returns for these parameters
IoFails = z3.Function("IoFails", I_, V, core.VSet, core.VMap, core.B)
IoExc = z3.Function("IoExc", I_, V, core.VSet, core.VMap, I_)


class IoSpec(LSpec):
    """role-preserving adapters: the wrapped data-IO class is abstract (its get_data / _get_payload / send_data / _send_payload may fail
    with any exception); a payload source's payload carries a mapping as context"""

    def __init__(self):
        super().__init__()
        self.skolem_goals = True
        self.obj_methods = dict(self.obj_methods, get_data=self.m_io("get_data"), _get_payload=self.m_io("_get_payload"),
                                send_data=self.m_io("send_data"), _send_payload=self.m_io("_send_payload"),
                                _notify_context_update=self.m_notify, warning=self.m_noop)
        self.assumptions |= {"the wrapped data-IO object is abstract: IoOut / IoFails of (class, data, parameters); the context a payload source returns is a mapping iterated in its own order"}

    def m_noop(self, I, recv, args, kwargs, star):
        return NONE

    def call_value(self, I, f, args, kwargs, star):
        if I.lift(f).eq(self.IO_CLASS):
            return V.obj(z3.Int("data_io_instance"))
        return super().call_value(I, f, args, kwargs, star)

    def instantiate_override(self, I, ci, args, kwargs, star):
        if ci.name == "Logger":
            return V.obj(z3.Int("logger"))
        if ci.name == "ContextType" and not args and not kwargs:
            return V.obj(z3.Int("fresh_empty_context"))
        return MISSING

    def obj_attr(self, I, v, name):
        if name == "__name__":
            return vstr(z3.String("class_name"))
        if name == "context_observer":
            return self.OBSERVER
        if name == "observer_context":
            return V.obj(z3.Int("observer_context"))
        return super().obj_attr(I, v, name)

    def m_io(self, meth):
        def call(I, recv, args, kwargs, star):
            st = I.st
            if star is None:
                star = st.new_dict()
                for k_, v_ in kwargs.items():
                    models.set_item(I, star, vstr(k_), v_)
            o = z3.Int("data_io_class_id")
            subject = I.lift(args[0]) if args else NONE
            st.ghost["io_calls"] = st.ghost.get("io_calls", []) + [(meth, subject, star, st.h.copy())]
            dom, val = ddom(st.h, star), dval(st.h, star)
            if st.decide(IoFails(o, subject, dom, val), "io-fails"):
                e = O.HExc(IoExc(o, subject, dom, val), origin=("io", meth))
                st.ghost["io_exc"] = e
                raise PyRaise(e)
            if meth == "get_data":
                return IoOut(o, dom, val)
            if meth == "_get_payload":
                return self.PAYLOAD_OUT
            return NONE
        return call

    def m_notify(self, I, recv, args, kwargs, star):
        st = I.st
        U = self.UPDATES
        st.set_list(U, st.list_sq(U).append(vtup([I.lift(args[0]), I.lift(args[1])])))
        return NONE


def _io_defs():
    import ast as _ast
    mod = source.load_module(IOF)
    outer = None
    for n in _ast.walk(mod.tree):
        if isinstance(n, _ast.FunctionDef) and n.name == "create_data_operation":
            outer = n
    defs = sorted([n for n in _ast.walk(outer) if isinstance(n, _ast.FunctionDef) and n.name == "_process_logic_method"], key=lambda n: n.lineno) if outer else []
    return mod, defs


def h_io_adapters(spec):
    """the DataOperation adapters generated for sources and sinks: a data source ignores its input and returns what the wrapped
    source produces for exactly the resolved parameters (plus the observer context when the source accepts one); a payload source
    returns the payload's data and notifies every (key, value) of the payload's context once, in order; sinks hand the data (a data
    sink: the very object, a payload sink: a payload holding it) and exactly the resolved parameters to the wrapped sink once and
    return the same data object."""
    mod, defs = _io_defs()
    roles = ["data-source", "payload-source", "data-sink", "payload-sink"]
    if len(defs) != 4:
        spec.undecided.append(("io-adapters", f"OUTSIDE-SUBSET: expected the four adapter bodies of create_data_operation, found {len(defs)}"))
        return
    import ast as _ast, hashlib as _hl
    for d_, r_ in zip(defs, roles):
        q_ = f"_IOOperationFactory.create_data_operation.<locals>._process_logic_method[{r_}]"
        spec.functions[(IOF, q_)] = {"file": IOF, "function": q_, "lines": [d_.lineno, d_.end_lineno],
                                     "sha256": _hl.sha256((_ast.get_source_segment(mod.text, d_) or "").encode()).hexdigest()}

    def mk(role, node):
        def body(I):
            st = I.st
            spec.IO_CLASS = V.obj(z3.Int("DataIoClass"))
            has_obs = st.choose(2, "node has a context observer?") == 0
            spec.OBSERVER = V.obj(z3.Int("observer")) if has_obs else NONE
            me = V.obj(z3.Int("adapter_instance"))
            data = in_val(I, "input_data")
            kwargs = in_dict(I, "resolved_parameters")
            spec.UPDATES = in_list(I, "UPDATES")
            st.assume(z3.Select(st.h.llen, V.id(spec.UPDATES)) == 0)
            pctx = in_dict(I, "payload_context")
            st.assume(z3.Select(st.h.dlen, V.id(pctx)) >= 0)
            pl_ci = cls_of(I, "semantiva/pipeline/payload.py", "Payload")
            spec.PAYLOAD_OUT = in_inst(I, "payload_out", pl_ci, {"data": in_val(I, "payload_data"), "context": pctx})
            h0 = st.h.copy()
            dom0, val0 = ddom(h0, kwargs), dval(h0, kwargs)
            env = Env(mod)
            accepts = st.choose(2, "source accepts a context?") == 0 if role == "data-source" else False
            env.vars.update({"data_io_class": spec.IO_CLASS, "accepts_context": vbool(z3.BoolVal(accepts))})
            f = O.HFunc(node, mod, env, f"create_data_operation.<locals>._process_logic_method[{role}]", None)
            j = z3.Int("j!io")
            if role == "payload-source":
                ordk, cv = z3.Select(h0.dord, V.id(pctx)), dval(h0, pctx)

                def inv(c):
                    U = c.st.list_sq(spec.UPDATES)
                    return z3.And(U.n == c.i, z3.ForAll([j], z3.Implies(z3.And(j >= 0, j < c.i),
                                                                         U.at(j) == vtup([z3.Select(ordk, j), z3.Select(cv, z3.Select(ordk, j))]))))
                spec.loops.clear()
                spec.loop(IOF, f.qual, 1, LoopSpec(inv, modifies_heap=True, frame_except=lambda c: [spec.UPDATES]))
            try:
                r = I.call_function(f, [me, data], {}, kwargs)
                out = ("return", r)
            except PyRaise as pr:
                out = ("raise", pr.exc)
            calls = st.ghost.get("io_calls", [])
            want_meth = {"data-source": "get_data", "payload-source": "_get_payload", "data-sink": "send_data", "payload-sink": "_send_payload"}[role]
            spec.oblige(I, f"io[{role}]/the-wrapped-component-is-called-exactly-once", z3.BoolVal(len(calls) == 1 and calls[0][0] == want_meth))
            if len(calls) != 1:
                return
            meth, subject, star, hc = calls[0]
            k = fresh("any_parameter_name")
            same = z3.And(z3.Select(ddom(hc, star), k) == z3.Select(dom0, k), z3.Implies(z3.Select(dom0, k), z3.Select(dval(hc, star), k) == z3.Select(val0, k)))
            if role == "data-source" and accepts and has_obs:
                # the observer context is supplied under `context` unless the resolved parameters already hold one
                ck = vstr("context")
                same = z3.And(z3.Implies(k != ck, same), z3.Select(ddom(hc, star), ck),
                              z3.Implies(z3.Select(dom0, ck), z3.Select(dval(hc, star), ck) == z3.Select(val0, ck)),
                              z3.Implies(z3.Not(z3.Select(dom0, ck)), z3.Select(dval(hc, star), ck) == V.obj(z3.Int("observer_context"))))
            spec.oblige(I, f"io[{role}]/the-wrapped-component-gets-exactly-the-resolved-parameters", same, hints=[k, vstr("context")])
            if out[0] == "raise":
                spec.oblige(I, f"io[{role}]/raises-only-the-wrapped-component's-exception", z3.BoolVal(out[1] is st.ghost.get("io_exc")))
                return
            res = I.lift(out[1])
            o = z3.Int("data_io_class_id")
            if role == "data-source":
                spec.oblige(I, "io[data-source]/returns-what-the-source-produces(input-data-ignored)", res == IoOut(o, ddom(hc, star), dval(hc, star)))
            elif role == "payload-source":
                U = st.list_sq(spec.UPDATES)
                np_ = z3.Select(h0.dlen, V.id(pctx))
                spec.oblige(I, "io[payload-source]/returns-the-payload's-data", res == fld(h0, spec.PAYLOAD_OUT, "data"))
                spec.oblige(I, "io[payload-source]/every-context-entry-of-the-payload-notified-once-in-order",
                            z3.And(U.n == np_, z3.ForAll([j], z3.Implies(z3.And(j >= 0, j < np_), U.at(j) == vtup([z3.Select(ordk, j), z3.Select(cv, z3.Select(ordk, j))])))))
            elif role == "data-sink":
                spec.oblige(I, "io[data-sink]/the-sink-receives-the-data-object", subject == data)
                spec.oblige(I, "io[data-sink]/data-passes-through-unchanged", res == data)
            else:
                spec.oblige(I, "io[payload-sink]/the-sink-receives-a-payload-holding-the-data", z3.And(V.is_ref(subject), fld(hc, subject, "data") == data))
                spec.oblige(I, "io[payload-sink]/data-passes-through-unchanged", res == data)
            if role != "payload-source":
                spec.oblige(I, f"io[{role}]/no-context-write", st.list_sq(spec.UPDATES).n == 0)
        return body
    for role, node in zip(roles, defs):
        E.run_function(spec, f"io-adapter[{role}]", mk(role, node))


class InitSpec(LSpec):
    """node construction: the processor class is abstract (instantiating it gives an opaque processor), the base-class initialiser
    only sets the logger, classify_unknown_config_params is abstract (no issue / one issue)"""

    def call_override(self, I, f, args, kwargs, star):
        fn = f.func if isinstance(f, O.HBound) else f
        if isinstance(fn, O.HFunc) and fn.node.name == "__init__" and fn.qual.split(".")[0] in ("_PayloadProcessor", "_SemantivaComponent", "_PipelineNode"):
            me = f.selfv if isinstance(f, O.HBound) else args[0]
            I.setattr(me, "logger", V.obj(z3.Int("logger")))
            return NONE
        if isinstance(fn, O.HFunc) and fn.node.name == "classify_unknown_config_params":
            st = I.st
            st.ghost["classified"] = (kwargs.get("processor_cls"), kwargs.get("processor_config"), st.h.copy())
            if st.choose(2, "unknown configuration parameters?") == 0:
                st.ghost["issues"] = False
                return st.new_list(Sq(fresh("none", core.VArr), z3.IntVal(0)))
            st.ghost["issues"] = True
            d = st.new_dict()
            models.set_item(I, d, vstr("name"), vstr(z3.String("unknown_parameter")))
            lst = st.new_list(Sq(fresh("one", core.VArr), z3.IntVal(0)))
            st.set_list(lst, st.list_sq(lst).append(d))
            return lst
        return super().call_override(I, f, args, kwargs, star)

    def call_value(self, I, f, args, kwargs, star):
        if I.lift(f).eq(self.PROC_CLASS):
            I.st.ghost["instantiated"] = I.st.ghost.get("instantiated", 0) + 1
            return V.obj(z3.Int("processor_instance"))
        return super().call_value(I, f, args, kwargs, star)

    def obj_attr(self, I, v, name):
        if name in ("__name__", "__module__"):
            return vstr(z3.String("a_" + name.strip("_")))
        if name == "__class__":
            return V.obj(z3.Int("class_of_the_processor_instance"))
        return super().obj_attr(I, v, name)


def h_node_init(spec):
    """node construction keeps the configuration: after _DataNode.__init__ / _ContextProcessorNode.__init__ return, the node's
    processor_config holds exactly the configured parameters (nothing dropped, added or changed; empty when none were given), the
    processor class was instantiated exactly once, the caller's mapping is untouched; construction fails exactly when the
    configuration names a parameter the processor does not know."""
    for cname in ("_DataNode", "_ContextProcessorNode"):
        fn_info(spec, NODES, f"{cname}.__init__")

    def mk(cname):
        def body(I):
            st = I.st
            ci = cls_of(I, NODES, cname)
            me = in_inst(I, "node", ci, {})
            spec.PROC_CLASS = V.obj(z3.Int("ProcessorClass"))
            given = st.choose(2, "configuration given?") == 0
            cfg = in_dict(I, "processor_config") if given else NONE
            h0 = st.h.copy()
            _, f = E.method_of(I, NODES, cname, "__init__")
            err_mod = source.load_module("semantiva/exceptions/pipeline_exceptions.py")
            inv_err = I.class_of_node(err_mod, err_mod.defs["InvalidNodeParameterError"])
            out = E.execute(I, f, [me, spec.PROC_CLASS, cfg, V.obj(z3.Int("logger_arg"))])
            h = st.h
            spec.oblige(I, f"init[{cname}]/the-processor-class-is-instantiated-exactly-once", z3.BoolVal(st.ghost.get("instantiated", 0) == 1))
            spec.oblige(I, f"init[{cname}]/the-caller's-configuration-is-untouched", frame_eq(h0, h, 0, [me]))
            if out[0] == "return":
                spec.oblige(I, f"init[{cname}]/constructed-only-if-every-configured-name-is-known", z3.BoolVal(st.ghost.get("issues") is False))
                pc = fld(h, me, "processor_config")
                k = fresh("any_parameter_name")
                if given:
                    goal = z3.And(V.is_ref(pc), z3.Select(ddom(h, pc), k) == z3.Select(ddom(h0, cfg), k),
                                  z3.Implies(z3.Select(ddom(h0, cfg), k), z3.Select(dval(h, pc), k) == z3.Select(dval(h0, cfg), k)))
                else:
                    goal = z3.And(V.is_ref(pc), z3.Not(z3.Select(ddom(h, pc), k)))
                spec.oblige(I, f"init[{cname}]/the-node-keeps-exactly-the-configured-parameters", goal, hints=[k])
                cl = st.ghost.get("classified")
                if cl is not None and given:
                    cdict = I.lift(cl[1])
                    spec.oblige(I, f"init[{cname}]/the-configuration-that-was-validated-is-the-one-kept",
                                z3.And(z3.Select(ddom(cl[2], cdict), k) == z3.Select(ddom(h0, cfg), k),
                                       z3.Implies(z3.Select(ddom(h0, cfg), k), z3.Select(dval(cl[2], cdict), k) == z3.Select(dval(h0, cfg), k))), hints=[k])
                spec.oblige(I, f"init[{cname}]/processor=the-instance-just-created", fld(h, me, "processor") == V.obj(z3.Int("processor_instance")))
            else:
                spec.oblige(I, f"init[{cname}]/construction-fails-only-for-an-unknown-parameter(InvalidNodeParameterError)",
                            z3.And(z3.BoolVal(st.ghost.get("issues") is True), exc_is(out[1], inv_err)))
        return body
    for cname in ("_DataNode", "_ContextProcessorNode"):
        E.run_function(spec, f"{cname}.__init__", mk(cname))


def h_execute_fold(spec):
    """SemantivaOrchestrator.execute, without a trace driver, for an arbitrary number of abstract nodes: the run returns the fold of
    the node semantics in declaration order (FoldData / FoldCtx, defined by recursion over the node list), every node ran exactly
    once in order, and when node k raises it was given the fold of its predecessors and no later node ran.  The harness, its node
    model and its loop invariant are those of specs/C06.py (which also runs the traced variant)."""
    from . import C06
    C06.h_execute(spec)(False).__call__     # (fails early if the harness was renamed)
    E.run_function(spec, "execute[fold]", C06.h_execute(spec)(False), max_paths=4000)


def _exec_spec():
    from . import C06
    return C06.Spec()


TASKS = [h_default_for, h_resolve, h_get_params, h_data_node_process, h_probe_node, h_validating_observer, h_rename_delete, h_dataop_notify, h_entry, h_execute_fold, h_slicer, h_io_adapters, h_node_init]
FACTORIES = {"h_default_for": MetaSpec, "h_data_node_process": NodeSpec, "h_probe_node": NodeSpec, "h_dataop_notify": DataOpSpec, "h_entry": EntrySpec,
             "h_execute_fold": _exec_spec, "h_slicer": SlicerSpec, "h_io_adapters": IoSpec, "h_node_init": InitSpec}


def factory():
    return LSpec()


def _wrap(task):
    def run(spec):
        fac = FACTORIES.get(task.__name__)
        if fac is None:
            return task(spec)
        s2 = fac()
        s2.obligations, s2._seen, s2.undecided, s2.functions = spec.obligations, spec._seen, spec.undecided, spec.functions
        s2.used_contracts = spec.used_contracts
        task(s2)
        spec.path_count += s2.path_count
        spec.assumptions |= s2.assumptions
    run.__name__ = task.__name__
    return run


WRAPPED = [_wrap(t) for t in TASKS]


def main(tier="quick", seed=0):
    run = report.Run(PROP, tier, seed)
    spec = factory()
    faults = E.run_parallel(spec, factory, WRAPPED, timeout_ms=10000 if tier == "quick" else 30000)
    if faults:
        run.engine_fault = faults[0][-1500:]
    generic_refutations(run, spec, PROP, replay)
    # bounded: whole pipelines through the real Pipeline against a reference interpreter of the documented semantics (composition of
    # the node contracts, state kept between runs, generated slicer / sweep classes)
    run_bounded(run, PROP, "c01_bounded.py", tier)
    return run.finish(spec, "proof", "per-function contracts; see DESIGN.md C01")


def replay(ob):
    payload = {"obligation": ob.name, "solver": ob.backend, "model": report.model_summary(ob), "goal": ob.goal if isinstance(ob.goal, str) else str(ob.goal)[:800]}
    script = os.path.join(report.ROOT, "replay", "c01_replay.py")
    res, proc = report.native_json(script, {"obligation": ob.name})
    payload["native"] = res
    payload["stderr"] = (proc.stderr or "")[-400:]
    if res and res.get("violates"):
        return True, payload
    # second native stage: whole pipelines against the reference interpreter (slicers, the node loop, composition)
    if "bounded" not in _NATIVE:
        _NATIVE["bounded"], _ = report.native_json(os.path.join(report.ROOT, "replay", "c01_bounded.py"), {"tier": "quick", "seed": 0}, timeout=900)
    fails = (_NATIVE["bounded"] or {}).get("failures", [])
    payload["native_pipelines"] = {"failures": fails[:3]}
    return bool(fails), payload


_NATIVE = {}


if __name__ == "__main__":
    t, s = tier_and_seed()
    sys.exit(main(t, s))
