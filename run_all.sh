#!/bin/sh
# Regenerates every evidence file from the unchanged /repo (refuses when /repo has local edits). Usage: ./run_all.sh [tier]
cd "$(dirname "$0")"
if [ -n "$(git -C /repo status --porcelain --untracked-files=no)" ]; then echo "/repo has local modifications - refusing"; exit 2; fi
TIER="${1:-quick}"
rc=0
for id in $(.venv/bin/python -c "import json;print(' '.join(c['property_id'] for c in json.load(open('MANIFEST.json'))['checks']))"); do
  ./check "$id" --tier "$TIER" > "/tmp/runall_$id.log" 2>&1; e=$?
  tail -1 "/tmp/runall_$id.log"
  [ $e -ne 0 ] && { echo "  exit=$e"; rc=1; }
done
.venv/bin/python - <<'PY'
import json, jsonschema, glob
sch = json.load(open('/root/.vp/EVIDENCE.schema.json'))
m = json.load(open('MANIFEST.json'))
jsonschema.validate(m, json.load(open('/root/.vp/MANIFEST.schema.json')))
for c in m['checks']:
    ev = json.load(open(c['evidence_file']))
    jsonschema.validate(ev, sch)
    assert ev['level'] == c['level_claimed']['category'], (c['property_id'], ev['level'])
    cov = ev['coverage']
    if ev['level'] == 'proof':
        assert cov['obligations'] == cov['discharged'] > 0, c['property_id']
print("evidence + manifest valid")
PY
exit $rc
