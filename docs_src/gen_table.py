import json
m=json.load(open('/verif/MANIFEST.json'))
old=open('/verif/docs_src/table.md').read().splitlines()
rows=[]
for line,c in zip(old, m["checks"]):
    i=c["property_id"]
    ev=json.load(open('/verif/'+c["evidence_file"]))
    cov=ev["coverage"]
    st=f'{cov["discharged"]}/{cov["obligations"]} obligations discharged'
    kf=cov.get("known_findings") or []
    if kf: st+=f'; {len(kf)} open known finding(s)'
    parts=line.split(" | ")
    parts[-1]=st+" |"
    rows.append(" | ".join(parts))
open('/verif/docs_src/table.md','w').write("\n".join(rows)+"\n")
