cd /verif
.venv/bin/python - <<'PY'
import json
# regenerate the summary table from current evidence
exec(open('/verif/docs_src/gen_table.py').read())
PY
.venv/bin/python /verif/docs_src/gen_sec7.py
python3 seeded/make_meta.py > /verif/docs_src/matrix.md
cat /verif/docs_src/head.md /verif/docs_src/table.md /verif/docs_src/mid.md /verif/docs_src/sec7.md /verif/docs_src/tail.md /verif/docs_src/matrix.md /verif/docs_src/end.md > /verif/DESIGN.md
wc -l /verif/DESIGN.md
