cd /verif
.venv/bin/python - <<'PY'
import json
# regenerate the summary table from current evidence
exec(open('/verif/docs_src/gen_table.py').read())
PY
.venv/bin/python /verif/docs_src/gen_sec7.py
python3 seeded/make_meta.py > /verif/docs_src/matrix.md
python3 - <<'PY'
import json, glob
metas = [json.load(open(f)) for f in glob.glob('/verif/seeded/C*/meta.json')]
total = len(metas)
caught = sum(1 for m in metas if m["check_result"]["caught"])
byob = sum(1 for m in metas if any(not v.startswith("bounded_") for v in m["check_result"]["violations"]))
s = open('/verif/docs_src/end.md').read().replace("@TOTAL@", str(total)).replace("@BYOB@", str(byob))
open('/verif/docs_src/end.filled.md', 'w').write(s)
print("seeds", total, "caught", caught, "by obligation", byob)
assert caught == total, "a seeded change is not reported"
PY
cat /verif/docs_src/head.md /verif/docs_src/table.md /verif/docs_src/mid.md /verif/docs_src/sec7.md /verif/docs_src/tail.md /verif/docs_src/matrix.md /verif/docs_src/end.filled.md > /verif/DESIGN.md
wc -l /verif/DESIGN.md
