import ast, json
CHECKS={}
ns={"CHECKS":CHECKS}
exec("FIX_COMMITS=[]\n"+open('/verif/manifest_table.py').read(), ns)
props={json.loads(l)["id"]:json.loads(l) for l in open('/verif/properties.jsonl')}
out=[]
for i in sorted(CHECKS):
    c=CHECKS[i]
    doc=ast.get_docstring(ast.parse(open(f'/verif/specs/{i}.py').read()))
    ev=json.load(open(f'/verif/evidence/{i}.json'))
    cov=ev["coverage"]
    out.append(f"### {i} — {props[i]['title']}\n")
    out.append(f"*Claimed level:* {c['level']}.  *Deciding method:* {c['technique']}\n")
    out.append("```\n"+doc+"\n```\n")
    out.append(f"*What the check establishes.*  {c['text']}\n")
    out.append(f"*Limits, assumptions.*  {c['note']}\n")
    b=cov.get("bounded") or {}
    out.append(f"*Last run (quick tier):* {len(cov.get('functions_under_contract',[]))} functions under contract, {cov.get('paths')} paths, "
               f"{cov['discharged']}/{cov['obligations']} obligations discharged ({', '.join(f'{k}: {v}' for k,v in (cov.get('by_backend') or {}).items())}), "
               f"solver {cov.get('solver_seconds')} s; bounded tier: {b.get('evaluations','-')} evaluations ({str(b.get('bound','-'))[:160]}).\n")
open('/verif/docs_src/sec7.md','w').write("\n".join(out))
