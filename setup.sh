#!/bin/sh
# Builds /verif/.venv offline: python 3.12 venv + z3-solver/cvc5/jsonschema/deal/icontract/crosshair from the
# wheelhouse, plus a .pth adding /venv's site-packages so that semantiva (/repo, installed editable in /venv)
# and its third-party dependencies import next to z3.  Idempotent.
set -e
cd "$(dirname "$0")"
PYBASE=$(/venv/bin/python -c 'import sys;print(sys.base_prefix)')
if [ ! -x .venv/bin/python ] || ! .venv/bin/python -c 'import z3, jsonschema' 2>/dev/null; then
  rm -rf .venv
  "$PYBASE/bin/python3.12" -m venv .venv
  PIP_NO_INDEX=1 .venv/bin/pip install -q --no-index --find-links /opt/veriftools/wheels \
      z3-solver cvc5 jsonschema deal icontract crosshair-tool >/dev/null
  SP=$(.venv/bin/python -c 'import sysconfig;print(sysconfig.get_paths()["purelib"])')
  echo "import site; site.addsitedir('/venv/lib/python3.12/site-packages')" > "$SP/zz_repo_overlay.pth"
fi
.venv/bin/python -c 'import z3, semantiva; print("setup ok: z3", z3.get_version_string())'
