"""Symbolic state, path oracle and solver access."""
from __future__ import annotations
import time, z3
from .core import *
from . import objects as O


class PathEnd(Exception):
    """The current path is cut (infeasible assumption, or end of an inductive loop-body path)."""


class PyRaise(Exception):
    def __init__(self, exc):
        self.exc = exc


class Oracle:
    def __init__(self, prefix):
        self.prefix = list(prefix)
        self.trail = []

    def choose(self, n, label=""):
        i = len(self.trail)
        c = self.prefix[i] if i < len(self.prefix) else 0
        self.trail.append((c, n, label))
        return c


def enumerate_paths(run, max_paths=20000):
    """run(oracle) is executed once per decision vector.  Returns number of paths."""
    stack = [[]]
    n = 0
    while stack:
        prefix = stack.pop()
        o = Oracle(prefix)
        n += 1
        if n > max_paths:
            raise O.OutsideSubset(f"more than {max_paths} paths")
        run(o)
        for i in range(len(prefix), len(o.trail)):
            _, k, _ = o.trail[i]
            for alt in range(1, k):
                stack.append([c for c, _, _ in o.trail[:i]] + [alt])
    return n


class SolverStats:
    def __init__(self):
        self.queries = 0
        self.seconds = 0.0
        self.cache_hits = 0


STATS = SolverStats()
_CACHE = {}
_KEEP = []


def _key(pc, extra):
    return (tuple(p.get_id() for p in pc), extra.get_id())


def check_sat(pc, extra, timeout_ms=5000):
    """sat / unsat / unknown of (pc and extra)."""
    k = _key(pc, extra)
    if k in _CACHE:
        STATS.cache_hits += 1
        return _CACHE[k]
    _KEEP.append((list(pc), extra))
    s = z3.Solver()
    s.set("timeout", timeout_ms)
    for p in pc:
        s.add(p)
    s.add(extra)
    t = time.time()
    r = s.check()
    STATS.queries += 1
    STATS.seconds += time.time() - t
    res = "sat" if r == z3.sat else "unsat" if r == z3.unsat else "unknown"
    _CACHE[k] = res
    return res


class St:
    """One symbolic state (mutable; snapshot/restore for branch merging)."""

    def __init__(self, tag="h0"):
        self.pc = []
        self.h = Heap(tag)
        self.nalloc = 0
        self.ghost = {}
        self.gmemo = {}
        self.oracle = None
        self.symcls = []        # symbolic class-id terms in play
        self.classes = set()    # concrete ClassInfo mentioned
        self.reads = set()      # ambient / global reads (for determinism frames)
        self.events = []        # free-form ghost event log (host list of tuples)

    # -- snapshots -------------------------------------------------------------------------
    def snapshot(self):
        return (list(self.pc), self.h.copy(), self.nalloc, dict(self.ghost), dict(self.gmemo),
                len(self.oracle.trail) if self.oracle else 0, list(self.symcls), set(self.classes),
                set(self.reads), list(self.events))

    def restore(self, snap, keep_trail=False):
        (pc, h, nalloc, ghost, gmemo, ntrail, symcls, classes, reads, events) = snap
        self.pc = list(pc)
        self.h = h.copy()
        self.nalloc = nalloc
        self.ghost = dict(ghost)
        self.gmemo = dict(gmemo)
        if self.oracle and not keep_trail:
            del self.oracle.trail[ntrail:]
        self.symcls = list(symcls)
        self.classes = set(classes)
        self.reads = set(reads)
        self.events = list(events)

    # -- logic -----------------------------------------------------------------------------
    def class_axioms(self):
        """Ground facts of the subclass relation for the concrete classes mentioned, and the
        upward-closure instances for the symbolic class ids in play."""
        ax = []
        cl = sorted(self.classes, key=lambda c: c.cid)
        for a in cl:
            for b in cl:
                ax.append(issub(a.cid, b.cid) == z3.BoolVal(a.is_sub(b)))
        for s in self.symcls:
            ax.append(issub(s, s))
            for a in cl:
                for b in cl:
                    if a is not b and a.is_sub(b):
                        ax.append(z3.Implies(issub(s, a.cid), issub(s, b.cid)))
        return ax

    def full_pc(self):
        return list(self.pc) + self.class_axioms()

    def assume(self, f):
        if z3.is_true(f):
            return
        self.pc.append(f)

    def feasible(self, f):
        return check_sat(self.full_pc(), f) != "unsat"

    def valid(self, f):
        return check_sat(self.full_pc(), z3.Not(f)) == "unsat"

    def decide(self, cond, label=""):
        """Fork on a z3 Bool; prunes infeasible sides; adds the chosen side to the pc."""
        cond = z3.simplify(cond)
        if z3.is_true(cond):
            return True
        if z3.is_false(cond):
            return False
        t = self.feasible(cond)
        f = self.feasible(z3.Not(cond))
        if t and not f:
            self.assume(cond)
            return True
        if f and not t:
            self.assume(z3.Not(cond))
            return False
        if not t and not f:
            raise PathEnd()
        c = self.oracle.choose(2, label)
        if c == 0:
            self.assume(cond)
            return True
        self.assume(z3.Not(cond))
        return False

    def choose(self, n, label=""):
        if n <= 1:
            return 0
        return self.oracle.choose(n, label)

    def mention(self, ci):
        if isinstance(ci, O.ClassInfo):
            for c in ci.mro():
                self.classes.add(c)

    # -- allocation ------------------------------------------------------------------------
    def alloc(self, kind, cls=None):
        self.nalloc += 1
        rid = self.nalloc
        self.h.kind = z3.Store(self.h.kind, rid, kind)
        if cls is not None:
            self.h.cls = z3.Store(self.h.cls, rid, cls.cid if isinstance(cls, O.ClassInfo) else cls)
        return rid

    def new_dict(self):
        rid = self.alloc(K_DICT)
        self.h.ddom = z3.Store(self.h.ddom, rid, z3.K(V, z3.BoolVal(False)))
        self.h.dord = z3.Store(self.h.dord, rid, z3.Empty(VSeq))
        self.h.dlen = z3.Store(self.h.dlen, rid, 0)
        return vref(rid)

    def new_list(self, seq=None):
        rid = self.alloc(K_LIST)
        self.h.lseq = z3.Store(self.h.lseq, rid, seq if seq is not None else z3.Empty(VSeq))
        return vref(rid)

    def new_set(self, dom=None, n=None):
        rid = self.alloc(K_SET)
        self.h.sdom = z3.Store(self.h.sdom, rid, dom if dom is not None else z3.K(V, z3.BoolVal(False)))
        if dom is None:
            self.h.slen = z3.Store(self.h.slen, rid, 0)
        elif n is not None:
            self.h.slen = z3.Store(self.h.slen, rid, n)
        else:
            k = fresh("card", I)
            self.assume(k >= 0)
            self.assume((k == 0) == (dom == z3.K(V, z3.BoolVal(False))))
            self.h.slen = z3.Store(self.h.slen, rid, k)
        return vref(rid)

    def new_inst(self, cls):
        rid = self.alloc(K_INST, cls)
        self.mention(cls)
        return vref(rid)

    def wf_read(self, v):
        """Heap well-formedness for a value read out of the heap: a reference it carries was
        allocated before (input objects have ids <= 0, fresh ones 1..nalloc)."""
        self.assume(z3.Implies(V.is_ref(v), V.id(v) <= self.nalloc))
        return v
