"""Symbolic state, path oracle and solver access."""
from __future__ import annotations
import time, z3
from .core import *
from . import core
from . import objects as O


class PathEnd(Exception):
    """The current path is cut (infeasible assumption, or end of an inductive loop-body path)."""


class PyRaise(Exception):
    def __init__(self, exc):
        self.exc = exc


class Oracle:
    def __init__(self, prefix):
        self.prefix = list(prefix)
        self.trail = []

    def choose(self, n, label=""):
        i = len(self.trail)
        c = self.prefix[i] if i < len(self.prefix) else 0
        self.trail.append((c, n, label))
        return c


_ROUND = [0]
SHARD = None     # (work queue of decision prefixes, shared count of outstanding prefixes) when a harness is explored by several processes


def enumerate_paths(run, max_paths=20000):
    """run(oracle) is executed once per decision vector.  Returns number of paths."""
    if SHARD is not None:
        return _enumerate_shared(run, max_paths)
    stack = [[]]
    n = 0
    while stack:
        prefix = stack.pop()
        o = Oracle(prefix)
        n += 1
        if n > max_paths:
            raise O.OutsideSubset(f"more than {max_paths} paths")
        run(o)
        for i in range(len(prefix), len(o.trail)):
            _, k, _ = o.trail[i]
            for alt in range(1, k):
                stack.append([c for c, _, _ in o.trail[:i]] + [alt])
    return n


def _enumerate_shared(run, max_paths):
    """the same depth-first enumeration with the stack of pending decision prefixes shared between forked workers:
    every prefix is explored by exactly one worker; the exploration ends when no prefix is pending anywhere"""
    import queue as _q
    queues, counters = SHARD
    r = _ROUND[0]                # the r-th run_function call of this task: every worker makes the same calls in the same order
    _ROUND[0] += 1
    if r >= len(queues):
        raise O.OutsideSubset("a sharded task makes more run_function calls than rounds were provisioned")
    q = queues[r]
    n = 0
    while True:
        try:
            prefix = q.get(timeout=0.1)
        except _q.Empty:
            if counters[r] == 0:
                break
            continue
        o = Oracle(prefix)
        n += 1
        try:
            if n > max_paths:
                raise O.OutsideSubset(f"more than {max_paths} paths in one worker")
            run(o)
            children = []
            for i in range(len(prefix), len(o.trail)):
                _, k, _ = o.trail[i]
                for alt in range(1, k):
                    children.append([c for c, _, _ in o.trail[:i]] + [alt])
        except BaseException:
            with counters.get_lock():
                counters[r] -= 1
            raise
        with counters.get_lock():
            counters[r] += len(children) - 1
        for c in children:
            q.put(c)
    return n


class SolverStats:
    def __init__(self):
        self.queries = 0
        self.seconds = 0.0
        self.cache_hits = 0


STATS = SolverStats()
_CACHE = {}
_KEEP = []


def _key(pc, extra):
    return (tuple(map(tid, pc)), tid(extra))


def tid(t):
    """z3 term id, cached on the Python wrapper object (get_id() is a slow ctypes round trip)"""
    try:
        return t._vid
    except AttributeError:
        t._vid = t.get_id()
        return t._vid


def has_quantifier(t):
    try:
        return t._vq
    except AttributeError:
        pass
    t._vq = _has_quantifier(t)
    return t._vq


def _has_quantifier(t):
    k = t.get_id()
    if k in _QCACHE:
        return _QCACHE[k]
    r = False
    stack = [t]
    seen = set()
    while stack:
        x = stack.pop()
        if z3.is_quantifier(x):
            # lambdas count too: array-valued equalities over lambda terms make the quantifier-free queries
            # inconclusive ("incomplete (theory array)"), so such hypotheses are left to the full discharge only
            r = True
            break
        i = x.get_id()
        if i in seen:
            continue
        seen.add(i)
        stack.extend(x.children())
    _QCACHE[k] = r
    _KEEP.append(t)
    return r


_QCACHE = {}
_AXCACHE = {}


class _Inc:
    """one incremental solver reused while the hypothesis list only grows (the common case along a path)"""

    def __init__(self):
        self.s = None
        self.ids = []

    def solver_for(self, pc):
        ids = list(map(tid, pc))
        n = len(self.ids)
        if self.s is None or len(ids) < n or ids[:n] != self.ids:
            self.s = z3.Solver()
            self.ids = []
            n = 0
        for p in pc[n:]:
            self.s.add(p)
        self.ids = ids
        return self.s


_INC = _Inc()


def check_sat(pc, extra, timeout_ms=2000):
    """sat / unsat / unknown of (pc and extra)."""
    k = _key(pc, extra)
    if k in _CACHE:
        STATS.cache_hits += 1
        return _CACHE[k]
    _KEEP.append((list(pc), extra))
    t = time.time()
    s = _INC.solver_for(pc)
    s.set("timeout", timeout_ms)
    s.push()
    s.add(extra)
    r = s.check()
    s.pop()
    STATS.queries += 1
    STATS.seconds += time.time() - t
    res = "sat" if r == z3.sat else "unsat" if r == z3.unsat else "unknown"
    _CACHE[k] = res
    return res


class St:
    """One symbolic state (mutable; snapshot/restore for branch merging)."""

    def __init__(self, tag="h0"):
        self.pc = []
        self.h = Heap(tag)
        # kind / class of an object never change: these two arrays are only extended at allocations and are never
        # havocked by loop cuts, so dispatch on pre-existing objects stays syntactic
        self.kinds = self.h.kind
        self.clss = self.h.cls
        self.nalloc = 0
        self.ghost = {}
        self.gmemo = {}
        self.oracle = None
        self.symcls = []        # symbolic class-id terms in play
        self.classes = set()    # concrete ClassInfo mentioned
        self.targets = set()    # classes used as the second argument of a subclass test
        self.reads = set()      # ambient / global reads (for determinism frames)
        self.tags = {}          # term id -> constructor name learnt from assumed recognisers
        self.use_quantified = False
        self.dict_instantiators = []   # callables (dict id term, key term) -> Bool
        self.list_instantiators = []   # callables (list id term, index term) -> Bool
        self.instantiators = []   # callables r:Int-term -> Bool : quantifier-free instances of state invariants
        self._tagkeep = []
        self.events = []        # free-form ghost event log (host list of tuples)

    # -- snapshots -------------------------------------------------------------------------
    def snapshot(self):
        return (list(self.pc), self.h.copy(), self.nalloc, dict(self.ghost), dict(self.gmemo),
                len(self.oracle.trail) if self.oracle else 0, list(self.symcls), set(self.classes),
                set(self.reads), list(self.events), dict(self.tags), set(self.targets), self.kinds, self.clss)

    def restore(self, snap, keep_trail=False):
        (pc, h, nalloc, ghost, gmemo, ntrail, symcls, classes, reads, events, tags, targets, kinds, clss) = snap
        self.targets = set(targets)
        self.kinds, self.clss = kinds, clss
        self.tags = dict(tags)
        self.pc = list(pc)
        self.h = h.copy()
        self.nalloc = nalloc
        self.ghost = dict(ghost)
        self.gmemo = dict(gmemo)
        if self.oracle and not keep_trail:
            del self.oracle.trail[ntrail:]
        self.symcls = list(symcls)
        self.classes = set(classes)
        self.reads = set(reads)
        self.events = list(events)

    # -- logic -----------------------------------------------------------------------------
    def class_axioms(self):
        """Subclass relation: ground facts (mentioned class x class used as a test target) and, for the
        symbolic class ids in play, reflexivity + upward closure along the known hierarchy."""
        key = (frozenset(c.cid for c in self.classes), frozenset(c.cid for c in self.targets),
               tuple(t.get_id() for t in self.symcls))
        if key in _AXCACHE:
            return _AXCACHE[key]
        ax = []
        cl = sorted(self.classes, key=lambda c: c.cid)
        tg = sorted(self.targets, key=lambda c: c.cid)
        for a in cl:
            for b in tg:
                ax.append(issub(a.cid, b.cid) == z3.BoolVal(a.is_sub(b)))
        for s in self.symcls:
            ax.append(issub(s, s))
            for a in tg:
                for b in a.mro()[1:]:
                    ax.append(z3.Implies(issub(s, a.cid), issub(s, b.cid)))
        c = z3.Int("c!cls")
        for a in tg:
            for b in a.mro()[1:]:
                ax.append(z3.ForAll([c], z3.Implies(issub(c, a.cid), issub(c, b.cid)), patterns=[issub(c, a.cid)]))
        _AXCACHE[key] = ax
        return ax

    def flush_facts(self):
        pass

    def frame_facts(self):
        """frame-axiom instances produced by heap reads on this path (always-true facts about named arrays)"""
        return list(core.PENDING_FACTS)

    def full_pc(self):
        return list(self.pc) + self.frame_facts() + list(self.h.axioms) + self.class_axioms()

    def assume(self, f):
        if z3.is_true(f):
            return
        if z3.is_and(f) and has_quantifier(f):
            # keep the quantifier-free conjuncts usable by the quantifier-free dispatch queries
            for c in f.children():
                self.assume(c)
            return
        self.pc.append(f)
        self._learn(f)

    def _learn(self, f):
        """record recogniser facts is_<tag>(v) that are conjuncts of an assumed formula"""
        stack = [f]
        n = 0
        while stack and n < 64:
            n += 1
            x = stack.pop()
            if z3.is_and(x):
                stack.extend(x.children())
            elif z3.is_app(x) and x.decl().kind() == z3.Z3_OP_DT_IS and x.num_args() == 1 and x.arg(0).sort() == V:
                nm = x.decl().params()[0].name() if x.decl().params() else None
                if nm:
                    self.tags[x.arg(0).get_id()] = nm
                    self._tagkeep.append(x.arg(0))
            elif z3.is_eq(x) and z3.is_int_value(x.arg(1)) and z3.is_app(x.arg(0)) and x.arg(0).decl().kind() == z3.Z3_OP_SELECT:
                # kind[id(t)] == n  /  cls[id(t)] == n : the kind / class of an object never changes
                sel = x.arg(0)
                arr, idx = sel.arg(0), sel.arg(1)
                base = arr
                while z3.is_app(base) and base.decl().kind() == z3.Z3_OP_STORE:
                    base = base.arg(0)
                nm = base.decl().name() if z3.is_const(base) else ""
                if z3.is_app(idx) and idx.decl().name() == "id" and idx.num_args() == 1:
                    t_ = idx.arg(0)
                    if nm.endswith(".kind"):
                        self.tags[("kind", t_.get_id())] = x.arg(1).as_long()
                        self._tagkeep.append(t_)
                    elif nm.endswith(".cls"):
                        self.tags[("cls", t_.get_id())] = x.arg(1).as_long()
                        self._tagkeep.append(t_)

    def feasible(self, f):
        """pruning only: quantified hypotheses are dropped (more paths explored, never fewer)"""
        full = self.pc + self.frame_facts() + self.class_axioms()
        pc = [p for p in full if not has_quantifier(p)]
        if check_sat(pc, f) == "unsat":
            return False
        if self.use_quantified and len(pc) != len(full):
            # second chance with the quantified hypotheses (E-matching finds contradictions quickly; a slow or
            # inconclusive answer just means "feasible")
            return check_sat(full + list(self.h.axioms), f, 400) != "unsat"
        return True

    def valid(self, f):
        """dispatch-time validity: decided on the quantifier-free part of the pc (+ heap/class axioms).
        Fewer hypotheses => 'valid' answers stay sound; a missed validity only costs precision."""
        full = self.pc + self.frame_facts() + self.class_axioms()
        pc = [p for p in full if not has_quantifier(p)]
        if check_sat(pc, z3.Not(f)) == "unsat":
            return True
        if self.use_quantified and len(pc) != len(full):
            return check_sat(full + list(self.h.axioms), z3.Not(f), 400) == "unsat"
        return False

    def valid_full(self, f, timeout_ms=1000):
        return check_sat(self.full_pc(), z3.Not(f), timeout_ms) == "unsat"

    def model_value(self, term):
        """value of `term` in some model of the quantifier-free part of the pc (a guess to be confirmed)"""
        pc = [p for p in self.full_pc() if not has_quantifier(p)]
        key = ("mv", tuple(map(tid, pc)), tid(term))
        if key in _CACHE:
            return _CACHE[key]
        _KEEP.append((pc, term))
        t = time.time()
        s = _INC.solver_for(pc)
        s.set("timeout", 2000)
        r = None
        if s.check() == z3.sat:
            r = s.model().eval(term, model_completion=True)
        STATS.queries += 1
        STATS.seconds += time.time() - t
        _CACHE[key] = r
        return r

    def decide(self, cond, label=""):
        """Fork on a z3 Bool; prunes infeasible sides; adds the chosen side to the pc."""
        cond = z3.simplify(cond)
        if z3.is_true(cond):
            return True
        if z3.is_false(cond):
            return False
        t = self.feasible(cond)
        f = self.feasible(z3.Not(cond))
        if t and not f:
            self.assume(cond)
            return True
        if f and not t:
            self.assume(z3.Not(cond))
            return False
        if not t and not f:
            raise PathEnd()
        c = self.oracle.choose(2, label)
        if c == 0:
            self.assume(cond)
            return True
        self.assume(z3.Not(cond))
        return False

    def choose(self, n, label=""):
        if n <= 1:
            return 0
        return self.oracle.choose(n, label)

    def mention(self, ci, target=False):
        if isinstance(ci, O.ClassInfo):
            self.classes.add(ci)
            if target:
                for c in ci.mro():
                    self.targets.add(c)
                    self.classes.add(c)

    # -- allocation ------------------------------------------------------------------------
    def alloc(self, kind, cls=None):
        self.nalloc += 1
        rid = self.nalloc
        self.h.kind = z3.Store(self.h.kind, rid, kind)
        self.kinds = z3.Store(self.kinds, rid, kind)
        if cls is not None:
            cv = cls.cid if isinstance(cls, O.ClassInfo) else cls
            self.h.cls = z3.Store(self.h.cls, rid, cv)
            self.clss = z3.Store(self.clss, rid, cv)
        return rid

    def new_dict(self):
        rid = self.alloc(K_DICT)
        self.h.ddom = z3.Store(self.h.ddom, rid, z3.K(V, z3.BoolVal(False)))
        self.h.dord = z3.Store(self.h.dord, rid, EMPTY_ARR)
        self.h.dlen = z3.Store(self.h.dlen, rid, 0)
        return vref(rid)

    def new_list(self, sq=None):
        rid = self.alloc(K_LIST)
        if sq is None:
            sq = Sq(EMPTY_ARR, 0)
        self.h.larr = z3.Store(self.h.larr, rid, sq.arr)
        self.h.llen = z3.Store(self.h.llen, rid, sq.n)
        return vref(rid)

    def list_sq(self, v):
        rid = V.id(v)
        return Sq(z3.Select(self.h.larr, rid), z3.Select(self.h.llen, rid))

    def set_list(self, v, sq):
        rid = V.id(v)
        self.h.larr = z3.Store(self.h.larr, rid, sq.arr)
        self.h.llen = z3.Store(self.h.llen, rid, sq.n)

    def dict_order(self, d):
        rid = V.id(d)
        return Sq(z3.Select(self.h.dord, rid), z3.Select(self.h.dlen, rid))

    def new_set(self, dom=None, n=None):
        rid = self.alloc(K_SET)
        self.h.sdom = z3.Store(self.h.sdom, rid, dom if dom is not None else z3.K(V, z3.BoolVal(False)))
        if dom is None:
            self.h.slen = z3.Store(self.h.slen, rid, 0)
        elif n is not None:
            self.h.slen = z3.Store(self.h.slen, rid, n)
        else:
            k = fresh("card", I)
            self.assume(k >= 0)
            # cardinality 0 <=> no member, stated pointwise (a witness when non-empty, a universally quantified fact when
            # empty) rather than as an extensional equality with the empty set, which the solvers decide poorly for lambdas
            x = z3.Const("x!empty", V)
            self.assume(z3.Implies(k == 0, z3.ForAll([x], z3.Not(z3.Select(dom, x)))))
            self.assume(z3.Implies(k > 0, z3.Select(dom, fresh("member", V))))
            self.h.slen = z3.Store(self.h.slen, rid, k)
        return vref(rid)

    def new_inst(self, cls):
        rid = self.alloc(K_INST, cls)
        self.mention(cls)
        return vref(rid)

    def has_term(self, name, rid):
        """has[name][rid], with the 'fresh objects start without attributes' axiom applied syntactically"""
        t = z3.simplify(z3.Select(self.h.hasf(name), rid))
        if z3.is_app(t) and t.decl().kind() == z3.Z3_OP_SELECT and z3.is_const(t.arg(0)) and z3.is_int_value(t.arg(1)):
            if t.arg(1).as_long() > self.h.floor:
                return z3.BoolVal(False)
        return t

    def dict_read(self, d, key):
        """quantifier-free instances of table invariants for a read of d[key]"""
        if self.dict_instantiators:
            mk = ("dinst", d.get_id(), key.get_id())
            if mk not in self.gmemo:
                self.gmemo[mk] = (d, key)
                for f in self.dict_instantiators:
                    self.assume(f(V.id(d), key))

    def list_read(self, l, idx):
        if self.list_instantiators:
            mk = ("linst", tid(l), tid(idx))
            if mk not in self.gmemo:
                self.gmemo[mk] = (l, idx)
                for f in self.list_instantiators:
                    self.assume(f(V.id(l), idx))

    def wf_read(self, v):
        """Heap well-formedness for a value read out of the heap: a reference it carries was
        allocated before (input objects have ids <= 0, fresh ones 1..nalloc)."""
        self.assume(z3.Implies(V.is_ref(v), V.id(v) <= self.nalloc))
        if self.instantiators:
            key = ("inst", v.get_id())
            if key not in self.gmemo:
                self.gmemo[key] = v
                for f in self.instantiators:
                    self.assume(z3.Implies(V.is_ref(v), f(V.id(v))))
        return v
