"""Host-level objects of the engine: classes (read from the AST of /repo), functions, modules."""
from __future__ import annotations
import ast, builtins
from . import source
from .source import OutsideSubset

_CLASSES = {}      # cid -> ClassInfo
_BY_KEY = {}       # key -> ClassInfo
_FUNCS = {}        # fid -> host value
_FUNC_IDS = {}


class ClassInfo:
    def __init__(self, key, name, module=None, node=None, bases=(), pycls=None, abstract=False):
        self.cid = len(_CLASSES) + 1
        self.key = key
        self.name = name
        self.module = module
        self.node = node
        self.bases = list(bases)
        self.pycls = pycls          # real builtin class (exceptions, object, containers)
        self.abstract = abstract    # spec-declared symbolic class
        self.is_dataclass = False
        self.attrs = {}             # name -> ast node (FunctionDef or value expr) declared in class body
        self.ann_fields = []        # dataclass fields: (name, default_expr, factory_expr)
        self.opaque_base = False    # has a base we cannot see (external library)
        _CLASSES[self.cid] = self
        _BY_KEY[key] = self
        if node is not None:
            self._scan()

    def _scan(self):
        for dec in self.node.decorator_list:
            d = dec.func if isinstance(dec, ast.Call) else dec
            nm = d.id if isinstance(d, ast.Name) else getattr(d, "attr", None)
            if nm == "dataclass":
                self.is_dataclass = True
        for n in self.node.body:
            if isinstance(n, (ast.FunctionDef, ast.ClassDef)):
                self.attrs[n.name] = n
            elif isinstance(n, ast.Assign):
                for t in n.targets:
                    if isinstance(t, ast.Name):
                        self.attrs[t.id] = n.value
            elif isinstance(n, ast.AnnAssign) and isinstance(n.target, ast.Name):
                default = factory = None
                if n.value is not None:
                    v = n.value
                    if isinstance(v, ast.Call) and getattr(v.func, "id", getattr(v.func, "attr", "")) == "field":
                        for kw in v.keywords:
                            if kw.arg == "default_factory":
                                factory = kw.value
                            elif kw.arg == "default":
                                default = kw.value
                    else:
                        default = v
                        self.attrs[n.target.id] = v
                self.ann_fields.append((n.target.id, default, factory))

    def mro(self):
        # C3 linearisation
        def merge(seqs):
            res = []
            seqs = [list(s) for s in seqs if s]
            while seqs:
                for s in seqs:
                    cand = s[0]
                    if not any(cand in t[1:] for t in seqs):
                        break
                else:
                    raise OutsideSubset("inconsistent MRO for " + self.name)
                res.append(cand)
                seqs = [[x for x in t if x is not cand] for t in seqs]
                seqs = [t for t in seqs if t]
            return res
        return [self] + merge([b.mro() for b in self.bases] + [list(self.bases)])

    def is_sub(self, other):
        return other in self.mro()

    def lookup(self, name):
        for c in self.mro():
            if name in c.attrs:
                return c, c.attrs[name]
        return None, None

    def all_fields(self):
        out = []
        for c in reversed(self.mro()):
            if c.is_dataclass:
                for f in c.ann_fields:
                    out = [x for x in out if x[0] != f[0]] + [(f[0], f[1], f[2], c)]
        return out

    def __repr__(self):
        return f"<class {self.name}#{self.cid}>"


def class_by_id(cid):
    return _CLASSES.get(cid)


def builtin_class(pycls):
    key = ("builtin", pycls.__name__)
    if key in _BY_KEY:
        return _BY_KEY[key]
    bases = [builtin_class(b) for b in pycls.__bases__]
    return ClassInfo(key, pycls.__name__, pycls=pycls, bases=bases)


def abstract_class(name, bases=()):
    key = ("abstract", name)
    if key in _BY_KEY:
        return _BY_KEY[key]
    bs = list(bases) or [builtin_class(object)]
    return ClassInfo(key, name, bases=bs, abstract=True)


def repo_class(module, node, resolver):
    """ClassInfo for a ClassDef of a repo module; `resolver(module, expr)` maps base exprs to ClassInfo/None."""
    key = ("repo", module.relpath, node.name, node.lineno)
    if key in _BY_KEY:
        return _BY_KEY[key]
    bases = []
    opaque = False
    for b in node.bases:
        ci = resolver(module, b)
        if isinstance(ci, ClassInfo):
            bases.append(ci)
        else:
            opaque = True
    if not bases:
        bases = [builtin_class(object)]
    ci = ClassInfo(key, node.name, module=module, node=node, bases=bases)
    ci.opaque_base = opaque
    return ci


class HFunc:
    def __init__(self, node, module, closure=None, qual=None, owner=None):
        self.node = node
        self.module = module
        self.closure = closure
        self.qual = qual or node.name
        self.owner = owner
        self.kind = "func"
        for dec in getattr(node, "decorator_list", []):
            nm = dec.id if isinstance(dec, ast.Name) else getattr(dec, "attr", None)
            if nm in ("classmethod", "staticmethod", "property"):
                self.kind = nm
            elif nm in ("override", "abstractmethod", "wraps"):
                pass
            elif nm is not None and nm.endswith("setter"):
                self.kind = "setter"
            else:
                self.kind = "decorated:" + ast.dump(dec)[:60]

    @property
    def key(self):
        return (self.module.relpath if self.module else "?", self.qual)

    def __repr__(self):
        return f"<func {self.module.relpath if self.module else '?'}::{self.qual}>"


class HLambda(HFunc):
    pass


class HBound:
    def __init__(self, selfv, func):
        self.selfv = selfv
        self.func = func

    def __repr__(self):
        return f"<bound {self.func}>"


class HModule:
    def __init__(self, dotted):
        self.dotted = dotted

    def __repr__(self):
        return f"<module {self.dotted}>"


class HExt:
    """A name from outside the repository (stdlib / third party): handled by a model or refused."""

    def __init__(self, dotted):
        self.dotted = dotted

    def __repr__(self):
        return f"<ext {self.dotted}>"


class HMeth:
    """Built-in method of a container/str value."""

    def __init__(self, recv, name):
        self.recv = recv
        self.name = name

    def __repr__(self):
        return f"<meth .{self.name}>"


class HSuper:
    def __init__(self, selfv, after):
        self.selfv = selfv
        self.after = after   # ClassInfo after which the MRO search starts


class HExc:
    """An exception value: class id term (z3 Int) + constructor arguments."""

    def __init__(self, cid, args=(), kwargs=None, origin=None):
        self.cid = cid
        self.args = list(args)
        self.kwargs = dict(kwargs or {})
        self.origin = origin     # free-form tag: where it was raised (callee name, node line)

    def __repr__(self):
        return f"<exc cid={self.cid} origin={self.origin}>"


def func_id(f):
    k = id(f)
    if k not in _FUNC_IDS:
        _FUNC_IDS[k] = len(_FUNCS) + 1
        _FUNCS[_FUNC_IDS[k]] = f
    return _FUNC_IDS[k]


def func_by_id(fid):
    return _FUNCS.get(fid)
