"""Symbolic interpreter over the AST of the real functions (path enumeration by re-execution,
branch merging at `if`, loop cutting by invariants, modular calls through contracts)."""
from __future__ import annotations
import ast, builtins, z3
import sys
from .core import *
from . import core
from . import objects as O
from . import source
from .source import OutsideSubset
from .state import St, PathEnd, PyRaise, enumerate_paths


class _Return(Exception):
    def __init__(self, value):
        self.value = value


class _Break(Exception):
    pass


class _Continue(Exception):
    pass


class Env:
    def __init__(self, module, parent=None, func=None):
        self.vars = {}
        self.module = module
        self.parent = parent
        self.func = func
        self.nonlocals = set()

    def lookup(self, name):
        e = self
        while e is not None:
            if name in e.vars:
                return e.vars[name], True
            e = e.parent
        return None, False

    def assign(self, name, value):
        if name in self.nonlocals:
            e = self.parent
            while e is not None:
                if name in e.vars:
                    e.vars[name] = value
                    return
                e = e.parent
        self.vars[name] = value

    def chain(self):
        e = self
        while e is not None:
            yield e
            e = e.parent


class Unbound:
    """marker for a variable that is unbound on one side of a merge"""


class LoopSpec:
    def __init__(self, inv, modifies_heap=True, label=None, extra_vars=(), frame_except=None, ghost=(), havoc_hook=None):
        self.ghost = tuple(ghost)         # names in st.ghost (z3-valued ghost variables) the loop body may change: havocked like locals
        self.havoc_hook = havoc_hook
        self.frame_except = frame_except  # callable(ctx) -> list of refs (V) that the loop may modify; every other
        #                                   object that existed at loop entry is proved unchanged by each iteration
        self.inv = inv                    # callable(ctx) -> z3 Bool  | list of (name, callable)
        self.modifies_heap = modifies_heap  # True: havoc whole heap; False: heap unchanged; callable(ctx_old, ctx_new)->Bool frame
        self.label = label
        self.extra_vars = extra_vars


class LoopCtx:
    def __init__(self, I_, st, env, seq, i, entry, x=None):
        self.I = I_
        self.st = st
        self.env = env
        self.seq = seq
        self.i = i
        self.entry = entry     # dict: variables at loop entry + 'h' heap at entry
        self.x = x

    def var(self, name):
        v, ok = self.env.lookup(name)
        if not ok:
            # the contract was written for a loop that has this variable: the code under it is no longer that loop (a loop was
            # added, removed or rewritten), so the contract does not apply - undecided, never an engine fault
            raise OutsideSubset(f"loop contract refers to variable {name!r}, which this loop does not have (the loop structure changed)")
        return v

    def old(self, name):
        return self.entry["vars"].get(name)

    @property
    def h(self):
        return self.st.h

    @property
    def h0(self):
        return self.entry["h"]


class Interp:
    def __init__(self, st, spec):
        self.st = st
        self.spec = spec          # engine configuration: contracts, abstract handlers, loop specs, inline policy
        self.depth = 0
        self.loop_counter = {}    # func key -> running ordinal (per activation)
        from . import models
        self.models = models

    # ==========================================================================================
    # names
    # ==========================================================================================
    def resolve_global(self, module, name):
        key = ("g", module.relpath, name)
        if key in self.st.gmemo:
            return self.st.gmemo[key]
        val = self._resolve_global(module, name)
        self.st.gmemo[key] = val
        return val

    def _resolve_global(self, module, name):
        ov = self.spec.global_override(module, name)
        if ov is not None:
            return ov(self) if callable(ov) and not isinstance(ov, (O.HFunc, O.ClassInfo)) else ov
        if name in module.defs:
            node = module.defs[name]
            if isinstance(node, ast.ClassDef):
                return self.class_of_node(module, node)
            return O.HFunc(node, module, None, name)
        if name in module.imports:
            imp = module.imports[name]
            if imp[0] == "module":
                return O.HModule(imp[1])
            _, dotted, nm = imp
            m = source.module_for_dotted(dotted)
            if m is not None:
                if nm in m.defs or nm in m.assigns or nm in m.imports:
                    return self.resolve_global(m, nm)
                sub = source.module_for_dotted(dotted + "." + nm)
                if sub is not None:
                    return O.HModule(dotted + "." + nm)
                raise OutsideSubset(f"name {nm} not found in {dotted}")
            return self.ext(dotted + "." + nm)
        if name in module.assigns:
            self.st.reads.add(("global", module.relpath, name))
            env = Env(module)
            return self.ev(module.assigns[name], env)
        if hasattr(builtins, name):
            return self.ext("builtins." + name)
        raise OutsideSubset(f"unresolved name {name} in {module.relpath}")

    def ext(self, dotted):
        r = self.spec.ext_value(self, dotted)
        if r is not None:
            return r
        py = None
        if dotted.startswith("builtins."):
            py = getattr(builtins, dotted.split(".", 1)[1], None)
        if isinstance(py, type) and issubclass(py, BaseException):
            return O.builtin_class(py)
        if isinstance(py, type):
            return O.builtin_class(py)
        if dotted.startswith("ast."):
            import ast as _ast
            pa = getattr(_ast, dotted.split(".", 1)[1], None)
            if isinstance(pa, type):
                return O.builtin_class(pa)
        return O.HExt(dotted)

    def class_of_node(self, module, node):
        def resolver(mod, expr):
            try:
                v = self.ev(expr, Env(mod))
            except OutsideSubset:
                return None
            if isinstance(v, O.ClassInfo):
                return v
            return None
        return O.repo_class(module, node, resolver)

    def load_name(self, name, env):
        v, ok = env.lookup(name)
        if ok:
            if v is Unbound:
                raise OutsideSubset(f"possibly unbound local {name}")
            return v
        return self.resolve_global(env.module, name)

    # ==========================================================================================
    # lifting
    # ==========================================================================================
    def lift(self, x):
        """host value -> V term (for storing into the heap / merging)"""
        if is_v(x):
            return x
        if x is None:
            return NONE
        if isinstance(x, bool):
            return vbool(x)
        if isinstance(x, int):
            return vint(x)
        if isinstance(x, str):
            return vstr(x)
        if isinstance(x, float):
            return V.real(z3.RealVal(repr(x)))
        if isinstance(x, O.ClassInfo):
            self.st.mention(x)
            return V.cls(z3.IntVal(x.cid))
        if isinstance(x, (O.HFunc, O.HBound, O.HExt, O.HMeth, O.HModule)):
            return V.fn(z3.IntVal(O.func_id(x)))
        if isinstance(x, O.HExc):
            return V.fn(z3.IntVal(O.func_id(x)))
        raise OutsideSubset(f"cannot lift {x!r}")

    def lower(self, v):
        """V term -> host object when it denotes a concrete class / function token"""
        if not is_v(v):
            return v
        s = z3.simplify(v)
        if z3.is_app(s) and s.decl().eq(V.cls) and z3.is_int_value(s.arg(0)):
            ci = O.class_by_id(s.arg(0).as_long())
            if ci is not None:
                return ci
        if z3.is_app(s) and s.decl().eq(V.fn) and z3.is_int_value(s.arg(0)):
            f = O.func_by_id(s.arg(0).as_long())
            if f is not None:
                return f
        return v

    # ==========================================================================================
    # type tests
    # ==========================================================================================
    TAGS = ("none", "bool", "int", "str", "real", "ref", "obj", "cls", "fn", "tup")

    def tag(self, v, cheap=False):
        """Constructor of a V term if it can be determined (syntactically, else by the solver)."""
        if not is_v(v):
            return "host"
        s = z3.simplify(v)
        if z3.is_app(s):
            nm = s.decl().name()
            if nm in self.TAGS and s.decl().range() == V and s.decl().kind() == z3.Z3_OP_DT_CONSTRUCTOR:
                return nm
        t = self.st.tags.get(v.get_id()) or self.st.tags.get(s.get_id())
        if t:
            return t
        if cheap:
            return None
        mv = self.st.model_value(v)
        tried = []
        for _ in range(3):
            if mv is None or not z3.is_app(mv) or mv.decl().name() not in self.TAGS:
                break
            t = mv.decl().name()
            if self.st.valid(getattr(V, "is_" + t)(v)):
                self.st.tags[v.get_id()] = t
                self.st._tagkeep.append(v)
                return t
            tried.append(t)
            # is there a model in which v has yet another constructor?  if not, no single tag is forced
            excl = z3.And([z3.Not(getattr(V, "is_" + x)(v)) for x in tried])
            if not self.st.feasible(excl):
                break
            self.st.pc.append(excl)
            try:
                mv = self.st.model_value(v)
            finally:
                self.st.pc.pop()
        return None

    def kind(self, v):
        """heap kind (K_*) of a ref if determinable"""
        k = z3.simplify(z3.Select(self.st.h.kind, V.id(v)))
        if z3.is_int_value(k):
            return k.as_long()
        k2 = z3.simplify(z3.Select(self.st.kinds, V.id(v)))
        if z3.is_int_value(k2):
            return k2.as_long()
        if ("kind", v.get_id()) in self.st.tags:
            return self.st.tags[("kind", v.get_id())]
        import os as _os
        for arr in (self.st.kinds, self.st.h.kind):
            mv = self.st.model_value(z3.Select(arr, V.id(v)))
            if _os.environ.get("PYVC_DEBUG2"):
                import time as _t
                t0 = _t.time()
                from .state import check_sat, has_quantifier
                qf = [p_ for p_ in self.st.pc if not has_quantifier(p_)]
                if mv is None:
                    s_ = z3.Solver(); s_.set("timeout", 5000)
                    for p_ in qf: s_.add(p_)
                    print("   pc-status(QF):", s_.check(), s_.reason_unknown())
                    # which hypothesis is responsible? drop one at a time from the end
                    for k_ in range(len(qf) - 1, max(len(qf) - 40, 0), -1):
                        s2 = z3.Solver(); s2.set("timeout", 2000)
                        for p_ in qf[:k_]: s2.add(p_)
                        r2 = s2.check()
                        if r2 != z3.unknown:
                            print("   becomes", r2, "without hypotheses from", k_, ":", str(qf[k_])[:300].replace("\n", " "))
                            break
                print("KIND?", str(v)[:80], "mv", mv, "valid", self.st.valid(z3.Select(arr, V.id(v)) == mv) if mv is not None else None, round(_t.time() - t0, 2), "npc", len(self.st.pc))
            if mv is not None and z3.is_int_value(mv) and mv.as_long() in (K_DICT, K_LIST, K_SET, K_INST) \
                    and self.st.valid(z3.Select(arr, V.id(v)) == mv):
                return mv.as_long()
        return None

    def inst_class(self, v):
        c = z3.simplify(z3.Select(self.st.h.cls, V.id(v)))
        if z3.is_int_value(c):
            return O.class_by_id(c.as_long())
        if ("cls", v.get_id()) in self.st.tags:
            return O.class_by_id(self.st.tags[("cls", v.get_id())])
        # ask the solver for a candidate and confirm
        for arr in (self.st.clss, self.st.h.cls):
            cand = self.st.model_value(z3.Select(arr, V.id(v)))
            if cand is not None and z3.is_int_value(cand) and O.class_by_id(cand.as_long()) is not None \
                    and self.st.valid(z3.Select(arr, V.id(v)) == cand):
                return O.class_by_id(cand.as_long())
        return None

    def truthy(self, v):
        """z3 Bool: Python truthiness of v (no forking)."""
        if not is_v(v):
            if isinstance(v, (O.ClassInfo, O.HFunc, O.HBound, O.HExt, O.HModule, O.HMeth, O.HExc)):
                return z3.BoolVal(True)
            raise OutsideSubset(f"truthiness of {v!r}")
        t = self.tag(v)
        h = self.st.h
        if t == "none":
            return z3.BoolVal(False)
        if t == "bool":
            return V.b(v)
        if t == "int":
            return V.i(v) != 0
        if t == "str":
            return z3.Length(V.s(v)) > 0
        if t == "tup":
            return z3.Length(V.items(v)) > 0
        if t in ("obj",):
            return self.spec.obj_truthy(self, v)
        if t in ("cls", "fn"):
            return z3.BoolVal(True)
        rid = V.id(v)
        kd = z3.Select(h.kind, rid)
        ref_truth = z3.If(kd == K_DICT, z3.Select(h.dlen, rid) > 0,
                          z3.If(kd == K_LIST, z3.Select(h.llen, rid) > 0,
                                z3.If(kd == K_SET, z3.Select(h.slen, rid) > 0, z3.BoolVal(True))))
        if t == "ref":
            self._card_axioms(v)
            return ref_truth
        self._card_axioms(v, guard=V.is_ref(v))
        return z3.If(V.is_none(v), z3.BoolVal(False),
               z3.If(V.is_bool(v), V.b(v),
               z3.If(V.is_int(v), V.i(v) != 0,
               z3.If(V.is_str(v), z3.Length(V.s(v)) > 0,
               z3.If(V.is_tup(v), z3.Length(V.items(v)) > 0,
               z3.If(V.is_ref(v), ref_truth,
               z3.If(V.is_real(v), V.r(v) != 0, self.spec.obj_truthy(self, v))))))))

    def _card_axioms(self, v, guard=None):
        """link cardinality and domain for the dict/set v (added to the pc)"""
        h = self.st.h
        rid = V.id(v)
        empty = z3.K(V, z3.BoolVal(False))
        ax = z3.And(z3.Select(h.dlen, rid) >= 0, z3.Select(h.slen, rid) >= 0,
                    z3.Implies(z3.Select(h.kind, rid) == K_DICT,
                               (z3.Select(h.dlen, rid) == 0) == (z3.Select(h.ddom, rid) == empty)),
                    z3.Implies(z3.Select(h.kind, rid) == K_SET,
                               (z3.Select(h.slen, rid) == 0) == (z3.Select(h.sdom, rid) == empty)))
        self.st.assume(z3.Implies(guard, ax) if guard is not None else ax)

    def veq(self, a, b):
        """z3 Bool for Python `a == b` on data values (shallow content equality for dict/list/set)."""
        if not is_v(a) or not is_v(b):
            if a is b:
                return z3.BoolVal(True)
            try:
                a, b = self.lift(a), self.lift(b)
            except OutsideSubset:
                return z3.BoolVal(False)
        ta, tb = self.tag(a), self.tag(b)
        prim = ("none", "bool", "int", "str", "cls", "fn", "tup")
        if (ta in prim and tb is not None) or (tb in prim and ta is not None):
            if ta == "tup" or tb == "tup":
                pass
            else:
                return a == b
        h = self.st.h
        ia, ib = V.id(a), V.id(b)
        ka, kb = z3.Select(h.kind, ia), z3.Select(h.kind, ib)
        content = z3.If(z3.And(ka == K_DICT, kb == K_DICT),
                        z3.And(z3.Select(h.ddom, ia) == z3.Select(h.ddom, ib),
                               self._dict_vals_eq(ia, ib)),
                  z3.If(z3.And(ka == K_LIST, kb == K_LIST), self.st.list_sq(a).eq(self.st.list_sq(b)),
                  z3.If(z3.And(ka == K_SET, kb == K_SET), z3.Select(h.sdom, ia) == z3.Select(h.sdom, ib),
                        ia == ib)))
        return z3.If(z3.And(V.is_ref(a), V.is_ref(b)), z3.Or(a == b, content), a == b)

    def _dict_vals_eq(self, ia, ib):
        h = self.st.h
        k = z3.Const("k!eq", V)
        return z3.ForAll([k], z3.Implies(z3.Select(z3.Select(h.ddom, ia), k),
                                         z3.Select(z3.Select(h.dval, ia), k) == z3.Select(z3.Select(h.dval, ib), k)))

    # ==========================================================================================
    # raising
    # ==========================================================================================
    def raise_(self, pycls, *args, origin=None):
        ci = O.builtin_class(pycls) if isinstance(pycls, type) else pycls
        self.st.mention(ci)
        raise PyRaise(O.HExc(z3.IntVal(ci.cid), args, origin=origin))

    # ==========================================================================================
    # statements
    # ==========================================================================================
    def exec_block(self, stmts, env):
        for s in stmts:
            self.exec_stmt(s, env)

    def exec_stmt(self, s, env):
        m = getattr(self, "x_" + type(s).__name__, None)
        if m is None:
            raise OutsideSubset(f"statement {type(s).__name__} at line {s.lineno}")
        try:
            return m(s, env)
        except OutsideSubset as ex:
            if "@line" not in str(ex):
                raise OutsideSubset(f"{ex} @line {s.lineno} of {env.func.qual if env.func else '?'}") from None
            raise

    def x_Pass(self, s, env):
        pass

    def x_Expr(self, s, env):
        if isinstance(s.value, ast.Constant):
            return
        self.ev(s.value, env)

    def x_Import(self, s, env):
        for a in s.names:
            env.assign(a.asname or a.name.split(".")[0], O.HModule(a.name if a.asname else a.name.split(".")[0]))

    def x_ImportFrom(self, s, env):
        base = s.module or ""
        if s.level:
            pkg = env.module.dotted.split(".")
            if not env.module.relpath.endswith("__init__.py"):
                pkg = pkg[:-1]
            pkg = pkg[: len(pkg) - (s.level - 1)]
            base = ".".join(pkg + ([s.module] if s.module else []))
        m = source.module_for_dotted(base)
        for a in s.names:
            if m is not None:
                if a.name in m.defs or a.name in m.assigns or a.name in m.imports:
                    val = self.resolve_global(m, a.name)
                else:
                    val = O.HModule(base + "." + a.name)
            else:
                val = self.ext(base + "." + a.name)
            env.assign(a.asname or a.name, val)

    def x_Global(self, s, env):
        raise OutsideSubset("global statement")

    def x_Nonlocal(self, s, env):
        for n in s.names:
            env.nonlocals.add(n)

    def x_Return(self, s, env):
        raise _Return(self.ev(s.value, env) if s.value is not None else NONE)

    def x_Break(self, s, env):
        raise _Break()

    def x_Continue(self, s, env):
        raise _Continue()

    def x_Assert(self, s, env):
        c = self.truthy(self.ev(s.test, env))
        if not self.st.decide(c, "assert"):
            self.raise_(AssertionError, origin=("assert", s.lineno))

    def x_Delete(self, s, env):
        for t in s.targets:
            if isinstance(t, ast.Subscript):
                cont = self.ev(t.value, env)
                key = self.ev(t.slice, env)
                self.models.del_item(self, cont, key)
            elif isinstance(t, ast.Name):
                env.vars.pop(t.id, None)
            else:
                raise OutsideSubset("del target")

    def x_FunctionDef(self, s, env):
        f = O.HFunc(s, env.module, env, (env.func.qual + ".<locals>." if env.func else "") + s.name)
        if f.kind.startswith("decorated"):
            raise OutsideSubset(f"decorator on nested def {s.name}")
        env.assign(s.name, f)

    def x_ClassDef(self, s, env):
        h = self.spec.classdef_handler(self, s, env)
        if h is None:
            raise OutsideSubset(f"class statement {s.name} inside a function")

    def x_Assign(self, s, env):
        v = self.ev(s.value, env)
        for t in s.targets:
            self.assign_target(t, v, env)

    def x_AnnAssign(self, s, env):
        if s.value is not None:
            self.assign_target(s.target, self.ev(s.value, env), env)

    def x_AugAssign(self, s, env):
        if isinstance(s.target, ast.Name):
            cur = self.load_name(s.target.id, env)
            new = self.binop(s.op, cur, self.ev(s.value, env), inplace=True)
            env.assign(s.target.id, new)
        elif isinstance(s.target, ast.Subscript):
            cont = self.ev(s.target.value, env)
            key = self.ev(s.target.slice, env)
            cur = self.models.get_item(self, cont, key)
            new = self.binop(s.op, cur, self.ev(s.value, env), inplace=True)
            self.models.set_item(self, cont, key, new)
        elif isinstance(s.target, ast.Attribute):
            objv = self.ev(s.target.value, env)
            cur = self.getattr(objv, s.target.attr)
            new = self.binop(s.op, cur, self.ev(s.value, env), inplace=True)
            self.setattr(objv, s.target.attr, new)
        else:
            raise OutsideSubset("augassign target")

    def assign_target(self, t, v, env):
        if isinstance(t, ast.Name):
            env.assign(t.id, v)
        elif isinstance(t, ast.Attribute):
            self.setattr(self.ev(t.value, env), t.attr, v)
        elif isinstance(t, ast.Subscript):
            cont = self.ev(t.value, env)
            key = self.ev(t.slice, env)
            self.models.set_item(self, cont, key, v)
        elif isinstance(t, (ast.Tuple, ast.List)):
            items = self.models.unpack(self, v, len(t.elts))
            for tt, x in zip(t.elts, items):
                if is_v(x):
                    x = self.st.wf_read(x)
                self.assign_target(tt, x, env)
        else:
            raise OutsideSubset(f"assignment target {type(t).__name__}")

    # ---- if with merge -----------------------------------------------------------------------
    def x_If(self, s, env):
        cv = self.ev(s.test, env)
        c = z3.simplify(self.truthy(cv))
        if z3.is_true(c):
            return self.exec_block(s.body, env)
        if z3.is_false(c):
            return self.exec_block(s.orelse, env)
        st = self.st
        tf = st.feasible(c)
        ff = st.feasible(z3.Not(c))
        if not tf and not ff:
            raise PathEnd()
        if tf and not ff:
            st.assume(c)
            return self.exec_block(s.body, env)
        if ff and not tf:
            st.assume(z3.Not(c))
            return self.exec_block(s.orelse, env)
        if self.spec.merge_branches and not _has_exit(s):
            snap = st.snapshot()
            envsnap = [(e, dict(e.vars)) for e in env.chain()]
            try:
                st.assume(c)
                self.exec_block(s.body, env)
                a_state = st.snapshot()
                a_env = [dict(e.vars) for e in env.chain()]
                st.restore(snap, keep_trail=True)
                for e, d in envsnap:
                    e.vars = dict(d)
                st.assume(z3.Not(c))
                self.exec_block(s.orelse, env)
                b_state = st.snapshot()
                b_env = [dict(e.vars) for e in env.chain()]
                if self._merge(c, snap, a_state, a_env, b_state, b_env, env):
                    return
            except (PyRaise, _Return, _Break, _Continue, PathEnd, _NoMerge, OutsideSubset):
                # (OutsideSubset too: decisions taken inside the abandoned attempt must not stay in the trail)
                pass
            st.restore(snap)
            for e, d in envsnap:
                e.vars = dict(d)
        if st.decide(c, f"if@{s.lineno}"):
            self.exec_block(s.body, env)
        else:
            self.exec_block(s.orelse, env)

    def _merge(self, c, snap, a, a_env, b, b_env, env):
        st = self.st
        pc0 = snap[0]
        n0 = len(pc0)
        (pca, ha, na, ga, gma, _, sca, cla, ra, eva, tga, tra, kia, csa) = a
        (pcb, hb, nb, gb, gmb, _, scb, clb, rb, evb, tgb, trb, kib, csb) = b
        if eva != evb:
            return False
        # variables
        merged_envs = []
        for e, da, db in zip(env.chain(), a_env, b_env):
            md = {}
            for k in set(da) | set(db):
                x, y = da.get(k, Unbound), db.get(k, Unbound)
                if x is y:
                    md[k] = x
                elif x is Unbound or y is Unbound:
                    md[k] = Unbound
                elif is_v(x) and is_v(y):
                    md[k] = x if x.eq(y) else z3.If(c, x, y)
                else:
                    try:
                        lx, ly = self.lift(x), self.lift(y)
                    except OutsideSubset:
                        return False
                    md[k] = lx if lx.eq(ly) else z3.If(c, lx, ly)
            merged_envs.append((e, md))
        gm = {}
        for k in set(gma) | set(gmb):
            if k in gma and k in gmb:
                x, y = gma[k], gmb[k]
                if x is y:
                    gm[k] = x
                elif is_v(x) and is_v(y):
                    gm[k] = x if x.eq(y) else z3.If(c, x, y)
                else:
                    return False
            # memo present on one side only: drop it (will be re-evaluated)
        gh = {}
        for k in set(ga) | set(gb):
            x, y = ga.get(k), gb.get(k)
            if x is None or y is None:
                return False
            if isinstance(x, z3.ExprRef) and isinstance(y, z3.ExprRef):
                gh[k] = x if x.eq(y) else z3.If(c, x, y)
            elif x == y:
                gh[k] = x
            else:
                return False
        pc = list(pc0)
        for p in pca[n0:]:
            if not (p.eq(c)):
                pc.append(z3.Implies(c, p))
        nc = z3.Not(c)
        for p in pcb[n0:]:
            if not (p.eq(nc)):
                pc.append(z3.Implies(nc, p))
        st.pc = pc
        st.h = merge_heaps(c, ha, hb)
        st.nalloc = max(na, nb)
        st.ghost = gh
        st.gmemo = gm
        st.symcls = list({t.get_id(): t for t in sca + scb}.values())
        st.classes = cla | clb
        st.targets = tra | trb
        st.kinds = kia if kia.eq(kib) else z3.If(c, kia, kib)
        st.clss = csa if csa.eq(csb) else z3.If(c, csa, csb)
        st.reads = ra | rb
        st.events = list(eva)
        st.tags = {k: v for k, v in tga.items() if tgb.get(k) == v}
        for e, md in merged_envs:
            e.vars = md
        return True

    # ---- loops --------------------------------------------------------------------------------
    def loop_ordinal(self, env, s):
        key = env.func.key if env.func else ("?", "?")
        return key, s.lineno

    def x_While(self, s, env):
        spec = self.spec.loop_spec(env, s)
        if spec is None:
            # bounded unrolling only when the condition becomes concretely false
            for _ in range(self.spec.max_unroll):
                c = z3.simplify(self.truthy(self.ev(s.test, env)))
                if z3.is_false(c):
                    break
                if not z3.is_true(c):
                    if not self.st.decide(c, f"while@{s.lineno}"):
                        break
                try:
                    self.exec_block(s.body, env)
                except _Break:
                    return
                except _Continue:
                    continue
            else:
                raise OutsideSubset(f"while loop at line {s.lineno} needs an invariant")
            self.exec_block(s.orelse, env)
            return
        self._while_inductive(s, env, spec)

    def _while_inductive(self, s, env, spec):
        """while loop against an inductive invariant: init / step obligations, framed havoc of what the body may change;
        the code after the loop is continued from an arbitrary state satisfying invariant and negated test
        (or from a `break`, on the path where it happens)"""
        st = self.st
        label = spec.label or f"{env.func.qual if env.func else '?'}/loop@{s.lineno}"
        entry = {"vars": {k: v for e in reversed(list(env.chain())) for k, v in e.vars.items()}, "h": st.h.copy(), "nalloc": st.nalloc}
        ctx0 = LoopCtx(self, st, env, None, None, entry)
        for nm, f in _inv_list(spec.inv):
            self.spec.oblige(self, f"{label}/init/{nm}", f(ctx0))
        for nm in sorted(self._assigned_names(s.body) | set(spec.extra_vars)):
            cur, ok = env.lookup(nm)
            if ok and is_v(cur):
                env.assign(nm, fresh("hv_" + nm))
            elif ok and cur is not Unbound:
                raise OutsideSubset(f"loop modifies host-valued variable {nm}")
        for nm in spec.ghost:
            if nm in st.ghost and isinstance(st.ghost[nm], z3.ExprRef):
                st.ghost[nm] = fresh("gh_" + nm, st.ghost[nm].sort())
        allowed, iter_h = None, None
        if spec.modifies_heap is not False:
            st.nalloc += 1000
            st.h = _havoc_heap(st.h, f"W{s.lineno}", st.nalloc)
            if callable(spec.modifies_heap):
                st.assume(spec.modifies_heap(LoopCtx(self, st, env, None, None, entry)))
            if spec.frame_except is not None:
                allowed = spec.frame_except(LoopCtx(self, st, env, None, None, entry))
                st.h = _framed_havoc(entry["h"], st.h, entry["nalloc"], allowed)
                iter_h = st.h.copy()
        ctx = LoopCtx(self, st, env, None, None, entry)
        for nm, f in _inv_list(spec.inv):
            st.assume(f(ctx))
        if spec.havoc_hook is not None:
            spec.havoc_hook(ctx)
        if st.decide(self.truthy(self.ev(s.test, env)), f"while@{s.lineno}"):
            try:
                self.exec_block(s.body, env)
            except _Break:
                return
            except _Continue:
                pass
            ctx1 = LoopCtx(self, st, env, None, None, entry)
            for nm, f in _inv_list(spec.inv):
                goal = f(ctx1)
                parts = goal.children() if z3.is_and(goal) else [goal]
                for k_, part in enumerate(parts):
                    self.spec.oblige(self, f"{label}/step/{nm}" + (f"#{k_}" if len(parts) > 1 else ""), part)
            if spec.modifies_heap is False:
                self.spec.oblige(self, f"{label}/step/heap-unchanged", frame_eq(entry["h"], st.h, entry["nalloc"]))
            elif spec.frame_except is not None:
                self.spec.oblige(self, f"{label}/step/frame", frame_eq(iter_h, st.h, entry["nalloc"], allowed))
            raise PathEnd()
        self.exec_block(s.orelse, env)

    def x_For(self, s, env):
        it = self.ev(s.iter, env)
        items = self.models.iterate_concrete(self, it)
        if items is not None:
            for x in items:
                self.assign_target(s.target, x, env)
                try:
                    self.exec_block(s.body, env)
                except _Break:
                    return
                except _Continue:
                    continue
            self.exec_block(s.orelse, env)
            return
        seq = self.models.iterate_seq(self, it, full=True)   # z3 Seq V of unknown length
        spec = self.spec.loop_spec(env, s)
        if spec is None:
            raise OutsideSubset(f"for loop at line {s.lineno} over a symbolic sequence needs an invariant")
        self._for_inductive(s, env, seq, spec, it)

    def _assigned_names(self, stmts):
        names = set()
        for st_ in stmts:
            for n in ast.walk(st_):
                if isinstance(n, ast.Name) and isinstance(n.ctx, (ast.Store, ast.Del)):
                    names.add(n.id)
        return names

    def _for_inductive(self, s, env, seq, spec, it=None):
        st = self.st
        label = spec.label or f"{env.func.qual if env.func else '?'}/loop@{s.lineno}"
        n = seq.n
        entry = {"vars": {k: v for e in reversed(list(env.chain())) for k, v in e.vars.items()}, "h": st.h.copy(),
                 "nalloc": st.nalloc}
        # 1. invariant holds initially
        ctx0 = LoopCtx(self, st, env, seq, z3.IntVal(0), entry)
        for nm, f in _inv_list(spec.inv):
            self.spec.oblige(self, f"{label}/init/{nm}", f(ctx0))
        # 2. havoc
        mods = sorted((self._assigned_names(s.body) | self._assigned_names([s.target]) | set(spec.extra_vars)))
        tnames = self._assigned_names([s.target])
        for nm in mods:
            cur, ok = env.lookup(nm)
            if nm in tnames:
                continue
            if ok and is_v(cur):
                env.assign(nm, fresh("hv_" + nm))
            elif ok and cur is not Unbound:
                raise OutsideSubset(f"loop modifies host-valued variable {nm}")
        for nm in spec.ghost:
            if nm in st.ghost and isinstance(st.ghost[nm], z3.ExprRef):
                st.ghost[nm] = fresh("gh_" + nm, st.ghost[nm].sort())
        if spec.modifies_heap is not False:
            old_h = st.h
            st.nalloc += 1000
            st.h = _havoc_heap(st.h, f"L{s.lineno}", st.nalloc)   # fresh references of the havocked iterations never collide with later ones
            if callable(spec.modifies_heap):
                hc = LoopCtx(self, st, env, seq, None, entry)
                st.assume(spec.modifies_heap(hc))
            if spec.frame_except is not None:
                hc = LoopCtx(self, st, env, seq, None, entry)
                allowed = spec.frame_except(hc)
                st.h = _framed_havoc(entry["h"], st.h, entry["nalloc"], allowed)
                iter_h = st.h.copy()
        i = fresh("i", I)
        st.assume(i >= 0)
        which = st.choose(2, f"loop@{s.lineno}")
        if which == 0:
            # arbitrary iteration
            st.assume(i < n)
            ctx = LoopCtx(self, st, env, seq, i, entry)
            for nm, f in _inv_list(spec.inv):
                st.assume(f(ctx))
            if spec.havoc_hook is not None:
                spec.havoc_hook(ctx)          # e.g. the instance at i of a recursive spec function's defining equation
            x = st.wf_read(seq.at(i))
            # the sequence existed at loop entry, so did its elements (the engine refuses loops that grow
            # the sequence they iterate: `seq` is the entry-time sequence value)
            st.assume(z3.Implies(V.is_ref(x), V.id(x) <= entry["nalloc"]))
            src_it = self.lower(it)
            base_it = src_it.base if isinstance(src_it, self.models.HView) and src_it.kind == "enumerate" else src_it
            base_it = self.lower(base_it)
            if is_v(base_it) and self.tag(base_it, cheap=True) == "ref" and self.kind(base_it) == K_LIST:
                st.list_read(base_it, i)
            if isinstance(src_it, self.models.HView) and src_it.kind in ("items", "values", "keys") and is_v(src_it.base):
                # reading d[k] for the current key: instantiate table invariants for it
                kcur = seq.at(i) if src_it.kind == "keys" else self.models.dict_parts(self, entry_dict_state(entry, st, src_it.base))[2].at(i)
                # instance of the order-oracle axiom: the i-th key is a key of the dict (entry-time contents)
                st.assume(z3.Select(z3.Select(entry["h"].ddom, V.id(src_it.base)), kcur))
                st.dict_read(src_it.base, kcur)
                vcur = z3.Select(z3.Select(entry["h"].dval, V.id(src_it.base)), kcur)
                st.assume(z3.Implies(V.is_ref(vcur), V.id(vcur) <= entry["nalloc"]))
                st.wf_read(vcur)
            self.assign_target(s.target, x, env)
            try:
                self.exec_block(s.body, env)
            except _Break:
                return            # continue after the loop on this path
            except _Continue:
                pass
            ctx1 = LoopCtx(self, st, env, seq, i + 1, entry)
            for nm, f in _inv_list(spec.inv):
                goal = f(ctx1)
                parts = goal.children() if z3.is_and(goal) else [goal]
                for k_, part in enumerate(parts):
                    self.spec.oblige(self, f"{label}/step/{nm}" + (f"#{k_}" if len(parts) > 1 else ""), part)
            if spec.modifies_heap is False:
                self.spec.oblige(self, f"{label}/step/heap-unchanged", frame_eq(entry["h"], st.h, entry["nalloc"]))
            elif spec.frame_except is not None:
                self.spec.oblige(self, f"{label}/step/frame", frame_eq(iter_h, st.h, entry["nalloc"], allowed))
            raise PathEnd()
        else:
            st.assume(i == n)
            ctx = LoopCtx(self, st, env, seq, i, entry)
            for nm, f in _inv_list(spec.inv):
                st.assume(f(ctx))
            if spec.havoc_hook is not None:
                spec.havoc_hook(ctx)
            if z3.is_app(n):
                pass
            self.exec_block(s.orelse, env)

    # ---- try ----------------------------------------------------------------------------------
    def x_Try(self, s, env):
        try:
            try:
                self.exec_block(s.body, env)
            except PyRaise as pr:
                handled = False
                for h in s.handlers:
                    if self.exc_matches(pr.exc, h.type, env):
                        handled = True
                        if h.name:
                            env.assign(h.name, pr.exc)
                        self._cur_exc = getattr(self, "_cur_exc", []) + [pr.exc]
                        try:
                            self.exec_block(h.body, env)
                        finally:
                            self._cur_exc = self._cur_exc[:-1]
                        break
                if not handled:
                    raise
            else:
                self.exec_block(s.orelse, env)
        finally:
            # runs for every exit kind of the protected region, including PathEnd (harmless)
            if s.finalbody:
                import sys
                et = sys.exc_info()[0]
                if et is None or issubclass(et, (PyRaise, _Return, _Break, _Continue)):
                    self.exec_block(s.finalbody, env)

    def exc_matches(self, exc, type_expr, env):
        if type_expr is None:
            return True
        tv = self.ev(type_expr, env)
        cands = tv if isinstance(tv, list) else [tv]
        if is_v(tv) and self.tag(tv) == "tup":
            cands = self.models.unpack(self, tv, None)
        cond = z3.BoolVal(False)
        for c in cands:
            c = self.lower(c)
            if isinstance(c, O.HExt):
                # an exception class of the standard library (queue.Empty, json.JSONDecodeError ...): its real class object
                # gives the base classes
                import importlib
                modname, _, attr = c.dotted.rpartition(".")
                try:
                    pc = getattr(importlib.import_module(modname), attr)
                except Exception:
                    pc = None
                if isinstance(pc, type) and issubclass(pc, BaseException) and modname.split(".")[0] in sys.stdlib_module_names:
                    c = O.builtin_class(pc)
            if not isinstance(c, O.ClassInfo):
                raise OutsideSubset("except clause with non-class")
            cond = z3.Or(cond, self.cid_issub(exc.cid, c))
        return self.st.decide(cond, "except")

    def cid_issub(self, cid_term, ci):
        s = z3.simplify(cid_term) if isinstance(cid_term, z3.ExprRef) else z3.IntVal(cid_term)
        if z3.is_int_value(s):
            a = O.class_by_id(s.as_long())
            if a is not None:
                return z3.BoolVal(a.is_sub(ci))
        if not any(s.eq(t) for t in self.st.symcls):
            self.st.symcls.append(s)
        self.st.mention(ci, target=True)
        return issub(s, ci.cid)

    def x_Raise(self, s, env):
        if s.exc is None:
            cur = getattr(self, "_cur_exc", [])
            if not cur:
                raise OutsideSubset("bare raise outside handler")
            raise PyRaise(cur[-1])
        v = self.ev(s.exc, env)
        if s.cause is not None:
            self.ev(s.cause, env)
        if isinstance(v, O.ClassInfo):
            v = self.instantiate(v, [], {})
        if isinstance(v, O.HExc):
            if v.origin is None:
                v.origin = ("raise", s.lineno)
            raise PyRaise(v)
        raise OutsideSubset("raise of a non-exception value")

    def x_With(self, s, env):
        for item in s.items:
            cm = self.ev(item.context_expr, env)
            entered = self.spec.with_enter(self, cm)
            if item.optional_vars is not None:
                self.assign_target(item.optional_vars, entered, env)
        try:
            self.exec_block(s.body, env)
        finally:
            import sys
            et = sys.exc_info()[0]
            if et is None or issubclass(et, (PyRaise, _Return, _Break, _Continue)):
                for item in reversed(s.items):
                    self.spec.with_exit(self, item)

    # ==========================================================================================
    # expressions
    # ==========================================================================================
    def ev(self, e, env):
        m = getattr(self, "e_" + type(e).__name__, None)
        if m is None:
            raise OutsideSubset(f"expression {type(e).__name__} at line {getattr(e, 'lineno', '?')}")
        return m(e, env)

    def e_Constant(self, e, env):
        if e.value is Ellipsis:
            return NONE
        if isinstance(e.value, bytes):
            # a bytes literal: an opaque object determined by its content (equal literals are equal values)
            return V.obj(z3.Function("BytesLiteral", z3.StringSort(), I)(z3.StringVal(e.value.decode("latin-1"))))
        return self.lift(e.value)

    def e_Name(self, e, env):
        return self.load_name(e.id, env)

    def e_Yield(self, e, env):
        """`yield x` in a generator body the spec chose to run eagerly (generator_call): the value goes to the spec's hook,
        nothing is sent back"""
        v = self.ev(e.value, env) if e.value is not None else NONE
        self.spec.on_yield(self, v, env)
        return NONE

    def e_NamedExpr(self, e, env):
        v = self.ev(e.value, env)
        env.assign(e.target.id, v)
        return v

    def e_Attribute(self, e, env):
        if (e.attr == "__name__" and isinstance(e.value, ast.Call) and isinstance(e.value.func, ast.Name)
                and e.value.func.id == "type" and len(e.value.args) == 1 and not e.value.keywords
                and not env.lookup("type")[1]):
            # type(x).__name__ : an uninterpreted observer of x's type (no case split on the constructor)
            x = self.ev(e.value.args[0], env)
            x = self.lower(x)
            if isinstance(x, O.HExc):
                c = self.lower(V.cls(x.cid))
                if isinstance(c, O.ClassInfo):
                    return vstr(c.name)
                return vstr(z3.Function("ClsName", I, z3.StringSort())(x.cid))
            if is_v(x):
                t = self.tag(x, cheap=True)
                if t is None or t == "obj":
                    return vstr(z3.Function("TypeNameOf", V, z3.StringSort())(x))
        return self.getattr(self.ev(e.value, env), e.attr)

    def e_Subscript(self, e, env):
        cont = self.ev(e.value, env)
        if isinstance(e.slice, ast.Slice):
            lo = self.ev(e.slice.lower, env) if e.slice.lower else None
            hi = self.ev(e.slice.upper, env) if e.slice.upper else None
            if e.slice.step is not None:
                raise OutsideSubset("slice step")
            return self.models.get_slice(self, cont, lo, hi)
        key = self.ev(e.slice, env)
        return self.models.get_item(self, cont, key)

    def e_Tuple(self, e, env):
        if any(isinstance(x, ast.Starred) for x in e.elts):
            raise OutsideSubset("starred in tuple")
        return vtup([self.lift(self.ev(x, env)) for x in e.elts])

    def e_List(self, e, env):
        sq = Sq(EMPTY_ARR, 0)
        for x in e.elts:
            if isinstance(x, ast.Starred):
                sq = sq.concat(self.models.iterate_seq(self, self.ev(x.value, env)))
            else:
                sq = sq.append(self.lift(self.ev(x, env)))
        return self.st.new_list(sq)

    def e_Set(self, e, env):
        r = self.st.new_set()
        for x in e.elts:
            self.models.set_add(self, r, self.lift(self.ev(x, env)))
        return r

    def e_Dict(self, e, env):
        d = self.st.new_dict()
        for k, v in zip(e.keys, e.values):
            if k is None:
                self.models.dict_update(self, d, self.ev(v, env))
            else:
                kk = self.lift(self.ev(k, env))
                self.models.set_item(self, d, kk, self.lift(self.ev(v, env)))
        return d

    def e_JoinedStr(self, e, env):
        parts = []
        for v in e.values:
            if isinstance(v, ast.Constant):
                parts.append(z3.StringVal(v.value))
            else:
                x = self.ev(v.value, env)
                parts.append(self.models.to_str(self, x))
        if not parts:
            return vstr("")
        return vstr(parts[0] if len(parts) == 1 else z3.Concat(*parts))

    def e_FormattedValue(self, e, env):
        return vstr(self.models.to_str(self, self.ev(e.value, env)))

    def e_Lambda(self, e, env):
        fake = ast.FunctionDef(name="<lambda>", args=e.args, body=[ast.Return(value=e.body, lineno=e.lineno, col_offset=0)],
                               decorator_list=[], lineno=e.lineno, col_offset=0, end_lineno=e.end_lineno)
        return O.HLambda(fake, env.module, env, (env.func.qual + ".<locals>." if env.func else "") + "<lambda>")

    def e_IfExp(self, e, env):
        c = z3.simplify(self.truthy(self.ev(e.test, env)))
        if z3.is_true(c):
            return self.ev(e.body, env)
        if z3.is_false(c):
            return self.ev(e.orelse, env)
        if _is_simple(e.body) and _is_simple(e.orelse):
            a = self.ev(e.body, env)
            b = self.ev(e.orelse, env)
            try:
                return z3.If(c, self.lift(a), self.lift(b))
            except OutsideSubset:
                pass
        if self.st.decide(c, f"ifexp@{e.lineno}"):
            return self.ev(e.body, env)
        return self.ev(e.orelse, env)

    def e_BoolOp(self, e, env):
        is_and = isinstance(e.op, ast.And)
        cur = self.ev(e.values[0], env)
        for nxt in e.values[1:]:
            c = z3.simplify(self.truthy(cur))
            if z3.is_true(c):
                if is_and:
                    cur = self.ev(nxt, env)
                    continue
                return cur
            if z3.is_false(c):
                if is_and:
                    return cur
                cur = self.ev(nxt, env)
                continue
            if _is_simple(nxt):
                other = self.ev(nxt, env)
                try:
                    lc, lo = self.lift(cur), self.lift(other)
                    cur = z3.If(c, lo, lc) if is_and else z3.If(c, lc, lo)
                    continue
                except OutsideSubset:
                    pass
            elif _is_cheap(nxt):
                # operand without calls: try to evaluate it without forking (under the guard), then merge by ite
                guard = c if is_and else z3.Not(c)
                self.st.pc.append(guard)
                try:
                    other = self.models.pure_eval(self, lambda: self.ev(nxt, env))
                    ok = True
                except OutsideSubset:
                    ok = False
                finally:
                    if self.st.pc and self.st.pc[-1] is guard:
                        self.st.pc.pop()
                    else:
                        # facts were appended after the guard: keep them conditional on it
                        idx = max(i for i, p_ in enumerate(self.st.pc) if p_ is guard)
                        tail = self.st.pc[idx + 1:]
                        del self.st.pc[idx:]
                        for p_ in tail:
                            self.st.pc.append(z3.Implies(guard, p_))
                if ok:
                    try:
                        lc, lo = self.lift(cur), self.lift(other)
                        cur = z3.If(c, lo, lc) if is_and else z3.If(c, lc, lo)
                        continue
                    except OutsideSubset:
                        pass
            take_next = self.st.decide(c if is_and else z3.Not(c), f"boolop@{e.lineno}")
            if take_next:
                cur = self.ev(nxt, env)
            else:
                return cur
        return cur

    def e_UnaryOp(self, e, env):
        v = self.ev(e.operand, env)
        if isinstance(e.op, ast.Not):
            return vbool(z3.Not(self.truthy(v)))
        t = self.tag(v)
        if isinstance(e.op, ast.USub):
            if t == "int":
                return vint(-V.i(v))
            if t == "real":
                return V.real(-V.r(v))
        if isinstance(e.op, ast.UAdd) and t in ("int", "real"):
            return v
        raise OutsideSubset(f"unary {type(e.op).__name__} on {t}")

    def e_BinOp(self, e, env):
        return self.binop(e.op, self.ev(e.left, env), self.ev(e.right, env))

    def binop(self, op, a, b, inplace=False):
        return self.models.binop(self, op, a, b, inplace)

    def e_Compare(self, e, env):
        left = self.ev(e.left, env)
        result = None
        for op, right_e in zip(e.ops, e.comparators):
            if result is not None:
                # chained comparison: short-circuit
                if not self.st.decide(result, f"cmpchain@{e.lineno}"):
                    return vbool(False)
            right = self.ev(right_e, env)
            result = self.compare(op, left, right)
            left = right
        return vbool(result)

    def compare(self, op, a, b):
        if isinstance(op, ast.Is):
            return self.identical(a, b)
        if isinstance(op, ast.IsNot):
            return z3.Not(self.identical(a, b))
        if isinstance(op, (ast.Eq, ast.NotEq)):
            r = self.spec.eq_override(self, a, b)
            if r is None:
                r = self.veq(a, b)
            return r if isinstance(op, ast.Eq) else z3.Not(r)
        if isinstance(op, ast.In):
            return self.models.contains(self, b, a)
        if isinstance(op, ast.NotIn):
            return z3.Not(self.models.contains(self, b, a))
        return self.models.order(self, op, a, b)

    def identical(self, a, b):
        if not is_v(a) or not is_v(b):
            if a is b:
                return z3.BoolVal(True)
            try:
                a, b = self.lift(a), self.lift(b)
            except OutsideSubset:
                return z3.BoolVal(False)
        return a == b

    def e_Call(self, e, env):
        # super() needs the frame
        if isinstance(e.func, ast.Name) and e.func.id == "super" and not e.args:
            selfv, ok = env.lookup("self")
            if not ok:
                selfv, ok = env.lookup("cls")
            owner = None
            for fr in env.chain():
                if fr.func is not None and fr.func.owner is not None:
                    owner = fr.func.owner
                    break
            if owner is None:
                raise OutsideSubset("super() outside a method")
            return O.HSuper(selfv, owner)
        f = self.ev(e.func, env)
        args = []
        for a in e.args:
            if isinstance(a, ast.Starred):
                sv = self.ev(a.value, env)
                items = self.models.iterate_concrete(self, sv)
                if items is None:
                    raise OutsideSubset("*args of symbolic length")
                args.extend(items)
            else:
                args.append(self.ev(a, env))
        kwargs = {}
        star = None
        for kw in e.keywords:
            if kw.arg is None:
                if star is not None:
                    raise OutsideSubset("two ** at a call")
                star = self.ev(kw.value, env)
            else:
                kwargs[kw.arg] = self.ev(kw.value, env)
        return self.call(f, args, kwargs, star, node=e, env=env)

    def e_ListComp(self, e, env):
        return self.models.comprehension(self, e, env, "list")

    def e_SetComp(self, e, env):
        return self.models.comprehension(self, e, env, "set")

    def e_DictComp(self, e, env):
        return self.models.comprehension(self, e, env, "dict")

    def e_GeneratorExp(self, e, env):
        return self.models.comprehension(self, e, env, "gen")

    def e_Starred(self, e, env):
        raise OutsideSubset("starred expression")

    # ==========================================================================================
    # attributes
    # ==========================================================================================
    def getattr(self, v, name, default=_Return):
        r = self._getattr(v, name)
        if r is _MISSING:
            if default is not _Return:
                return default
            self.raise_(AttributeError, origin=("getattr", name))
        return r

    def _getattr(self, v, name):
        st = self.st
        v = self.lower(v)
        if isinstance(v, O.HModule):
            return self.module_attr(v, name)
        if isinstance(v, O.HExt):
            return self.ext(v.dotted + "." + name)
        if isinstance(v, O.ClassInfo):
            return self.class_attr(v, name, v)
        if isinstance(v, O.HSuper):
            mro = self.inst_class(v.selfv).mro() if is_v(v.selfv) and self.tag(v.selfv) == "ref" else v.after.mro()
            idx = mro.index(v.after) if v.after in mro else -1
            for c in mro[idx + 1:]:
                if name in c.attrs and isinstance(c.attrs[name], ast.FunctionDef):
                    f = O.HFunc(c.attrs[name], c.module, None, c.name + "." + name, owner=c)
                    return O.HBound(v.selfv, f)
                if c.pycls is not None or c.abstract:
                    return self.spec.opaque_super(self, v, c, name)
            raise OutsideSubset(f"super().{name} not found")
        if isinstance(v, O.HExc):
            return self.models.exc_attr(self, v, name)
        if isinstance(v, (O.HFunc, O.HBound)):
            if name == "__name__":
                return vstr((v.func if isinstance(v, O.HBound) else v).node.name)
            raise OutsideSubset(f"attribute {name} of a function")
        if not is_v(v):
            raise OutsideSubset(f"getattr on {v!r}")
        t = self.tag(v)
        if t == "ref":
            k = self.kind(v)
            if k is None:
                k = self.models.split_kind(self, v, f"attr:{name}")
            if k == K_INST:
                return self.inst_attr(v, name)
            if k in (K_DICT, K_LIST, K_SET):
                if name in self.models.METHODS[k]:
                    return O.HMeth(v, name)
                return _MISSING
            raise OutsideSubset(f"attribute {name} on a reference of unknown kind")
        if t in ("str", "tup", "int", "real"):
            return O.HMeth(v, name)
        if t == "obj":
            return self.spec.obj_attr(self, v, name)
        if t == "cls":
            return self.spec.symcls_attr(self, v, name)
        if t == "none":
            return _MISSING
        return self.spec.unknown_attr(self, v, name)

    def module_attr(self, m, name):
        mod = source.module_for_dotted(m.dotted)
        if mod is not None:
            if name in mod.defs or name in mod.assigns or name in mod.imports:
                return self.resolve_global(mod, name)
            sub = source.module_for_dotted(m.dotted + "." + name)
            if sub is not None:
                return O.HModule(m.dotted + "." + name)
            raise OutsideSubset(f"{m.dotted}.{name} not found")
        return self.ext(m.dotted + "." + name)

    def class_attr(self, ci, name, bind_to):
        if name == "__name__":
            return vstr(ci.name)
        if name == "__qualname__":
            return vstr(ci.name)
        if name == "__module__":
            return vstr(ci.module.dotted if ci.module else "builtins")
        ov = self.spec.class_attr_override(self, ci, name)
        if ov is not None:
            return ov
        owner, node = ci.lookup(name)
        if node is None:
            if ci.abstract or any(c.abstract or c.opaque_base for c in ci.mro()):
                return self.spec.abstract_class_attr(self, ci, name)
            return _MISSING
        if isinstance(node, ast.ClassDef):
            return self.class_of_node(owner.module, node)
        if isinstance(node, ast.FunctionDef):
            f = O.HFunc(node, owner.module, None, owner.name + "." + name, owner=owner)
            if f.kind == "classmethod":
                return O.HBound(bind_to, f)
            if f.kind.startswith("decorated"):
                raise OutsideSubset(f"decorated method {owner.name}.{name}")
            return f
        key = ("cattr", owner.cid, name)
        if key not in self.st.gmemo:
            self.st.reads.add(("classattr", owner.name, name))
            self.st.gmemo[key] = self.ev(node, Env(owner.module))
        return self.st.gmemo[key]

    def inst_attr(self, v, name):
        st = self.st
        ci = self.inst_class(v)
        if ci is None:
            return self.spec.unknown_attr(self, v, name)
        if name == "__class__":
            return ci
        owner, node = ci.lookup(name)
        if isinstance(node, ast.FunctionDef):
            f = O.HFunc(node, owner.module, None, owner.name + "." + name, owner=owner)
            if f.kind == "property":
                return self.call_function(f, [v], {})
            if f.kind == "staticmethod":
                return f
            if f.kind == "classmethod":
                return O.HBound(ci, f)
            if f.kind.startswith("decorated"):
                raise OutsideSubset(f"decorated method {owner.name}.{name}")
            return O.HBound(v, f)
        ov = self.spec.inst_attr_override(self, v, ci, name)
        if ov is not None:
            return ov
        rid = V.id(v)
        has = st.has_term(name, rid)
        val = z3.Select(st.h.field(name), rid)
        self.spec.field_read(self, v, name)
        if st.decide(has, f"hasattr:{name}"):
            return st.wf_read(val)
        if node is not None:
            return self.class_attr(ci, name, ci)
        if ci.abstract or any(c.abstract for c in ci.mro()):
            return self.spec.abstract_inst_attr(self, v, ci, name)
        return _MISSING

    def setattr(self, v, name, value):
        st = self.st
        v = self.lower(v)
        if isinstance(v, O.ClassInfo):
            return self.spec.class_setattr(self, v, name, value)
        if not is_v(v):
            raise OutsideSubset(f"setattr on {v!r}")
        t = self.tag(v)
        if t is None:
            t = self.models.split_tag(self, v, f"setattr:{name}")
        if t == "obj":
            return self.spec.obj_setattr(self, v, name, value)
        if t == "none":
            self.raise_(AttributeError, origin=("setattr-on-None", name))
        if t in ("str", "int", "bool", "real", "tup"):
            self.raise_(AttributeError, origin=("setattr-on-primitive", name))
        if t != "ref":
            raise OutsideSubset(f"setattr on value of tag {t}")
        k = self.kind(v)
        if k is None:
            k = self.models.split_kind(self, v, f"setattr:{name}")
        if k != K_INST:
            self.raise_(AttributeError, origin=("setattr-on-container", name))
        ci = self.inst_class(v)
        if ci is not None:
            owner, node = ci.lookup(name)
            if isinstance(node, ast.FunctionDef):
                f = O.HFunc(node, owner.module, None, owner.name + "." + name, owner=owner)
                if f.kind == "property":
                    raise OutsideSubset("property setter")
        rid = V.id(v)
        st.h.fld[name] = z3.Store(st.h.field(name), rid, self.lift(value))
        st.h.has[name] = z3.Store(st.h.hasf(name), rid, z3.BoolVal(True))
        st.events.append(("w", name)) if False else None

    # ==========================================================================================
    # calls
    # ==========================================================================================
    def call(self, f, args, kwargs=None, star=None, node=None, env=None):
        kwargs = kwargs or {}
        f = self.lower(f)
        h = self.spec.call_override(self, f, args, kwargs, star)
        if h is not _MISSING:
            return h
        if isinstance(f, O.HBound):
            return self.call(f.func, [f.selfv] + list(args), kwargs, star)
        if isinstance(f, O.HFunc):
            c = self.spec.contract_for(self, f)
            if c is not None:
                return c.apply(self, f, args, kwargs, star)
            if not self.spec.may_inline(self, f):
                raise OutsideSubset(f"call to {f} without contract (not on the inline list)")
            return self.call_function(f, args, kwargs, star)
        if isinstance(f, O.ClassInfo):
            return self.instantiate(f, args, kwargs, star)
        if isinstance(f, O.HExt):
            return self.models.call_ext(self, f.dotted, args, kwargs, star, env)
        if isinstance(f, O.HMeth):
            return self.models.call_method(self, f.recv, f.name, args, kwargs, star)
        if isinstance(f, O.HSuper):
            raise OutsideSubset("calling super object")
        if is_v(f):
            return self.spec.call_value(self, f, args, kwargs, star)
        raise OutsideSubset(f"call of {f!r}")

    def bind_args(self, f, args, kwargs, star):
        a = f.node.args
        params = [p.arg for p in a.posonlyargs + a.args]
        bound = {}
        args = list(args)
        kwargs = dict(kwargs)
        defaults = a.defaults
        ndef = len(defaults)
        npar = len(params)
        star_used = False
        for i, p in enumerate(params):
            if i < len(args):
                bound[p] = args[i]
            elif p in kwargs:
                bound[p] = kwargs.pop(p)
            else:
                got = False
                if star is not None:
                    inn = self.models.contains(self, star, vstr(p))
                    if self.st.decide(inn, f"**has:{p}"):
                        bound[p] = self.models.get_item(self, star, vstr(p))
                        got = True
                        star_used = True
                if not got:
                    di = i - (npar - ndef)
                    if di >= 0:
                        bound[p] = self.ev(defaults[di], Env(f.module, f.closure))
                    else:
                        self.raise_(TypeError, origin=("missing-arg", f.qual, p))
        extra = args[npar:]
        if a.vararg is not None:
            bound[a.vararg.arg] = vtup([self.lift(x) for x in extra])
        elif extra:
            self.raise_(TypeError, origin=("too-many-args", f.qual))
        for p, d in zip(a.kwonlyargs, a.kw_defaults):
            if p.arg in kwargs:
                bound[p.arg] = kwargs.pop(p.arg)
            else:
                got = False
                if star is not None:
                    inn = self.models.contains(self, star, vstr(p.arg))
                    if self.st.decide(inn, f"**has:{p.arg}"):
                        bound[p.arg] = self.models.get_item(self, star, vstr(p.arg))
                        got = True
                if not got:
                    if d is not None:
                        bound[p.arg] = self.ev(d, Env(f.module, f.closure))
                    else:
                        self.raise_(TypeError, origin=("missing-kwarg", f.qual, p.arg))
        if a.kwarg is not None:
            d = self.st.new_dict()
            if star is not None:
                self.models.dict_update(self, d, star)
                for p in bound:
                    pass
            for k, v in kwargs.items():
                self.models.set_item(self, d, vstr(k), self.lift(v))
            bound[a.kwarg.arg] = d
        elif kwargs:
            self.raise_(TypeError, origin=("unexpected-kwarg", f.qual, sorted(kwargs)))
        elif star is not None:
            # every key of **star must be a parameter name, otherwise TypeError
            ok = z3.BoolVal(True)
            names = [p for p in params] + [p.arg for p in a.kwonlyargs]
            h = self.st.h
            dom = z3.Select(h.ddom, V.id(star))
            k = fresh("k")
            allowed = z3.Or([k == vstr(n) for n in names]) if names else z3.BoolVal(False)
            bad = z3.And(z3.Select(dom, k), z3.Not(allowed))
            if self.st.feasible(bad):
                if self.st.decide(bad, "**unexpected"):
                    self.raise_(TypeError, origin=("unexpected-kwarg", f.qual))
                else:
                    # remember: no key outside the names (quantified fact)
                    kk = z3.Const("k!star", V)
                    self.st.assume(z3.ForAll([kk], z3.Implies(z3.Select(dom, kk), z3.Or([kk == vstr(n) for n in names]) if names else z3.BoolVal(False))))
        return bound

    def call_function(self, f, args, kwargs=None, star=None):
        if f.kind.startswith("decorated"):
            raise OutsideSubset(f"decorated function {f.qual}: {f.kind}")
        self.depth += 1
        if self.depth > self.spec.max_depth:
            self.depth -= 1
            raise OutsideSubset(f"inline depth exceeded at {f.qual}")
        try:
            bound = self.bind_args(f, args, kwargs or {}, star)
            env = Env(f.module, f.closure, f)
            env.vars.update(bound)
            if _is_generator(f.node):
                return self.spec.generator_call(self, f, env)
            try:
                self.exec_block(f.node.body, env)
            except _Return as r:
                return r.value
            return NONE
        finally:
            self.depth -= 1

    def instantiate(self, ci, args, kwargs, star=None):
        st = self.st
        st.mention(ci)
        h = self.spec.instantiate_override(self, ci, args, kwargs, star)
        if h is not _MISSING:
            return h
        if ci.pycls is not None:
            if issubclass(ci.pycls, BaseException):
                return O.HExc(z3.IntVal(ci.cid), args, kwargs)
            return self.models.call_ext(self, "builtins." + ci.pycls.__name__, args, kwargs, star, None)
        if any(c.pycls is not None and issubclass(c.pycls, BaseException) for c in ci.mro()):
            # repo exception classes: constructor body is not executed (payload kept as given)
            return O.HExc(z3.IntVal(ci.cid), args, kwargs)
        if ci.abstract:
            return self.spec.abstract_instantiate(self, ci, args, kwargs, star)
        obj = st.new_inst(ci)
        if ci.is_dataclass and ci.lookup("__init__")[1] is None:
            flds = ci.all_fields()
            vals = {}
            for i, (nm, d, fac, owner) in enumerate(flds):
                if i < len(args):
                    vals[nm] = args[i]
                elif nm in kwargs:
                    vals[nm] = kwargs[nm]
                elif fac is not None:
                    vals[nm] = self.call(self.ev(fac, Env(owner.module)), [], {})
                elif d is not None:
                    vals[nm] = self.ev(d, Env(owner.module))
                else:
                    self.raise_(TypeError, origin=("dataclass-missing", ci.name, nm))
            for nm, x in vals.items():
                self.setattr(obj, nm, x)
            return obj
        owner, init = ci.lookup("__init__")
        if isinstance(init, ast.FunctionDef):
            f = O.HFunc(init, owner.module, None, owner.name + ".__init__", owner=owner)
            c = self.spec.contract_for(self, f)
            if c is not None:
                c.apply(self, f, [obj] + list(args), kwargs, star)
            else:
                if not self.spec.may_inline(self, f):
                    raise OutsideSubset(f"constructor {f} without contract")
                self.call_function(f, [obj] + list(args), kwargs, star)
        elif args or kwargs:
            self.raise_(TypeError, origin=("object-init-args", ci.name))
        return obj


class _NoMerge(Exception):
    pass


class _Missing:
    def __repr__(self):
        return "<MISSING>"


_MISSING = _Missing()


def _inv_list(inv):
    if callable(inv):
        return [("inv", inv)]
    return list(inv)


def _has_exit(ifnode):
    for n in ast.walk(ifnode):
        if isinstance(n, (ast.Return, ast.Break, ast.Continue, ast.For, ast.While, ast.Try, ast.With)):
            return True
        if isinstance(n, ast.Raise):
            return True
    return False


def _is_simple(e):
    """expressions whose evaluation cannot raise, fork or have effects worth forking for"""
    if isinstance(e, (ast.Constant, ast.Name)):
        return True
    if isinstance(e, ast.Dict) and not e.keys:
        return True
    if isinstance(e, (ast.List, ast.Tuple)) and not e.elts:
        return True
    if isinstance(e, ast.Attribute) and isinstance(e.value, ast.Name) and e.value.id == "self":
        return False
    return False


def _is_cheap(e):
    """expression made of names, constants, attribute loads, comparisons, `not`, subscripts: no calls"""
    for n in ast.walk(e):
        if isinstance(n, (ast.Call, ast.Lambda, ast.ListComp, ast.DictComp, ast.SetComp, ast.GeneratorExp, ast.NamedExpr,
                          ast.Await, ast.Yield, ast.YieldFrom, ast.Dict, ast.List, ast.Set, ast.JoinedStr)):
            return False
    return True


def _is_generator(fnode):
    for n in ast.walk(fnode):
        if isinstance(n, (ast.Yield, ast.YieldFrom)):
            # make sure it belongs to this def, not a nested one
            return _owns(fnode, n)
    return False


def _owns(fnode, target):
    stack = list(fnode.body)
    while stack:
        n = stack.pop()
        if n is target:
            return True
        if isinstance(n, (ast.FunctionDef, ast.Lambda, ast.ClassDef)):
            continue
        stack.extend(ast.iter_child_nodes(n))
    return False


def entry_dict_state(entry, st, d):
    return d


def heap_eq(h1, h2):
    conj = []
    for (n1, a), (n2, b) in zip(h1.components(), h2.components()):
        if n1 != n2:
            return z3.BoolVal(False)
        if not a.eq(b):
            conj.append(a == b)
    if len(h1.components()) != len(h2.components()):
        names = set(h1.fld) ^ set(h2.fld)
        for n in names:
            h1.field(n), h2.field(n)
        return heap_eq(h1, h2)
    return z3.And(conj) if conj else z3.BoolVal(True)


def frame_eq(h1, h2, n0, except_refs=()):
    """every object that existed when nalloc was n0 (id <= n0), other than `except_refs`, has the same
    contents in h1 and h2"""
    r = z3.Int("r!frame")
    names = set(h1.fld) | set(h2.fld)
    for n in names:
        h1.field(n), h2.field(n)
    conj = []
    for (n1, a), (n2, b) in zip(h1.components(), h2.components()):
        if not a.eq(b):
            conj.append(z3.Select(a, r) == z3.Select(b, r))
    if not conj:
        return z3.BoolVal(True)
    preds = [x for x in except_refs if callable(x)]
    whole = [x for x in except_refs if not isinstance(x, tuple) and not callable(x)]
    partial = [x for x in except_refs if isinstance(x, tuple)]
    guard = [r <= n0] + [r != V.id(x) for x in whole] + [z3.Not(p_(r)) for p_ in preds]
    if partial:
        conj = []
        for (n1, a), (n2, b) in zip(h1.components(), h2.components()):
            if a.eq(b):
                continue
            g = []
            if n1.startswith("fld.") or n1.startswith("has."):
                fname = n1.split(".", 1)[1]
                g = [r != V.id(x) for (x, flds) in partial if fname in flds]
            eqn = z3.Select(a, r) == z3.Select(b, r)
            conj.append(z3.Implies(z3.And(g), eqn) if g else eqn)
    return z3.ForAll([r], z3.Implies(z3.And(guard), z3.And(conj)))


def _framed_havoc(old, new, n0, allowed):
    """heap that agrees with `old` on every object existing at n0 except `allowed`, and is arbitrary elsewhere.
    The components are the fresh array constants of `new`; the frame relation to `old` is (a) a quantified axiom
    (for discharging obligations) and (b) registered in core.FRAME_INFO so that every read instantiates it at the
    index read (quantifier-free facts for the dispatch queries)."""
    r = z3.Int("r!fh")
    preds = [x for x in allowed if callable(x)]                  # predicate on the object id: members may change
    whole = [x for x in allowed if not isinstance(x, tuple) and not callable(x)]
    partial = [x for x in allowed if isinstance(x, tuple)]      # (ref, [field names]) : only these fields may change

    def keep(rr):
        return z3.And([rr <= n0] + [rr != V.id(x) for x in whole] + [z3.Not(p_(rr)) for p_ in preds])

    def existed(rr):
        return rr <= n0

    def keep_fld(rr, n):
        return z3.And([keep(rr)] + [rr != V.id(x) for (x, flds) in partial if n in flds])

    def keep_has(rr, n):
        # attribute *presence* of a field-level framed object is kept (assignments do not remove attributes)
        return keep(rr)
    names = set(old.fld) | set(new.fld)
    for n in names:
        old.field(n), new.field(n)
    h = new.copy()
    h.axioms = list(new.axioms)
    oldc = old.copy()

    def link(arr_new, arr_old, kf):
        core.FRAME_INFO[arr_new.get_id()] = (arr_new, arr_old, kf)
        core._KEEPALIVE.append((arr_new, arr_old))
        h.axioms.append(z3.ForAll([r], z3.Implies(kf(r), core._orig_select(arr_new, r) == z3.Select(arr_old, r)),
                                  patterns=[core._orig_select(arr_new, r)]))
    for a in Heap.ARR:
        link(getattr(new, a), getattr(old, a), existed if a in ("kind", "cls") else keep)   # kind/class never change
    for n in names:
        link(new.fld[n], old.fld[n], lambda rr, n=n: keep_fld(rr, n))
        link(new.has[n], old.has[n], lambda rr, n=n: keep_has(rr, n))
    h.framed = (oldc, keep_fld, keep_has, new, link)
    return h


def _havoc_heap(h, tag, floor=0):
    n = fresh("hv", I)
    nh = Heap(f"{tag}!{n}", floor)
    nh.axioms = list(h.axioms)
    for name in list(h.fld):
        nh.field(name)
    return nh
