"""Extraction of the real code: parses files of the repository working tree (VERIF_REPO or /repo)
with `ast` on every run and locates functions/classes by qualified path.  Nothing is copied.

What extraction drops (complete list): comments, docstrings (an expression statement that is a
string constant is a no-op anyway), type annotations, `typing.cast` (identity), decorators other
than classmethod/staticmethod/property/override/abstractmethod/dataclass (any other decorator makes
the function OUTSIDE-SUBSET).  Statements are never dropped.
"""
from __future__ import annotations
import ast, hashlib, os, sys

REPO = os.environ.get("VERIF_REPO", "/repo")


class OutsideSubset(Exception):
    """The code uses a construct the engine does not model: the obligation is UNDECIDED."""


class Module:
    def __init__(self, relpath, abspath=None, dotted=None):
        self.relpath = relpath
        self.path = abspath or os.path.join(REPO, relpath)
        with open(self.path, "r", encoding="utf-8") as fh:
            self.text = fh.read()
        self.tree = ast.parse(self.text, filename=self.path)
        self.defs = {}      # name -> FunctionDef / ClassDef
        self.assigns = {}   # name -> value expr (last top-level simple assignment)
        self.imports = {}   # local name -> ("module", dotted) | ("from", dotted, name)
        self.dotted = dotted or relpath[:-3].replace("/", ".")
        if self.dotted.endswith(".__init__"):
            self.dotted = self.dotted[: -len(".__init__")]
        self._scan(self.tree.body)

    def _scan(self, body):
        for node in body:
            if isinstance(node, (ast.FunctionDef, ast.ClassDef, ast.AsyncFunctionDef)):
                self.defs[node.name] = node
            elif isinstance(node, ast.Assign):
                for t in node.targets:
                    if isinstance(t, ast.Name):
                        self.assigns[t.id] = node.value
            elif isinstance(node, ast.AnnAssign) and isinstance(node.target, ast.Name) and node.value is not None:
                self.assigns[node.target.id] = node.value
            elif isinstance(node, ast.Import):
                for a in node.names:
                    self.imports[(a.asname or a.name.split(".")[0])] = ("module", a.name if a.asname else a.name.split(".")[0])
            elif isinstance(node, ast.ImportFrom):
                base = node.module or ""
                if node.level:
                    pkg = self.dotted.split(".")
                    if not self.relpath.endswith("__init__.py"):
                        pkg = pkg[:-1]
                    pkg = pkg[: len(pkg) - (node.level - 1)]
                    base = ".".join(pkg + ([node.module] if node.module else []))
                for a in node.names:
                    self.imports[a.asname or a.name] = ("from", base, a.name)
            elif isinstance(node, (ast.If, ast.Try)):
                # top-level conditional imports (TYPE_CHECKING etc.)
                for sub in ast.iter_child_nodes(node):
                    if isinstance(sub, list):
                        self._scan(sub)
                for fld in ("body", "orelse", "finalbody"):
                    self._scan(getattr(node, fld, []) or [])


_MODULES = {}


def module_for_dotted(dotted):
    """Return Module for a dotted repo module name, or None when it is not a repo module."""
    rel = dotted.replace(".", "/")
    for cand in (rel + ".py", rel + "/__init__.py"):
        if os.path.exists(os.path.join(REPO, cand)):
            return load_module(cand)
    return None


def load_module(relpath):
    if relpath not in _MODULES:
        _MODULES[relpath] = Module(relpath)
    return _MODULES[relpath]


def load_abs(abspath, dotted):
    """a module outside the repository (interpreter stdlib source), keyed by '<stdlib>/name'"""
    key = "<stdlib>/" + dotted
    if key not in _MODULES:
        _MODULES[key] = Module(key, abspath=abspath, dotted=dotted)
    return _MODULES[key]


def reset_cache():
    _MODULES.clear()


def find_def(relpath, qual):
    """Locate a def by qualified path `A.b` or `f.<locals>.g` or `f.<locals>.K.m`.
    Returns (node, chain) where chain is the list of enclosing nodes."""
    mod = load_module(relpath)
    parts = [p for p in qual.split(".") if p != "<locals>"]
    body = mod.tree.body
    chain = []
    node = None
    for p in parts:
        found = None
        for n in _walk_defs(body):
            if isinstance(n, (ast.FunctionDef, ast.ClassDef)) and n.name == p:
                found = n
                break
        if found is None:
            raise KeyError(f"{relpath}::{qual}: '{p}' not found")
        chain.append(found)
        node = found
        body = found.body
    return node, chain[:-1]


def _walk_defs(body):
    """defs directly in body, looking through if/try/with/for blocks (not into nested defs)."""
    for n in body:
        if isinstance(n, (ast.FunctionDef, ast.ClassDef)):
            yield n
        elif isinstance(n, (ast.If, ast.Try, ast.With, ast.For, ast.While)):
            for fld in ("body", "orelse", "finalbody"):
                yield from _walk_defs(getattr(n, fld, []) or [])
            for h in getattr(n, "handlers", []) or []:
                yield from _walk_defs(h.body)


def source_info(relpath, qual):
    mod = load_module(relpath)
    node, _ = find_def(relpath, qual)
    seg = ast.get_source_segment(mod.text, node) or ""
    return {
        "file": relpath,
        "function": qual,
        "lines": [node.lineno, node.end_lineno],
        "sha256": hashlib.sha256(seg.encode()).hexdigest(),
    }
