"""Verdict protocol: discharge obligations, replay refutations natively, known findings, evidence."""
from __future__ import annotations
import json, os, sys, time, traceback, subprocess, hashlib
import z3
from . import engine as E, models, state, source

ROOT = os.path.dirname(os.path.dirname(os.path.abspath(__file__)))
REPO = source.REPO
VENV_PY = "/venv/bin/python"

GLOBAL_TRUSTED = [
    "pyvc: the engine's symbolic semantics of the accepted Python subset and its models of built-ins (pyvc/models.py)",
    "z3 5.1 (and cvc5 1.0.3 for z3's unknowns) soundness",
    "CPython 3.12 semantics for everything outside the modelled subset (class creation, MRO, reflection)",
    "integers mathematical (exact for Python ints); bool/int kept as distinct tags; floats as reals where used",
    "heap well-formedness: references read out of the heap were allocated earlier",
    "termination is not verified (partial correctness)",
    "logger calls do not raise and have no relevant effect",
]


def load_known(prop):
    path = os.path.join(ROOT, "known_findings.jsonl")
    out = []
    if os.path.exists(path):
        for line in open(path):
            line = line.strip()
            if not line or line.startswith("#"):
                continue
            try:
                rec = json.loads(line)
            except ValueError:
                continue
            if rec.get("property") == prop:
                out.append(rec)
    return out


def open_findings(prop):
    return {r["id"]: r for r in load_known(prop) if r.get("status") == "open"}


def model_summary(ob, limit=40):
    if ob.model is None:
        return {}
    if isinstance(ob.model, dict):
        return ob.model
    out = {}
    for d in ob.model.decls()[:400]:
        nm = d.name()
        if "!" in nm and not nm.startswith(("name", "cfg", "ctx")):
            continue
        try:
            val = ob.model[d]
            s = str(val)
            if len(s) < 160:
                out[nm] = s
        except Exception:
            pass
        if len(out) >= limit:
            break
    return out


class Run:
    """Collects the outcome of one check run and writes evidence / verdict lines."""

    def __init__(self, prop, tier, seed):
        self.prop = prop
        self.tier = tier
        self.seed = seed
        self.t0 = time.time()
        self.violations = []       # (obligation name, replay path, has_input)
        self.known_lines = []
        self.bounded = {}
        self.notes = []
        self.samples = []
        self.extra_assumptions = []
        self.engine_fault = None

    # ---- replay files ----------------------------------------------------------------------------
    def write_replay(self, name, payload):
        d = os.path.join(ROOT, "replays", self.prop)
        os.makedirs(d, exist_ok=True)
        safe = "".join(c if c.isalnum() or c in "-_." else "_" for c in name)[:120]
        path = os.path.join(d, safe + ".json")
        with open(path, "w") as fh:
            json.dump(payload, fh, indent=1, default=str)
        return path

    def violation(self, obligation, payload, failing_input_found):
        payload = dict(payload)
        payload.setdefault("property", self.prop)
        payload.setdefault("obligation", obligation)
        payload["failing_input_found"] = bool(failing_input_found)
        path = self.write_replay(obligation, payload)
        self.violations.append((obligation, path, failing_input_found))

    def known(self, text):
        self.known_lines.append(text)

    # ---- finishing ------------------------------------------------------------------------------------
    def finish(self, spec, level="proof", level_note=""):
        obs = spec.obligations
        names = {}
        for ob in obs:
            names.setdefault(ob.name, []).append(ob)
        n_inst = len(obs)
        n_dis = sum(1 for ob in obs if ob.status == "discharged")
        undecided = [ob for ob in obs if ob.status == "undecided"]
        by_backend = {}
        for ob in obs:
            if ob.status == "discharged":
                by_backend[ob.backend] = by_backend.get(ob.backend, 0) + 1
        solver_s = sum(ob.seconds for ob in obs)
        samples = list(self.samples)
        for ob in obs[:3]:
            samples.append({"obligation": ob.name, "status": ob.status, "backend": ob.backend,
                            "goal": str(ob.goal)[:400], "hypotheses": len(ob.pc), "solver_s": round(ob.seconds, 4)})
        und_list = [{"obligation": ob.name, "note": ob.note} for ob in undecided] + \
                   [{"function": l, "note": e} for l, e in spec.undecided]
        achieved = level
        if spec.undecided or undecided:
            achieved = "exploration" if self.bounded else "other"
        cov = {
            "obligations": n_inst,
            "discharged": n_dis,
            "distinct_obligation_names": len(names),
            "paths": spec.path_count,
            "by_backend": by_backend,
            "solver_seconds": round(solver_s + state.STATS.seconds, 3),
            "feasibility_queries": state.STATS.queries,
            "checker_cmd": f"./check {self.prop} --tier {self.tier}",
            "trusted_base": GLOBAL_TRUSTED,
            "functions_under_contract": sorted(spec.functions.values(), key=lambda d: (d["file"], d["function"])),
            "contracts_used_at_call_sites": sorted(f"{a}::{b}" for a, b in spec.used_contracts),
            "undecided": und_list,
            "bounded": self.bounded,
            "known_findings": self.known_lines,
            "samples": samples,
            "notes": self.notes,
            "explanation": level_note,
        }
        if achieved in ("exploration",):
            b = self.bounded or {}
            cov["evaluations"] = int(b.get("evaluations", 0)) or max(1, n_inst)
            cov["distinct_nontrivial"] = int(b.get("distinct_nontrivial", 0)) or max(2, len(names))
            cov["rule"] = b.get("rule", "obligation instances; bounded tier cases")
        if achieved == "other":
            cov["evaluations"] = max(1, n_inst)
            cov["distinct_nontrivial"] = max(2, len(names))
        ev = {
            "property_id": self.prop,
            "tier": self.tier,
            "seed": self.seed,
            "level": achieved,
            "coverage": cov,
            "assumptions": sorted(set(spec.assumptions) | set(models.USED_ASSUMPTIONS) | set(self.extra_assumptions)),
            "wall_s": round(time.time() - self.t0, 3),
            "violations": len(self.violations),
        }
        os.makedirs(os.path.join(ROOT, "evidence"), exist_ok=True)
        with open(os.path.join(ROOT, "evidence", f"{self.prop}.json"), "w") as fh:
            json.dump(ev, fh, indent=1, default=str)
        for line in self.known_lines:
            print(f"KNOWN-FINDING: property={self.prop} {line}")
        print(f"[{self.prop}] tier={self.tier} functions={len(spec.functions)} paths={spec.path_count} "
              f"obligations={n_inst} discharged={n_dis} undecided={len(und_list)} "
              f"violations={len(self.violations)} wall={ev['wall_s']}s")
        if self.engine_fault:
            print(f"ENGINE-FAULT: {self.engine_fault}")
            return 3
        if self.violations:
            for ob, path, found in self.violations:
                tail = "" if found else " no-failing-input-found"
                print(f"VIOLATION property={self.prop} replay={path}{tail}")
            return 1
        if und_list:
            for u in und_list:
                print(f"UNDECIDED: {u}")
            return 2 if not self.bounded else 0 if self.bounded.get("passed") and False else 2
        return 0


def native(script, args=(), env=None, timeout=300, input_json=None):
    """run a replay script with the repository's own interpreter against REPO"""
    e = dict(os.environ)
    e["PYTHONPATH"] = REPO + os.pathsep + ROOT
    e["VERIF_REPO"] = REPO
    if env:
        e.update(env)
    p = subprocess.run([VENV_PY, script, *args], capture_output=True, text=True, env=e, timeout=timeout,
                       input=json.dumps(input_json) if input_json is not None else None, cwd=ROOT)
    return p


def native_json(script, payload, env=None, timeout=300):
    p = native(script, env=env, timeout=timeout, input_json=payload)
    try:
        last = [l for l in p.stdout.splitlines() if l.startswith("{")][-1]
        return json.loads(last), p
    except Exception:
        return None, p
