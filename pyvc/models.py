"""Engine models of built-in containers, operators and library functions.

Everything in this file is part of the trusted base ("the engine's model of Python built-ins");
it is cross-checked against CPython by pyvc/crosscheck.py.  Library functions that are only
*assumed* (json.dumps, hashlib, uuid, itertools.product, sorted, ...) are tagged in ASSUMED and
every use is recorded in the run's assumption list.
"""
from __future__ import annotations
import ast, os, z3
from .core import *
from . import core
from . import objects as O
from .source import OutsideSubset
from .state import PathEnd, PyRaise

USED_ASSUMPTIONS = set()


def assume_lib(name, text):
    USED_ASSUMPTIONS.add(f"{name}: {text}")


class HView:
    """dict view / lazy iterable that is never stored in the heap"""

    def __init__(self, kind, base, extra=None):
        self.kind = kind      # keys | values | items | enumerate | zip | range | setlike | seq | reversed
        self.base = base
        self.extra = extra


EMPTY_SET = z3.K(V, z3.BoolVal(False))


# ----------------------------------------------------------------------------------------------
# helpers on sequences
# ----------------------------------------------------------------------------------------------
def seq_units(seq):
    """host list of element terms of a z3 Seq term that is a concatenation of units, else None"""
    r = core._seq_units_raw(seq)
    return r if r is not None else core._seq_units(seq)


def dict_parts(I, d):
    h = I.st.h
    rid = V.id(d)
    return z3.Select(h.ddom, rid), z3.Select(h.dval, rid), I.st.dict_order(d)


def order_axioms(I, dom, sq, full=False):
    """the order oracle `sq` enumerates `dom` without duplicates"""
    st = I.st
    st.assume(set_term_ax(I, sq) == dom)
    st.assume(sq.n >= 0)
    if not full:
        return None
    i = z3.Const("i!ord", I_)
    k = z3.Const("k!ord", V)
    idx = z3.Function(f"idx!{fresh('f', I_)}", V, I_)
    st.assume(forall([i], z3.Implies(z3.And(i >= 0, i < sq.n),
                                        z3.And(z3.Select(dom, sq.at(i)), idx(sq.at(i)) == i)), [sq.at(i)]))
    st.assume(forall([k], z3.Implies(z3.Select(dom, k),
                                        z3.And(idx(k) >= 0, idx(k) < sq.n, sq.at(idx(k)) == k)), [z3.Select(dom, k)]))
    return idx


def sq_of(I, items):
    return Sq.of([I.lift(x) for x in items])


def concat_ax(I, a, b):
    """a ++ b; for symbolic lengths a fresh array with two-way element axioms (E-matching friendly)"""
    if b.units() is not None:
        return a.concat(b)
    st = I.st
    out = Sq(fresh("cat", VArr), a.n + b.n)
    i = z3.Const("i!cat", I_)
    st.assume(forall([i], z3.Implies(z3.And(i >= 0, i < a.n), out.at(i) == a.at(i)), [out.at(i)]))
    st.assume(forall([i], z3.Implies(z3.And(i >= a.n, i < a.n + b.n), out.at(i) == b.at(i - a.n)), [out.at(i)]))
    st.assume(forall([i], z3.Implies(z3.And(i >= 0, i < a.n), out.at(i) == a.at(i)), [a.at(i)]))
    st.assume(forall([i], z3.Implies(z3.And(i >= 0, i < b.n), out.at(i + a.n) == b.at(i)), [b.at(i)]))
    return out


def set_term_ax(I, sq):
    """element set of a sequence; for symbolic length the defining axioms of SetOfArr are added to the pc"""
    t = sq.set_term()
    if sq.units() is not None:
        return t
    leaves = possible_lengths(I, sq.n)
    if leaves and max(leaves) <= 8:
        # length is one of a few numerals: membership by cases, no quantifier
        k_ = z3.Const("k!sm", V)
        return z3.Lambda([k_], z3.Or([z3.And(sq.n > i_, sq.at(i_) == k_) for i_ in range(max(leaves))] or [z3.BoolVal(False)]))
    st = I.st
    key = ("setofarr", sq.arr.get_id(), sq.n.get_id())
    if key in st.gmemo:
        return t
    st.gmemo[key] = (sq.arr, sq.n)
    i = z3.Const("i!soa", I_)
    k = z3.Const("k!soa", V)
    idx = z3.Function(f"soa_idx!{fresh('f', I_)}", V, I_)
    st.assume(forall([i], z3.Implies(z3.And(i >= 0, i < sq.n), z3.Select(t, sq.at(i))), [sq.at(i)]))
    st.assume(forall([k], z3.Implies(z3.Select(t, k), z3.And(idx(k) >= 0, idx(k) < sq.n, sq.at(idx(k)) == k)), [z3.Select(t, k)]))
    return t


I_ = z3.IntSort()


# ----------------------------------------------------------------------------------------------
# item access
# ----------------------------------------------------------------------------------------------
def norm_index(I, idx, n):
    """python index normalisation; raises IndexError when out of range"""
    t = I.tag(idx)
    if t != "int":
        raise OutsideSubset(f"sequence index of tag {t}")
    i = V.i(idx)
    j = z3.If(i < 0, i + n, i)
    if not I.st.decide(z3.And(j >= 0, j < n), "index-in-range"):
        I.raise_(IndexError, origin=("index",))
    return j


def get_item(I, cont, key):
    st = I.st
    cont = I.lower(cont)
    if isinstance(cont, HView):
        raise OutsideSubset("subscript on a view")
    if isinstance(cont, O.ClassInfo) or isinstance(cont, O.HExt):
        return cont   # typing subscripts like Dict[str, Any]
    if not is_v(cont):
        raise OutsideSubset(f"subscript on {cont!r}")
    key = I.lift(key)
    t = I.tag(cont)
    if t == "tup":
        j = norm_index(I, key, z3.Length(V.items(cont)))
        return st.wf_read(z3.simplify(Nth(V.items(cont), j)))
    if t == "str":
        j = norm_index(I, key, z3.Length(V.s(cont)))
        return vstr(z3.SubString(V.s(cont), j, 1))
    if t == "ref":
        k = I.kind(cont)
        if k == K_DICT:
            dom, val, _ = dict_parts(I, cont)
            st.dict_read(cont, key)
            if not st.decide(z3.Select(dom, key), "key-in-dict"):
                I.raise_(KeyError, key, origin=("getitem",))
            return st.wf_read(z3.Select(val, key))
        if k == K_LIST:
            sq = st.list_sq(cont)
            j = norm_index(I, key, sq.n)
            st.list_read(cont, j)
            return st.wf_read(z3.simplify(sq.at(j)))
        if k == K_INST:
            gi = I.getattr(cont, "__getitem__")
            return I.call(gi, [key])
    if t == "obj":
        return I.spec.obj_getitem(I, cont, key)
    if os.environ.get("PYVC_DEBUG2"):
        print("SUBSCRIPT-FAIL", str(cont)[:200].replace("\n", " "), "mv", st.model_value(cont), "validref", st.valid(V.is_ref(cont)))
        for p_ in st.pc[-6:]:
            print("   PC", str(p_)[:500].replace("\n", " "))
    raise OutsideSubset(f"subscript on value of tag {t}")


def get_slice(I, cont, lo, hi):
    t = I.tag(cont)

    def bounds(n):
        a = z3.IntVal(0) if lo is None else V.i(I.lift(lo))
        b = n if hi is None else V.i(I.lift(hi))
        a = z3.If(a < 0, z3.If(a + n < 0, 0, a + n), z3.If(a > n, n, a))
        b = z3.If(b < 0, z3.If(b + n < 0, 0, b + n), z3.If(b > n, n, b))
        return a, z3.If(b < a, a, b)
    if t == "str":
        a, b = bounds(z3.Length(V.s(cont)))
        return vstr(z3.SubString(V.s(cont), a, b - a))
    if t == "tup":
        a, b = bounds(z3.Length(V.items(cont)))
        return V.tup(z3.SubSeq(V.items(cont), a, b - a))
    if t == "ref" and I.kind(cont) == K_LIST:
        sq = I.st.list_sq(cont)
        a, b = bounds(sq.n)
        return I.st.new_list(sq.slice(a, b))
    raise OutsideSubset("slice on unsupported value")


def set_item(I, cont, key, value):
    st = I.st
    h = st.h
    key = I.lift(key)
    value = I.lift(value)
    if I.tag(cont) != "ref":
        if I.tag(cont) == "obj":
            return I.spec.obj_setitem(I, cont, key, value)
        raise OutsideSubset("item assignment on non-reference")
    k = I.kind(cont)
    rid = V.id(cont)
    if k == K_DICT:
        dom = z3.Select(h.ddom, rid)
        present = z3.Select(dom, key)
        oldlen = z3.Select(h.dlen, rid)
        h.dord = z3.Store(h.dord, rid, z3.If(present, z3.Select(h.dord, rid),
                                              z3.Store(z3.Select(h.dord, rid), oldlen, key)))
        h.dlen = z3.Store(h.dlen, rid, z3.If(present, oldlen, oldlen + 1))
        h.ddom = z3.Store(h.ddom, rid, z3.Store(dom, key, True))
        h.dval = z3.Store(h.dval, rid, z3.Store(z3.Select(h.dval, rid), key, value))
        I.spec.on_write(I, "dict", cont, key)
        return
    if k == K_LIST:
        sq = st.list_sq(cont)
        j = norm_index(I, key, sq.n)
        st.set_list(cont, Sq(z3.Store(sq.arr, j, value), sq.n))
        return
    if k == K_INST:
        return I.call(I.getattr(cont, "__setitem__"), [key, value])
    raise OutsideSubset("item assignment on unknown kind")


def del_item(I, cont, key):
    st = I.st
    h = st.h
    key = I.lift(key)
    if I.tag(cont) == "ref" and I.kind(cont) == K_DICT:
        rid = V.id(cont)
        dom = z3.Select(h.ddom, rid)
        if not st.decide(z3.Select(dom, key), "del-key-in-dict"):
            I.raise_(KeyError, key, origin=("delitem",))
        h.ddom = z3.Store(h.ddom, rid, z3.Store(dom, key, False))
        h.dlen = z3.Store(h.dlen, rid, z3.Select(h.dlen, rid) - 1)
        h.dord = z3.Store(h.dord, rid, fresh("ord_after_del", VArr))
        I.spec.on_write(I, "dict", cont, key)
        return
    raise OutsideSubset("del item on unsupported container")


def dict_update(I, d, other):
    """d.update(other) / {**other}"""
    st = I.st
    h = st.h
    other = I.lower(other)
    if I.tag(other) == "ref" and I.kind(other) == K_DICT:
        units = st.dict_order(other).units()
        if units is not None:
            for kx in units:
                set_item(I, d, kx, z3.Select(z3.Select(h.dval, V.id(other)), kx))
            return
        rid, oid = V.id(d), V.id(other)
        dom, odom = z3.Select(h.ddom, rid), z3.Select(h.ddom, oid)
        val, oval = z3.Select(h.dval, rid), z3.Select(h.dval, oid)
        k = z3.Const("k!upd", V)
        ndom = z3.Lambda([k], z3.Or(z3.Select(dom, k), z3.Select(odom, k)))
        nval = z3.Lambda([k], z3.If(z3.Select(odom, k), z3.Select(oval, k), z3.Select(val, k)))
        n = fresh("card", I_)
        st.assume(n >= z3.Select(h.dlen, rid))
        st.assume(n >= z3.Select(h.dlen, oid))
        st.assume(n <= z3.Select(h.dlen, rid) + z3.Select(h.dlen, oid))
        h.ddom = z3.Store(h.ddom, rid, ndom)
        h.dval = z3.Store(h.dval, rid, nval)
        h.dlen = z3.Store(h.dlen, rid, n)
        h.dord = z3.Store(h.dord, rid, fresh("ord_after_update", VArr))
        I.spec.on_write(I, "dict", d, None)
        return
    import os as _os
    if _os.environ.get("PYVC_DBG_UPD"):
        import sys as _sys; _sys.path.insert(0, "/tmp"); import dbg_hook; dbg_hook.dump(I, other)
    raise OutsideSubset(f"dict.update with unsupported argument (tag={I.tag(other)}, kind={I.kind(other) if I.tag(other)=='ref' else None}, term={str(other)[:80]})")


def set_add(I, s, x):
    h = I.st.h
    rid = V.id(s)
    x = I.lift(x)
    dom = z3.Select(h.sdom, rid)
    present = z3.Select(dom, x)
    h.slen = z3.Store(h.slen, rid, z3.If(present, z3.Select(h.slen, rid), z3.Select(h.slen, rid) + 1))
    h.sdom = z3.Store(h.sdom, rid, z3.Store(dom, x, True))


def contains(I, cont, x):
    st = I.st
    h = st.h
    cont = I.lower(cont)
    if isinstance(cont, HView):
        if cont.kind == "keys":
            return contains(I, cont.base, x)
        if cont.kind == "setlike":
            return z3.Select(cont.base, I.lift(x))
        if cont.kind == "seq":
            return z3.Select(set_term_ax(I, cont.base), I.lift(x))
        raise OutsideSubset(f"'in' on view {cont.kind}")
    if not is_v(cont):
        raise OutsideSubset(f"'in' on {cont!r}")
    x = I.lift(x)
    t = I.tag(cont)
    if t == "str":
        if I.tag(x) != "str":
            I.raise_(TypeError, origin=("in-str",))
        return z3.Contains(V.s(cont), V.s(x))
    if t == "tup":
        units = seq_units(V.items(cont))
        if units is not None:
            return z3.Or([I.veq(x, u) for u in units]) if units else z3.BoolVal(False)
        return z3.Select(set_term_ax(I, Sq.from_tuple(cont)), x)
    if t == "ref":
        k = I.kind(cont)
        rid = V.id(cont)
        if k == K_DICT:
            return z3.Select(z3.Select(h.ddom, rid), x)
        if k == K_SET:
            return z3.Select(z3.Select(h.sdom, rid), x)
        if k == K_LIST:
            units = st.list_sq(cont).units()
            if units is not None:
                return z3.Or([I.veq(x, u) for u in units]) if units else z3.BoolVal(False)
            return z3.Select(set_term_ax(I, st.list_sq(cont)), x)
        if k == K_INST:
            r = I.call(I.getattr(cont, "__contains__"), [x])
            return I.truthy(r)
    if t == "obj":
        return I.spec.obj_contains(I, cont, x)
    raise OutsideSubset(f"'in' on value of tag {t}")


def order(I, op, a, b):
    a, b = I.lift(a), I.lift(b)
    ta, tb = I.tag(a), I.tag(b)
    num = ("int", "real")
    if ta in num and tb in num:
        x = V.i(a) if ta == "int" else V.r(a)
        y = V.i(b) if tb == "int" else V.r(b)
        if ta != tb:
            x = z3.ToReal(x) if ta == "int" else x
            y = z3.ToReal(y) if tb == "int" else y
        return {ast.Lt: x < y, ast.LtE: x <= y, ast.Gt: x > y, ast.GtE: x >= y}[type(op)]
    if ta == "str" and tb == "str":
        x, y = V.s(a), V.s(b)
        return {ast.Lt: x < y, ast.LtE: x <= y, ast.Gt: y < x, ast.GtE: y <= x}[type(op)]
    return I.spec.order_unknown(I, op, a, b)


def binop(I, op, a, b, inplace=False):
    st = I.st
    a = I.lower(a)
    b = I.lower(b)
    if isinstance(a, (O.ClassInfo, O.HExt)) and isinstance(op, ast.BitOr):
        return a   # typing unions
    a, b = I.lift(a), I.lift(b)
    ta, tb = I.tag(a), I.tag(b)
    if ta == "int" and tb == "int":
        x, y = V.i(a), V.i(b)
        if isinstance(op, ast.Add):
            return vint(x + y)
        if isinstance(op, ast.Sub):
            return vint(x - y)
        if isinstance(op, ast.Mult):
            return vint(x * y)
        if isinstance(op, (ast.FloorDiv, ast.Mod)):
            if not st.decide(y != 0, "div-nonzero"):
                I.raise_(ZeroDivisionError, origin=("div",))
            # python floor semantics: z3 div/mod are euclidean
            q = z3.If(y > 0, x / y, -((-x) / (-y))) if False else None
            fl = z3.If(y > 0, x / y, (-x) / (-y))
            if isinstance(op, ast.FloorDiv):
                return vint(fl)
            return vint(x - y * fl)
        if isinstance(op, ast.Div):
            if not st.decide(y != 0, "div-nonzero"):
                I.raise_(ZeroDivisionError, origin=("div",))
            return V.real(z3.ToReal(x) / z3.ToReal(y))
    num = ("int", "real")
    if ta in num and tb in num:
        x = z3.ToReal(V.i(a)) if ta == "int" else V.r(a)
        y = z3.ToReal(V.i(b)) if tb == "int" else V.r(b)
        if isinstance(op, ast.Add):
            return V.real(x + y)
        if isinstance(op, ast.Sub):
            return V.real(x - y)
        if isinstance(op, ast.Mult):
            return V.real(x * y)
        if isinstance(op, ast.Div):
            if not st.decide(y != 0, "div-nonzero"):
                I.raise_(ZeroDivisionError, origin=("div",))
            return V.real(x / y)
    if ta == "str" and tb == "str" and isinstance(op, ast.Add):
        return vstr(z3.Concat(V.s(a), V.s(b)))
    if ta == "tup" and tb == "tup" and isinstance(op, ast.Add):
        return V.tup(z3.Concat(V.items(a), V.items(b)))
    if ta == "ref" and tb == "ref":
        ka, kb = I.kind(a), I.kind(b)
        h = st.h
        if ka == K_LIST and kb == K_LIST and isinstance(op, ast.Add):
            new = concat_ax(I, st.list_sq(a), st.list_sq(b))
            if inplace:
                st.set_list(a, new)
                return a
            return st.new_list(new)
        if ka == K_SET and kb == K_SET:
            da, db = z3.Select(h.sdom, V.id(a)), z3.Select(h.sdom, V.id(b))
            k = z3.Const("k!set", V)
            if isinstance(op, ast.Sub):
                nd = z3.Lambda([k], z3.And(z3.Select(da, k), z3.Not(z3.Select(db, k))))
            elif isinstance(op, ast.BitOr):
                nd = z3.Lambda([k], z3.Or(z3.Select(da, k), z3.Select(db, k)))
            elif isinstance(op, ast.BitAnd):
                nd = z3.Lambda([k], z3.And(z3.Select(da, k), z3.Select(db, k)))
            else:
                raise OutsideSubset("set operator")
            if inplace:
                n = fresh("card", I_)
                st.assume(n >= 0)
                st.assume((n == 0) == (nd == EMPTY_SET))
                h.sdom = z3.Store(h.sdom, V.id(a), nd)
                h.slen = z3.Store(h.slen, V.id(a), n)
                return a
            return st.new_set(nd)
    return I.spec.binop_unknown(I, op, a, b)


def to_str(I, x):
    """z3 String for str(x) / f'{x}'"""
    x = I.lower(x)
    if isinstance(x, O.ClassInfo):
        return z3.StringVal(f"<class '{x.name}'>")
    if isinstance(x, O.HExc):
        return StrOf(V.fn(z3.IntVal(O.func_id(x))))
    x = I.lift(x)
    if I.tag(x) == "str":
        return V.s(x)
    if I.tag(x) == "int":
        return z3.IntToStr(V.i(x)) if False else StrOf(x)
    return StrOf(x)


def unpack(I, v, n):
    if isinstance(v, list):
        items = v
    else:
        items = iterate_concrete(I, v)
    if items is None:
        if n is None:
            raise OutsideSubset("unpacking a sequence of unknown length")
        if is_v(v) and I.tag(v) == "tup":
            # a symbolic tuple of the required arity: its components are the elements of its item sequence
            raw = V.items(v)
            if not I.st.decide(z3.Length(raw) == n, "unpack-len"):
                I.raise_(ValueError, origin=("unpack",))
            return [I.st.wf_read(z3.simplify(raw[i])) for i in range(n)]
        sq = iterate_seq(I, v)
        if not I.st.decide(sq.n == n, "unpack-len"):
            I.raise_(ValueError, origin=("unpack",))
        return [I.st.wf_read(z3.simplify(sq.at(i))) for i in range(n)]
    if n is not None and len(items) != n:
        I.raise_(ValueError, origin=("unpack",))
    return items


# ----------------------------------------------------------------------------------------------
# iteration
# ----------------------------------------------------------------------------------------------
def _ite_leaves(t, out, depth=0):
    t = z3.simplify(t)
    if z3.is_int_value(t):
        out.add(t.as_long())
        return True
    if z3.is_app(t) and t.decl().kind() == z3.Z3_OP_ITE and depth < 8:
        return _ite_leaves(t.arg(1), out, depth + 1) and _ite_leaves(t.arg(2), out, depth + 1)
    return False


def _mentions_ite(t):
    stack = [t]
    seen = set()
    while stack:
        x = stack.pop()
        if x.get_id() in seen:
            continue
        seen.add(x.get_id())
        if z3.is_app(x) and x.decl().kind() == z3.Z3_OP_ITE:
            return True
        stack.extend(x.children())
    return False


def state_has_q(p):
    from .state import has_quantifier
    return has_quantifier(p)


def possible_lengths(I, n):
    """the few numerals a length term can take (syntactically, else by asking the solver); None if unbounded/unknown"""
    leaves = set()
    if _ite_leaves(n, leaves):
        return leaves
    if not _mentions_ite(n):
        return None
    leaves = set()
    st = I.st
    for _ in range(7):
        s_ = z3.Solver()
        s_.set("timeout", 2000)
        for p_ in st.pc:
            if not state_has_q(p_):
                s_.add(p_)
        for kv in leaves:
            s_.add(n != kv)
        r_ = s_.check()
        if r_ == z3.unsat:
            return leaves
        if r_ != z3.sat:
            return None
        v_ = s_.model().eval(n, model_completion=True)
        if not z3.is_int_value(v_):
            return None
        leaves.add(v_.as_long())
    return None


def fix_small_length(I, sq):
    """if the length is one of a few numerals, fork on its value and return the elements"""
    if sq.units() is not None:
        return sq.units()
    leaves = possible_lengths(I, sq.n)
    if not leaves and "!hv!" in str(z3.simplify(sq.n))[:400]:
        # a length read through a loop frame: unchanged objects keep a length the path condition may fix outright
        mv = I.st.model_value(sq.n)
        if mv is not None and z3.is_int_value(mv) and 0 <= mv.as_long() <= 32 and I.st.valid(sq.n == mv):
            return [z3.simplify(sq.at(i)) for i in range(mv.as_long())]
    if not leaves or len(leaves) > 6 or max(leaves) > 32:
        return None
    for k in sorted(leaves):
        if I.st.decide(sq.n == k, f"len=={k}"):
            return [z3.simplify(sq.at(i)) for i in range(k)]
    raise PathEnd()


def iterate_concrete(I, it):
    """host list of the elements if the iterable has a syntactically known length, else None"""
    r = _iterate_concrete(I, it)
    if r is None:
        it2 = I.lower(it)
        st = I.st
        if is_v(it2) and I.tag(it2, cheap=True) == "ref":
            k = I.kind(it2)
            if k == K_LIST:
                return fix_small_length(I, st.list_sq(it2))
            if k == K_DICT:
                return fix_small_length(I, st.dict_order(it2))
        if is_v(it2) and I.tag(it2, cheap=True) == "tup" or (is_v(it2) and not isinstance(it2, HView) and I.tag(it2) == "tup"):
            # a symbolic tuple whose arity the path condition fixes: its components
            raw = V.items(it2)
            mv = st.model_value(z3.Length(raw))
            if mv is not None and z3.is_int_value(mv) and 0 <= mv.as_long() <= 16 and st.valid(z3.Length(raw) == mv):
                return [z3.simplify(raw[i]) for i in range(mv.as_long())]
        if isinstance(it2, HView) and it2.kind in ("keys", "items", "values"):
            u = fix_small_length(I, st.dict_order(it2.base))
            if u is not None:
                return _iterate_concrete(I, it2, u)
    return r


def _iterate_concrete(I, it, forced_units=None):
    st = I.st
    h = st.h
    it = I.lower(it)
    if isinstance(it, list):
        return it
    if isinstance(it, HView):
        if it.kind == "range":
            lo, hi = it.base
            lo_s, hi_s = z3.simplify(lo), z3.simplify(hi)
            if z3.is_int_value(lo_s) and z3.is_int_value(hi_s):
                return [vint(i) for i in range(lo_s.as_long(), hi_s.as_long())]
            return None
        if it.kind == "enumerate":
            items = iterate_concrete(I, it.base)
            if items is None:
                return None
            return [vtup([vint(i), I.lift(x)]) for i, x in enumerate(items)]
        if it.kind == "zip":
            lists = [iterate_concrete(I, b) for b in it.base]
            if any(l is None for l in lists):
                return None
            return [vtup([I.lift(x) for x in tpl]) for tpl in zip(*lists)]
        if it.kind == "reversed":
            items = iterate_concrete(I, it.base)
            return None if items is None else list(reversed(items))
        if it.kind in ("keys", "values", "items"):
            dom, val, ordsq = dict_parts(I, it.base)
            units = forced_units if forced_units is not None else ordsq.units()
            if units is None:
                return None
            if it.kind == "keys":
                return units
            if it.kind == "values":
                return [st.wf_read(z3.Select(val, k)) for k in units]
            return [vtup([k, st.wf_read(z3.Select(val, k))]) for k in units]
        if it.kind == "seq":
            return it.base.units()
        return None
    if not is_v(it):
        raise OutsideSubset(f"iteration over {it!r}")
    t = I.tag(it)
    if t == "tup":
        return seq_units(V.items(it))
    if t == "str":
        s = z3.simplify(V.s(it))
        if z3.is_string_value(s):
            return [vstr(c) for c in s.as_string()]
        return None
    if t == "ref":
        k = I.kind(it)
        if k == K_LIST:
            return st.list_sq(it).units()
        if k == K_DICT:
            return st.dict_order(it).units()
        if k == K_SET:
            dom = z3.simplify(z3.Select(h.sdom, V.id(it)))
            elems = _store_chain(dom)
            return elems
    return None


def _store_chain(dom):
    """elements of a set term of the form Store(...Store(K(false), a, true)..., z, true), deduplicated
    only when all elements are distinct constants; else None"""
    elems = []
    t = dom
    while True:
        if z3.is_app(t) and t.decl().kind() == z3.Z3_OP_STORE:
            if not z3.is_true(t.arg(2)):
                return None
            elems.append(t.arg(1))
            t = t.arg(0)
        elif z3.is_app(t) and t.decl().kind() == z3.Z3_OP_CONST_ARRAY:
            if z3.is_false(t.arg(0)):
                break
            return None
        else:
            return None
    # need pairwise distinct concrete values
    vals = [z3.simplify(e) for e in elems]
    for i in range(len(vals)):
        for j in range(i + 1, len(vals)):
            d = z3.simplify(vals[i] == vals[j])
            if not z3.is_false(d):
                return None
    return list(reversed(vals))


def iterate_seq(I, it, full=False):
    """Sq enumerating the iterable (order oracles for dict/set)"""
    st = I.st
    h = st.h
    it = I.lower(it)
    if isinstance(it, Sq):
        return it
    if isinstance(it, list):
        return sq_of(I, it)
    if isinstance(it, HView):
        if it.kind == "seq":
            return it.base
        if it.kind == "setlike":
            o = Sq(fresh("setord", VArr), fresh("setcard", I_))
            order_axioms(I, it.base, o, full=full)
            return o
        if it.kind in ("keys", "values", "items"):
            dom, val, ordsq = dict_parts(I, it.base)
            order_axioms(I, dom, ordsq, full=full)
            if it.kind == "keys":
                return ordsq
            i = z3.Const("i!view", I_)
            elem = z3.Select(val, ordsq.at(i))
            if it.kind == "items":
                elem = V.tup(z3.Concat(z3.Unit(ordsq.at(i)), z3.Unit(elem)))
            return Sq(z3.Lambda([i], elem), ordsq.n)
        if it.kind == "enumerate":
            base = iterate_seq(I, it.base, full)
            i = z3.Const("i!enum", I_)
            return Sq(z3.Lambda([i], V.tup(z3.Concat(z3.Unit(V.int(i)), z3.Unit(base.at(i))))), base.n)
        if it.kind == "range":
            lo, hi = it.base
            i = z3.Const("i!rng", I_)
            return Sq(z3.Lambda([i], V.int(lo + i)), z3.If(hi > lo, hi - lo, 0))
        raise OutsideSubset(f"symbolic iteration over view {it.kind}")
    if not is_v(it):
        raise OutsideSubset(f"iteration over {it!r}")
    t = I.tag(it)
    if t == "tup":
        return Sq.from_tuple(it)
    if t == "ref":
        k = I.kind(it)
        rid = V.id(it)
        if k == K_LIST:
            return st.list_sq(it)
        if k == K_DICT:
            dom, val, ordsq = dict_parts(I, it)
            order_axioms(I, dom, ordsq, full=full)
            return ordsq
        if k == K_SET:
            o = Sq(fresh("setord", VArr), z3.Select(h.slen, rid))
            order_axioms(I, z3.Select(h.sdom, rid), o, full=full)
            return o
        if k == K_INST:
            return I.spec.iterate_instance(I, it)
    if t == "obj":
        return I.spec.iterate_obj(I, it)
    if t == "none":
        I.raise_(TypeError, origin=("iter-none",))
    if os.environ.get("PYVC_DEBUG2"):
        print("ITER-FAIL", str(it)[:300].replace("\n", " "), "mv", st.model_value(it), "validref", st.valid(V.is_ref(it)))
        from .state import has_quantifier as _hq
        print("   dropped:", sum(1 for p_ in st.pc if _hq(p_)), "of", len(st.pc))
        for p_ in st.pc[-8:]:
            print("   PC", "Q" if _hq(p_) else " ", str(p_)[:300].replace("\n", " "))
    raise OutsideSubset(f"iteration over value of tag {t}")


def as_set_term(I, it):
    """VSet term of the elements of an iterable (dict keys / set / list / view)"""
    h = I.st.h
    it = I.lower(it)
    if isinstance(it, HView):
        if it.kind == "setlike":
            return it.base
        if it.kind == "keys":
            return as_set_term(I, it.base)
        if it.kind == "seq":
            return set_term_ax(I, it.base)
        raise OutsideSubset(f"set() of view {it.kind}")
    items = iterate_concrete(I, it)
    if items is not None:
        d = EMPTY_SET
        for u in items:
            d = z3.Store(d, I.lift(u), True)
        return d
    t = I.tag(it)
    if t == "ref":
        k = I.kind(it)
        if k == K_DICT:
            return z3.Select(h.ddom, V.id(it))
        if k == K_SET:
            return z3.Select(h.sdom, V.id(it))
        if k == K_LIST:
            return set_term_ax(I, I.st.list_sq(it))
    if t == "tup":
        return set_term_ax(I, Sq.from_tuple(it))
    if t == "none":
        I.raise_(TypeError, origin=("iter-none",))
    raise OutsideSubset("set() of unsupported iterable")


# ----------------------------------------------------------------------------------------------
# comprehensions
# ----------------------------------------------------------------------------------------------
def comprehension(I, e, env, kind):
    from .interp import Env
    st = I.st
    gens = e.generators
    if any(g.is_async for g in gens):
        raise OutsideSubset("async comprehension")
    inner = Env(env.module, env, env.func)
    results = []
    # module-level constants (set/dict literals) are allocated on first use: force that before the body is
    # evaluated under the "no heap effect" discipline
    for n_ in ast.walk(e):
        if isinstance(n_, ast.Name) and isinstance(n_.ctx, ast.Load) and not env.lookup(n_.id)[1]:
            if n_.id in env.module.assigns:
                try:
                    I.resolve_global(env.module, n_.id)
                except OutsideSubset:
                    pass

    def emit():
        if kind == "dict":
            results.append((I.lift(I.ev(e.key, inner)), I.lift(I.ev(e.value, inner))))
        else:
            results.append(I.lift(I.ev(e.elt, inner)))

    def rec(gi):
        if gi == len(gens):
            emit()
            return True
        g = gens[gi]
        it = I.ev(g.iter, inner)
        items = iterate_concrete(I, it)
        if items is None:
            return False
        for x in items:
            I.assign_target(g.target, x, inner)
            ok = True
            for c in g.ifs:
                if not st.decide(I.truthy(I.ev(c, inner)), "comp-if"):
                    ok = False
                    break
            if ok:
                if not rec(gi + 1):
                    raise OutsideSubset("nested comprehension over symbolic inner iterable")
        return True

    if len(gens) >= 1:
        snap_len = len(results)
        first_it = I.ev(gens[0].iter, inner)
        items = iterate_concrete(I, first_it)
        if items is not None and len(gens) == 1 and gens[0].ifs and kind in ("dict", "list", "set"):
            r = _concrete_filtered(I, e, inner, kind, items)
            if r is not None:
                return r
        if items is not None:
            # re-run through rec with the already evaluated iterable
            for x in items:
                I.assign_target(gens[0].target, x, inner)
                ok = True
                for c in gens[0].ifs:
                    if not st.decide(I.truthy(I.ev(c, inner)), "comp-if"):
                        ok = False
                        break
                if ok and not rec(1):
                    raise OutsideSubset("nested comprehension over symbolic inner iterable")
            return _build(I, kind, results)
        if len(gens) == 1:
            return _symbolic_comp(I, e, env, inner, kind, first_it)
    raise OutsideSubset("comprehension over symbolic iterable (nested)")


def _concrete_filtered(I, e, inner, kind, items):
    """single-generator comprehension with a filter over a known number of elements: conditional inserts,
    no path split per element (falls back to forking when an element expression forks or may raise)"""
    st = I.st
    g = e.generators[0]
    snap = st.snapshot()
    envsnap = dict(inner.vars)
    try:
        if kind == "dict":
            out = st.new_dict()
        elif kind == "set":
            out = st.new_set()
        else:
            out = st.new_list()
        rid = V.id(out)
        h = st.h
        for x in items:
            I.assign_target(g.target, x, inner)

            def cond():
                c = z3.BoolVal(True)
                for cnd in g.ifs:
                    c = z3.And(c, I.truthy(I.ev(cnd, inner)))
                return c
            c = pure_eval(I, cond)
            st.pc.append(c)
            try:
                if kind == "dict":
                    kv = pure_eval(I, lambda: (I.lift(I.ev(e.key, inner)), I.lift(I.ev(e.value, inner))))
                else:
                    kv = pure_eval(I, lambda: I.lift(I.ev(e.elt, inner)))
            finally:
                st.pc.pop()
            h = st.h
            if kind == "dict":
                key, val = kv
                dom = z3.Select(h.ddom, rid)
                present = z3.Select(dom, key)
                oldlen = z3.Select(h.dlen, rid)
                h.dord = z3.Store(h.dord, rid, z3.If(z3.And(c, z3.Not(present)), z3.Store(z3.Select(h.dord, rid), oldlen, key), z3.Select(h.dord, rid)))
                h.dlen = z3.Store(h.dlen, rid, z3.If(z3.And(c, z3.Not(present)), oldlen + 1, oldlen))
                h.ddom = z3.Store(h.ddom, rid, z3.If(c, z3.Store(dom, key, True), dom))
                h.dval = z3.Store(h.dval, rid, z3.If(c, z3.Store(z3.Select(h.dval, rid), key, val), z3.Select(h.dval, rid)))
            elif kind == "set":
                dom = z3.Select(h.sdom, rid)
                present = z3.Select(dom, kv)
                h.slen = z3.Store(h.slen, rid, z3.If(z3.And(c, z3.Not(present)), z3.Select(h.slen, rid) + 1, z3.Select(h.slen, rid)))
                h.sdom = z3.Store(h.sdom, rid, z3.If(c, z3.Store(dom, kv, True), dom))
            else:
                n = z3.Select(h.llen, rid)
                h.larr = z3.Store(h.larr, rid, z3.If(c, z3.Store(z3.Select(h.larr, rid), n, kv), z3.Select(h.larr, rid)))
                h.llen = z3.Store(h.llen, rid, z3.If(c, n + 1, n))
        return out
    except OutsideSubset:
        st.restore(snap)
        inner.vars = envsnap
        return None


def _build(I, kind, results):
    st = I.st
    if kind == "list":
        return st.new_list(Sq.of(results))
    if kind == "gen":
        return HView("seq", Sq.of(results))
    if kind == "set":
        s = st.new_set()
        for x in results:
            set_add(I, s, x)
        return s
    d = st.new_dict()
    for k, v in results:
        set_item(I, d, k, v)
    return d


def pure_eval(I, fn):
    """run fn() requiring a single path and no heap effect; returns its value"""
    st = I.st
    saved = st.oracle
    ntrail = len(saved.trail)

    class Strict:
        trail = saved.trail
        prefix = saved.prefix

        def choose(self, n, label=""):
            raise OutsideSubset(f"comprehension body forks ({label})")
    hb = [c for _, c in st.h.components()]
    st.oracle = Strict()
    try:
        r = fn()
    except PyRaise:
        raise OutsideSubset("comprehension body may raise")
    finally:
        st.oracle = saved
    ha = [c for _, c in st.h.components()]
    if len(hb) != len(ha) or any(not a.eq(b) for a, b in zip(ha, hb)):
        raise OutsideSubset("comprehension body has a heap effect")
    return r


def _dict_from_keys(I, e, inner, g, dom, arr, n, xb, src_dict):
    st = I.st
    st.pc.append(z3.Select(dom, xb))
    npc = len(st.pc)
    try:
        inner.vars[g.target.id] = xb
        if src_dict is not None:
            st.dict_read(src_dict, xb)
        val = pure_eval(I, lambda: I.lift(I.ev(e.value, inner)))
        extra = st.pc[npc:]
    finally:
        del st.pc[npc - 1:]
    if extra:
        st.assume(forall([xb], z3.Implies(z3.Select(dom, xb), z3.And(extra))))
    k = z3.Const("k!dc", V)
    d = st.new_dict()
    rid = V.id(d)
    st.h.ddom = z3.Store(st.h.ddom, rid, dom)
    st.h.dval = z3.Store(st.h.dval, rid, z3.Lambda([k], z3.substitute(val, (xb, k))))
    st.h.dlen = z3.Store(st.h.dlen, rid, n)
    st.h.dord = z3.Store(st.h.dord, rid, arr)
    return d


def _symbolic_comp(I, e, env, inner, kind, it):
    """single-generator comprehension over a symbolic iterable"""
    st = I.st
    g = e.generators[0]
    it = I.lower(it)
    setlike_src = None
    if isinstance(it, HView) and it.kind in ("setlike", "keys"):
        setlike_src = as_set_term(I, it)
    elif is_v(it) and I.tag(it) == "ref" and I.kind(it) in (K_DICT, K_SET):
        setlike_src = as_set_term(I, it)
    xb = fresh("cx")
    items_of = None
    if (isinstance(it, HView) and it.kind == "items" and isinstance(g.target, ast.Tuple) and len(g.target.elts) == 2
            and all(isinstance(t_, ast.Name) for t_ in g.target.elts) and kind != "dict"):
        items_of = it.base
        setlike_src = as_set_term(I, it.base)
    if setlike_src is not None and (isinstance(g.target, ast.Name) or items_of is not None) and kind != "dict":
        st.pc.append(z3.Select(setlike_src, xb))
        npc = len(st.pc)
        try:
            if items_of is not None:
                inner.vars[g.target.elts[0].id] = xb
                inner.vars[g.target.elts[1].id] = z3.Select(z3.Select(st.h.dval, V.id(items_of)), xb)
            else:
                inner.vars[g.target.id] = xb

            def body():
                if items_of is not None:
                    st.dict_read(items_of, xb)
                    st.wf_read(inner.vars[g.target.elts[1].id])
                c = z3.BoolVal(True)
                for cnd in g.ifs:
                    c = z3.And(c, I.truthy(I.ev(cnd, inner)))
                elt = I.lift(I.ev(e.elt, inner))
                return c, elt
            c, elt = pure_eval(I, body)
            extra = st.pc[npc:]
        finally:
            del st.pc[npc - 1:]
        if extra:
            # facts learnt about the bound element hold for every element of the source
            st.assume(forall([xb], z3.Implies(z3.Select(setlike_src, xb), z3.And(extra))))
        if elt.eq(xb):
            k = z3.Const("k!comp", V)
            dom = z3.Lambda([k], z3.And(z3.Select(setlike_src, k), z3.substitute(c, (xb, k))))
            if kind == "set":
                return st.new_set(dom)
            if kind == "gen":
                return HView("setlike", dom)
            o = Sq(fresh("compord", VArr), fresh("compcard", I_))
            order_axioms(I, dom, o)
            return st.new_list(o)
        if kind == "gen":
            # any/all over a predicate of the elements: keep as a predicate view
            return HView("setpred", (setlike_src, xb, c, elt))
        raise OutsideSubset("comprehension maps a set-like source")
    if kind == "dict" and not g.ifs and isinstance(g.target, ast.Name) and isinstance(e.key, ast.Name) and e.key.id == g.target.id:
        src = it.base if isinstance(it, HView) and it.kind == "keys" else it
        if is_v(src) and I.tag(src) == "ref" and I.kind(src) == K_DICT:
            # {x: f(x) for x in d}: same keys, in d's own (insertion) order
            rid = V.id(src)
            return _dict_from_keys(I, e, inner, g, z3.Select(st.h.ddom, rid), z3.Select(st.h.dord, rid), z3.Select(st.h.dlen, rid), xb, src)
    # sequence source: element-wise map (no filter)
    seq = iterate_seq(I, it)
    if isinstance(it, HView) and it.kind == "range":
        xi = fresh("ci", I_)
        xb_range = V.int(xi)
    else:
        xb_range = None
    if kind == "list" and not g.ifs and _allocates(e.elt):
        return _opaque_allocating_map(I, e, inner, seq, xb_range, it)
    if kind in ("list", "gen") and not g.ifs:
        # element-wise map: evaluate the element expression once for the element at an arbitrary index
        xi = fresh("ci", I_)
        src_l = I.lower(it)
        if xb_range is not None:
            xe = xb_range
            guard = z3.And(xi >= 0, xi < seq.n, V.i(xb_range) == it.base[0] + xi)
        else:
            xe = seq.at(xi)
            guard = z3.And(xi >= 0, xi < seq.n)
        st.pc.append(guard)
        npc = len(st.pc)
        try:
            if xb_range is None and is_v(src_l) and I.tag(src_l, cheap=True) == "ref" and I.kind(src_l) == K_LIST:
                st.list_read(src_l, xi)
            if xb_range is None:
                xe = st.wf_read(xe)
            I.assign_target(g.target, xe, inner)
            elt = pure_eval(I, lambda: I.lift(I.ev(e.elt, inner)))
            extra = st.pc[npc:]
        finally:
            del st.pc[npc - 1:]
        i = z3.Const("i!map", I_)
        if xb_range is not None:
            elt = z3.substitute(elt, (xb_range, V.int(it.base[0] + xi)))
            extra = [z3.substitute(x_, (xb_range, V.int(it.base[0] + xi))) for x_ in extra]
        if extra:
            st.assume(z3.ForAll([i], z3.Implies(z3.And(i >= 0, i < seq.n), z3.substitute(z3.And(extra), (xi, i)))))
        if kind == "list" and getattr(I.spec, "map_as_axiom", False):
            # opt-in: the mapped list is a fresh array constrained pointwise (quantified axiom + instance at every index read)
            # instead of a lambda term, which keeps the heap quantifier-free for the dispatch / first discharge stages
            arr = fresh("mapped", VArr)
            n_ = seq.n
            st.assume(z3.ForAll([i], z3.Implies(z3.And(i >= 0, i < n_), z3.Select(arr, i) == z3.substitute(elt, (xi, i)))))
            st.list_instantiators.append(lambda lid, idx, _arr=arr, _elt=elt, _xi=xi, _n=n_: z3.Implies(z3.And(idx >= 0, idx < _n),
                                                                                                      z3.Select(_arr, idx) == z3.substitute(_elt, (_xi, idx))))
            return st.new_list(Sq(arr, n_))
        out = Sq(z3.Lambda([i], z3.substitute(elt, (xi, i))), seq.n)
        if kind == "gen":
            xb2 = fresh("cx")
            return HView("seqpred", (seq, xb2, z3.substitute(elt, (seq.at(xi), xb2)) if xb_range is None else elt, out))
        return st.new_list(out)
    if kind == "list" and g.ifs:
        # filtered list: a fresh sequence whose element set is the filtered source; empty iff nothing passes
        I.assign_target(g.target, xb, inner)

        def body2():
            c = z3.BoolVal(True)
            for cnd in g.ifs:
                c = z3.And(c, I.truthy(I.ev(cnd, inner)))
            return c, I.lift(I.ev(e.elt, inner))
        c, elt = pure_eval(I, body2)
        out = Sq(fresh("filt", VArr), fresh("filtn", I_))
        i = z3.Const("i!flt", I_)
        j = z3.Const("j!flt", I_)
        sub = lambda t, at: z3.substitute(t, (xb, at))
        st.assume(out.n >= 0)
        st.assume(out.n <= seq.n)
        st.assume((out.n == 0) == z3.ForAll([i], z3.Implies(z3.And(i >= 0, i < seq.n), z3.Not(sub(c, seq.at(i))))))
        src = z3.Function(f"src!{fresh('f', I_)}", I_, I_)
        st.assume(forall([j], z3.Implies(z3.And(j >= 0, j < out.n),
                                            z3.And(src(j) >= 0, src(j) < seq.n, sub(c, seq.at(src(j))),
                                                   out.at(j) == sub(elt, seq.at(src(j))))), [out.at(j)]))
        return st.new_list(out)
    if kind == "dict" and not g.ifs and isinstance(g.target, ast.Name) and isinstance(e.key, ast.Name) and e.key.id == g.target.id:
        # {x: f(x) for x in sorted(<set-like>)}: the keys are the (pairwise distinct) elements of the sorted source, inserted in
        # that order; the values are a function of the key
        arr = z3.simplify(seq.arr)
        if z3.is_app(arr) and arr.decl().name() == "SortedArr":
            return _dict_from_keys(I, e, inner, g, arr.arg(0), arr, seq.n, xb, None)
        raise OutsideSubset("dict comprehension over a symbolic sequence that is not sorted(<set-like>)")
    if kind == "gen" and g.ifs:
        I.assign_target(g.target, xb, inner)

        def body():
            c = z3.BoolVal(True)
            for cnd in g.ifs:
                c = z3.And(c, I.truthy(I.ev(cnd, inner)))
            return c, I.lift(I.ev(e.elt, inner))
        c, elt = pure_eval(I, body)
        return HView("seqfilter", (seq, xb, c, elt))
    raise OutsideSubset("comprehension over a symbolic sequence with filter")


def _allocates(expr):
    for n in ast.walk(expr):
        if isinstance(n, (ast.Dict, ast.List, ast.Set, ast.ListComp, ast.DictComp, ast.SetComp)):
            return True
        if isinstance(n, ast.Call) and isinstance(n.func, ast.Name) and n.func.id in ("dict", "list", "set"):
            return True
    return False


def _opaque_allocating_map(I, e, inner, seq, xb_range, it):
    """[<fresh container built from x> for x in seq] over a sequence of symbolic length: the element expression is
    evaluated once for an arbitrary element in a scratch copy of the state (it must not fork or raise - otherwise the
    comprehension is outside the subset); the result is a list of that length whose elements are fresh objects with
    unconstrained contents (a sound over-approximation: nothing is assumed about them)."""
    st = I.st
    g = e.generators[0]
    i = fresh("ci", I_)
    src_l = I.lower(it)
    x = xb_range if xb_range is not None else st.wf_read(seq.at(i))
    snap = st.snapshot()
    envsnap = dict(inner.vars)
    st.pc.append(z3.And(i >= 0, i < seq.n))
    if xb_range is not None:
        lo = it.base[0]
        st.pc.append(V.i(x) == lo + i)
    saved = st.oracle

    class Strict:
        trail = saved.trail
        prefix = saved.prefix

        def choose(self, n, label=""):
            raise OutsideSubset(f"allocating comprehension body forks ({label})")
    st.oracle = Strict()
    content = None
    try:
        if is_v(src_l) and I.tag(src_l, cheap=True) == "ref" and I.kind(src_l) == K_LIST:
            st.list_read(src_l, i)
        I.assign_target(g.target, x, inner)
        r_ = I.ev(e.elt, inner)
        # shallow content of the produced container, as terms over the element (only for a fresh dict)
        if is_v(r_) and I.tag(r_) == "ref" and I.kind(r_) == K_DICT:
            rs = z3.simplify(V.id(r_))
            if z3.is_int_value(rs) and rs.as_long() > snap[2]:
                h_ = st.h
                content = (z3.simplify(z3.Select(h_.ddom, rs)), z3.simplify(z3.Select(h_.dval, rs)), z3.simplify(z3.Select(h_.dlen, rs)))
    except PyRaise:
        raise OutsideSubset("allocating comprehension body may raise")
    finally:
        st.oracle = saved
        st.restore(snap, keep_trail=True)
        inner.vars = envsnap
    out = Sq(fresh("alloc_map", VArr), seq.n)
    j = z3.Int("j!am")
    j2 = z3.Int("j2!am")
    lo_id = st.nalloc
    st.nalloc += 1000
    st.assume(forall([j], z3.Implies(z3.And(j >= 0, j < seq.n), z3.And(V.is_ref(out.at(j)), V.id(out.at(j)) > lo_id, V.id(out.at(j)) <= st.nalloc)),
                     [out.at(j)]))
    st.assume(z3.ForAll([j, j2], z3.Implies(z3.And(j >= 0, j < j2, j2 < seq.n), out.at(j) != out.at(j2))))
    # the fresh objects' contents are unconstrained: havoc the heap region above lo_id
    from .interp import _havoc_heap, _framed_havoc
    new = _havoc_heap(st.h, f"AM{lo_id}", st.nalloc)
    st.h = _framed_havoc(st.h, new, lo_id, [])
    if content is not None and xb_range is None:
        # element-wise content of the fresh dicts: the scratch evaluation with the element replaced by seq[j]
        cd, cv, cl = content
        sub = lambda t: z3.substitute(t, (i, j))
        h_ = st.h
        oid = V.id(out.at(j))
        inr = z3.And(j >= 0, j < seq.n)
        elem_fact = lambda jj: z3.substitute(z3.And(z3.Select(h_.kind, oid) == K_DICT, z3.Select(h_.ddom, oid) == sub(cd),
                                                    z3.Select(h_.dval, oid) == sub(cv), z3.Select(h_.dlen, oid) == sub(cl)), (j, jj))
        st.assume(forall([j], z3.Implies(inr, elem_fact(j)), [out.at(j)]))
        res = st.new_list(out)
        prior = list(st.list_instantiators)
        src_id = V.id(src_l) if is_v(src_l) else None

        def inst(lid, idx, res=res, n_=seq.n):
            facts = [elem_fact(idx), V.is_ref(out.at(idx)), V.id(out.at(idx)) > lo_id]
            if src_id is not None:
                facts += [f_(src_id, idx) for f_ in prior]      # what is known about the source element carries over
            return z3.Implies(z3.And(lid == V.id(res), idx >= 0, idx < n_), z3.And(facts))
        st.list_instantiators.append(inst)
        return res
    return st.new_list(out)


# ----------------------------------------------------------------------------------------------
# exception attributes
# ----------------------------------------------------------------------------------------------
def exc_attr(I, exc, name):
    if name == "__class__":
        return I.lower(V.cls(exc.cid))
    if name == "args":
        return vtup([I.lift(a) for a in exc.args])
    if name in exc.kwargs:
        return exc.kwargs[name]
    return z3.Function(f"excattr_{name}", I_, V)(z3.IntVal(O.func_id(exc)))


# ----------------------------------------------------------------------------------------------
# methods of built-in containers / strings
# ----------------------------------------------------------------------------------------------
def call_method(I, recv, name, args, kwargs, star):
    st = I.st
    h = st.h
    t = I.tag(recv)
    if t == "ref":
        k = I.kind(recv)
        rid = V.id(recv)
        if k == K_DICT:
            return _dict_method(I, recv, rid, name, args, kwargs)
        if k == K_LIST:
            return _list_method(I, recv, rid, name, args, kwargs)
        if k == K_SET:
            return _set_method(I, recv, rid, name, args, kwargs)
    if t == "str":
        return _str_method(I, recv, name, args, kwargs)
    if t == "tup":
        if name == "index" or name == "count":
            raise OutsideSubset("tuple." + name)
    if t == "obj":
        return I.spec.obj_method_call(I, recv, name, args, kwargs, star)
    raise OutsideSubset(f"method {name} on value of tag {t}")


def _dict_method(I, d, rid, name, args, kwargs):
    st = I.st
    h = st.h
    dom, val, ordseq = dict_parts(I, d)
    if name == "get":
        key = I.lift(args[0])
        st.dict_read(d, key)
        default = I.lift(args[1]) if len(args) > 1 else I.lift(kwargs.get("default", None)) if kwargs else NONE
        return st.wf_read(z3.If(z3.Select(dom, key), z3.Select(val, key), default))
    if name == "keys":
        return HView("keys", d)
    if name == "values":
        return HView("values", d)
    if name == "items":
        return HView("items", d)
    if name == "setdefault":
        key = I.lift(args[0])
        default = I.lift(args[1]) if len(args) > 1 else NONE
        if st.decide(z3.Select(dom, key), "setdefault-present"):
            return st.wf_read(z3.Select(val, key))
        set_item(I, d, key, default)
        return default
    if name == "pop":
        key = I.lift(args[0])
        if st.decide(z3.Select(dom, key), "pop-present"):
            st.dict_read(d, key)
            v = st.wf_read(z3.Select(val, key))
            h.ddom = z3.Store(h.ddom, rid, z3.Store(dom, key, False))
            h.dlen = z3.Store(h.dlen, rid, z3.Select(h.dlen, rid) - 1)
            h.dord = z3.Store(h.dord, rid, fresh("ord_after_pop", VArr))
            I.spec.on_write(I, "dict", d, key)
            return v
        if len(args) > 1:
            return I.lift(args[1])
        I.raise_(KeyError, key, origin=("pop",))
    if name == "update":
        if args:
            dict_update(I, d, args[0])
        for k, v in kwargs.items():
            set_item(I, d, vstr(k), v)
        return NONE
    if name == "copy":
        return _copy_dict(I, d)
    if name == "clear":
        h.ddom = z3.Store(h.ddom, rid, EMPTY_SET)
        h.dlen = z3.Store(h.dlen, rid, 0)
        h.dord = z3.Store(h.dord, rid, EMPTY_ARR)
        I.spec.on_write(I, "dict", d, None)
        return NONE
    if name not in METHODS[K_DICT]:
        I.raise_(AttributeError, origin=("dict", name))
    raise OutsideSubset("dict." + name)


def _copy_dict(I, d):
    st = I.st
    h = st.h
    rid = V.id(d)
    n = st.new_dict()
    nid = V.id(n)
    h.ddom = z3.Store(h.ddom, nid, z3.Select(h.ddom, rid))
    h.dval = z3.Store(h.dval, nid, z3.Select(h.dval, rid))
    h.dord = z3.Store(h.dord, nid, z3.Select(h.dord, rid))
    h.dlen = z3.Store(h.dlen, nid, z3.Select(h.dlen, rid))
    return n


def _list_method(I, l, rid, name, args, kwargs):
    st = I.st
    h = st.h
    sq = st.list_sq(l)
    if name == "append":
        st.set_list(l, sq.append(I.lift(args[0])))
        I.spec.on_write(I, "list", l, None)
        return NONE
    if name == "extend":
        items = iterate_concrete(I, args[0])
        other = sq_of(I, items) if items is not None else iterate_seq(I, args[0])
        st.set_list(l, concat_ax(I, sq, other))
        I.spec.on_write(I, "list", l, None)
        return NONE
    if name == "copy":
        return st.new_list(sq)
    if name == "pop":
        n = sq.n
        if not st.decide(n > 0, "pop-nonempty"):
            I.raise_(IndexError, origin=("pop",))
        if args:
            j = norm_index(I, args[0], n)
        else:
            j = n - 1
        v = st.wf_read(sq.at(j))
        i = z3.Int("i!pop")
        st.set_list(l, Sq(z3.Lambda([i], z3.If(i < j, sq.at(i), sq.at(i + 1))), n - 1))
        return v
    if name == "sort":
        if kwargs or args:
            raise OutsideSubset("list.sort with key")
        dom = set_term_ax(I, sq)
        assume_lib("sorted", "list.sort()/sorted() of duplicate-free input is a function of the element set")
        st.set_list(l, Sq(SortedArr(dom), sq.n))
        return NONE
    if name == "insert":
        j = V.i(I.lift(args[0]))
        n = sq.n
        jj = z3.If(j < 0, z3.If(j + n < 0, 0, j + n), z3.If(j > n, n, j))
        i = z3.Int("i!ins")
        x = I.lift(args[1])
        st.set_list(l, Sq(z3.Lambda([i], z3.If(i < jj, sq.at(i), z3.If(i == jj, x, sq.at(i - 1)))), n + 1))
        return NONE
    if name not in METHODS[K_LIST]:
        I.raise_(AttributeError, origin=("list", name))
    raise OutsideSubset("list." + name)


def _set_method(I, s, rid, name, args, kwargs):
    st = I.st
    h = st.h
    dom = z3.Select(h.sdom, rid)
    if name == "add":
        set_add(I, s, args[0])
        return NONE
    if name in ("update",):
        for a in args:
            od = as_set_term(I, a)
            k = z3.Const("k!su", V)
            nd = z3.Lambda([k], z3.Or(z3.Select(z3.Select(h.sdom, rid), k), z3.Select(od, k)))
            n = fresh("card", I_)
            st.assume(n >= z3.Select(h.slen, rid))
            st.assume((n == 0) == (nd == EMPTY_SET))
            h.sdom = z3.Store(h.sdom, rid, nd)
            h.slen = z3.Store(h.slen, rid, n)
        return NONE
    if name in ("union", "intersection", "difference"):
        cur = dom
        for a in args:
            od = as_set_term(I, a)
            k = z3.Const("k!sm", V)
            if name == "union":
                cur = z3.Lambda([k], z3.Or(z3.Select(cur, k), z3.Select(od, k)))
            elif name == "intersection":
                cur = z3.Lambda([k], z3.And(z3.Select(cur, k), z3.Select(od, k)))
            else:
                cur = z3.Lambda([k], z3.And(z3.Select(cur, k), z3.Not(z3.Select(od, k))))
        return st.new_set(cur)
    if name == "discard":
        x = I.lift(args[0])
        present = z3.Select(dom, x)
        h.slen = z3.Store(h.slen, rid, z3.If(present, z3.Select(h.slen, rid) - 1, z3.Select(h.slen, rid)))
        h.sdom = z3.Store(h.sdom, rid, z3.Store(dom, x, False))
        return NONE
    if name == "remove":
        x = I.lift(args[0])
        if not st.decide(z3.Select(dom, x), "remove-present"):
            I.raise_(KeyError, x, origin=("set.remove",))
        h.slen = z3.Store(h.slen, rid, z3.Select(h.slen, rid) - 1)
        h.sdom = z3.Store(h.sdom, rid, z3.Store(dom, x, False))
        return NONE
    if name == "copy":
        return st.new_set(dom, z3.Select(h.slen, rid))
    if name == "issubset":
        od = as_set_term(I, args[0])
        k = z3.Const("k!sub", V)
        return vbool(z3.ForAll([k], z3.Implies(z3.Select(dom, k), z3.Select(od, k))))
    if name not in METHODS[K_SET]:
        I.raise_(AttributeError, origin=("set", name))
    raise OutsideSubset("set." + name)


_LITERAL_STR_METHODS = {"split", "rsplit", "strip", "lstrip", "rstrip", "lower", "upper", "title", "capitalize", "replace", "startswith",
                        "endswith", "partition", "rpartition", "splitlines", "isdigit", "isidentifier", "casefold", "removeprefix", "removesuffix", "join"}


def _literal_of(I, v):
    """Python value of a literal str / int / bool / None term, else a marker"""
    v = z3.simplify(I.lift(v)) if is_v(I.lift(v)) else None
    if v is None or not z3.is_app(v):
        return _literal_of
    nm = v.decl().name()
    if nm == "str" and z3.is_string_value(v.arg(0)):
        return v.arg(0).as_string()
    if nm == "int" and z3.is_int_value(v.arg(0)):
        return v.arg(0).as_long()
    if nm == "none":
        return None
    return _literal_of


def _lift_literal(I, r):
    if isinstance(r, bool):
        return vbool(r)
    if isinstance(r, int):
        return vint(r)
    if isinstance(r, str):
        return vstr(r)
    if r is None:
        return NONE
    if isinstance(r, tuple):
        return vtup([_lift_literal(I, x_) for x_ in r])
    if isinstance(r, list):
        return I.st.new_list(sq_of(I, [_lift_literal(I, x_) for x_ in r]))
    raise OutsideSubset("literal result")


def _str_method(I, s, name, args, kwargs):
    x = V.s(s)
    if name in _LITERAL_STR_METHODS and not kwargs and name != "join":
        # a literal string with literal arguments: the interpreter's own answer (exact)
        recv = _literal_of(I, s)
        lits = [_literal_of(I, a_) for a_ in args]
        if isinstance(recv, str) and all(l_ is not _literal_of for l_ in lits):
            try:
                return _lift_literal(I, getattr(recv, name)(*lits))
            except OutsideSubset:
                pass
            except Exception:      # noqa - the real method raised (TypeError ...): fall through to the symbolic model
                pass
    if name == "startswith":
        a = I.lift(args[0])
        if I.tag(a) == "tup":
            units = seq_units(V.items(a))
            return vbool(z3.Or([z3.PrefixOf(V.s(u), x) for u in units]))
        return vbool(z3.PrefixOf(V.s(a), x))
    if name == "endswith":
        return vbool(z3.SuffixOf(V.s(I.lift(args[0])), x))
    if name in ("lower", "upper", "strip", "lstrip", "rstrip", "title", "capitalize"):
        f = z3.Function("str_" + name, z3.StringSort(), z3.StringSort())
        if args:
            raise OutsideSubset("str.%s with argument" % name)
        return vstr(f(x))
    if name == "format":
        return vstr(fresh("fmt", z3.StringSort()))
    if name == "join":
        items = iterate_concrete(I, args[0])
        if items is not None:
            parts = []
            for i, it in enumerate(items):
                if i:
                    parts.append(x)
                parts.append(V.s(I.lift(it)))
            if not parts:
                return vstr("")
            return vstr(parts[0] if len(parts) == 1 else z3.Concat(*parts))
        f = z3.Function("str_join", z3.StringSort(), VArr, I_, z3.StringSort())
        sq = iterate_seq(I, args[0])
        return vstr(f(x, sq.arr, sq.n))
    if name == "split":
        f = z3.Function("str_split", z3.StringSort(), V, VArr)
        g = z3.Function("str_split_n", z3.StringSort(), V, I_)
        sep = I.lift(args[0]) if args else NONE
        I.st.assume(g(x, sep) >= 1)
        return I.st.new_list(Sq(f(x, sep), g(x, sep)))
    if name == "replace":
        return vstr(z3.Replace(x, V.s(I.lift(args[0])), V.s(I.lift(args[1])))) if False else vstr(
            z3.Function("str_replace_all", z3.StringSort(), z3.StringSort(), z3.StringSort(), z3.StringSort())(
                x, V.s(I.lift(args[0])), V.s(I.lift(args[1]))))
    if name == "encode":
        return V.obj(z3.Function("Utf8", z3.StringSort(), I_)(x))
    if name == "isidentifier":
        return vbool(z3.Function("str_isidentifier", z3.StringSort(), z3.BoolSort())(x))
    raise OutsideSubset("str." + name)


# ----------------------------------------------------------------------------------------------
# external / built-in functions
# ----------------------------------------------------------------------------------------------
def isinstance_cond(I, v, cls, register=True):
    """z3 Bool for isinstance(v, cls)"""
    st = I.st
    cls = I.lower(cls)
    if is_v(cls) and I.tag(cls) == "tup":
        units = seq_units(V.items(cls))
        return z3.Or([isinstance_cond(I, v, u, register) for u in units])
    if isinstance(cls, list):
        return z3.Or([isinstance_cond(I, v, u, register) for u in cls])
    if isinstance(v, O.HExc):
        if isinstance(cls, O.ClassInfo):
            return I.cid_issub(v.cid, cls)
        raise OutsideSubset("isinstance(exc, symbolic)")
    if not is_v(v):
        if isinstance(v, (O.HFunc, O.HBound, O.HExt, O.HMeth)):
            return z3.BoolVal(False)
        if isinstance(v, O.ClassInfo):
            return z3.BoolVal(isinstance(cls, O.ClassInfo) and cls.pycls in (type, object))
        raise OutsideSubset(f"isinstance of {v!r}")
    h = st.h
    if isinstance(cls, O.ClassInfo):
        st.mention(cls, target=True)
        py = cls.pycls
        rid = V.id(v)
        if py is object:
            return z3.BoolVal(True)
        if py is str:
            return V.is_str(v)
        if py is bool:
            return V.is_bool(v)
        if py is int:
            return z3.Or(V.is_int(v), V.is_bool(v))
        if py is float:
            return V.is_real(v)
        if py is tuple:
            return V.is_tup(v)
        if py is dict:
            return z3.And(V.is_ref(v), z3.Select(h.kind, rid) == K_DICT)
        if py is list:
            return z3.And(V.is_ref(v), z3.Select(h.kind, rid) == K_LIST)
        if py in (set, frozenset):
            return z3.And(V.is_ref(v), z3.Select(h.kind, rid) == K_SET)
        if py is type:
            return V.is_cls(v)
        t = I.tag(v, cheap=True)
        if t == "ref":
            c = z3.simplify(z3.Select(h.cls, rid))
            inst = z3.Select(h.kind, rid) == K_INST
            if z3.is_int_value(c) and O.class_by_id(c.as_long()) is not None:
                return z3.And(inst, z3.BoolVal(O.class_by_id(c.as_long()).is_sub(cls)))
            if register and not any(c.eq(t_) for t_ in st.symcls):
                st.symcls.append(c)
            return z3.And(inst, issub(c, cls.cid))
        if t == "obj":
            c = objcls(V.oid(v))
            if register and not any(c.eq(t_) for t_ in st.symcls):
                st.symcls.append(c)
            return issub(c, cls.cid)
        if t in ("none", "bool", "int", "str", "real", "tup", "cls", "fn"):
            return z3.BoolVal(False)
        c1 = z3.Select(h.cls, rid)
        c2 = objcls(V.oid(v))
        for c in (c1, c2):
            if register and not any(c.eq(t_) for t_ in st.symcls):
                st.symcls.append(c)
        return z3.Or(z3.And(V.is_ref(v), z3.Select(h.kind, rid) == K_INST, issub(c1, cls.cid)),
                     z3.And(V.is_obj(v), issub(c2, cls.cid)))
    if is_v(cls) and I.tag(cls) == "cls":
        return instof(I, v, V.cid(cls))
    if isinstance(cls, O.HExt):
        return I.spec.isinstance_ext(I, v, cls)
    raise OutsideSubset(f"isinstance against {cls!r}")


def instof(I, v, cid):
    """isinstance(v, C) for a class given by its id term (concrete or symbolic): by constructor"""
    st = I.st
    h = st.h
    prim = {"none": type(None), "bool": bool, "int": int, "str": str, "real": float, "tup": tuple}
    disj = []
    for tg, py in prim.items():
        ci = O.builtin_class(py)
        st.mention(ci, target=True)
        disj.append(z3.And(getattr(V, "is_" + tg)(v), issub(ci.cid, cid)))
    rid = V.id(v)
    for kd, py in ((K_DICT, dict), (K_LIST, list), (K_SET, set)):
        ci = O.builtin_class(py)
        st.mention(ci, target=True)
        disj.append(z3.And(V.is_ref(v), z3.Select(h.kind, rid) == kd, issub(ci.cid, cid)))
    disj.append(z3.And(V.is_ref(v), z3.Select(h.kind, rid) == K_INST, issub(z3.Select(h.cls, rid), cid)))
    disj.append(z3.And(V.is_obj(v), issub(objcls(V.oid(v)), cid)))
    tci = O.builtin_class(type)
    st.mention(tci, target=True)
    disj.append(z3.And(V.is_cls(v), issub(tci.cid, cid)))
    return z3.Or(disj)


def type_of(I, v):
    st = I.st
    v = I.lower(v)
    if isinstance(v, O.HExc):
        return I.lower(V.cls(v.cid))
    if isinstance(v, O.ClassInfo):
        return O.builtin_class(type)
    if not is_v(v):
        raise OutsideSubset(f"type() of {v!r}")
    t = I.tag(v)
    prim = {"none": type(None), "bool": bool, "int": int, "str": str, "real": float, "tup": tuple}
    if t in prim:
        return O.builtin_class(prim[t])
    if t == "ref":
        k = I.kind(v)
        if k == K_DICT:
            return O.builtin_class(dict)
        if k == K_LIST:
            return O.builtin_class(list)
        if k == K_SET:
            return O.builtin_class(set)
        if k == K_INST:
            ci = I.inst_class(v)
            if ci is not None:
                return ci
            return V.cls(z3.Select(st.h.cls, V.id(v)))
    if t == "obj":
        return V.cls(objcls(V.oid(v)))
    if t is None:
        split_tag(I, v, "type()")
        return type_of(I, v)
    if t == "ref" and I.kind(v) is None:
        split_kind(I, v, "type()")
        return type_of(I, v)
    if t in ("cls",):
        return O.builtin_class(type)
    if t == "fn":
        import types
        return O.builtin_class(types.FunctionType)
    return I.spec.type_unknown(I, v)


def split_tag(I, v, label="tag"):
    """fork on the constructor of a value whose tag is not determined; returns the tag"""
    t = I.tag(v)
    if t is not None:
        return t
    st = I.st
    for nm in ("none", "bool", "int", "str", "real", "tup", "ref", "obj", "cls", "fn"):
        if st.decide(getattr(V, "is_" + nm)(v), f"{label}:{nm}"):
            st.tags[v.get_id()] = nm
            st._tagkeep.append(v)
            return nm
    raise PathEnd()


def split_kind(I, v, label="kind"):
    k = I.kind(v)
    if k is not None:
        return k
    st = I.st
    for c in (K_DICT, K_LIST, K_SET, K_INST):
        if st.decide(z3.Select(st.h.kind, V.id(v)) == c, f"{label}:{c}"):
            st.tags[("kind", v.get_id())] = c
            st._tagkeep.append(v)
            return c
    raise PathEnd()


def vlen(I, v):
    st = I.st
    h = st.h
    v = I.lower(v)
    if is_v(v):
        if split_tag(I, v, "len") == "ref":
            split_kind(I, v, "len")
    if isinstance(v, HView):
        if v.kind in ("keys", "values", "items"):
            return vint(z3.Select(h.dlen, V.id(v.base)))
        if v.kind == "seq":
            return vint(v.base.n)
        raise OutsideSubset("len of view")
    t = I.tag(v)
    if t == "str":
        return vint(z3.Length(V.s(v)))
    if t == "tup":
        return vint(z3.Length(V.items(v)))
    if t == "ref":
        k = I.kind(v)
        rid = V.id(v)
        if k == K_DICT:
            I._card_axioms(v)
            return vint(z3.Select(h.dlen, rid))
        if k == K_SET:
            I._card_axioms(v)
            return vint(z3.Select(h.slen, rid))
        if k == K_LIST:
            return vint(z3.Select(h.llen, rid))
        if k == K_INST:
            return I.call(I.getattr(v, "__len__"), [])
    if t == "obj":
        return I.spec.obj_len(I, v)
    if t in ("none", "int", "bool", "real", "cls", "fn"):
        I.raise_(TypeError, origin=("len",))
    raise OutsideSubset(f"len of value of tag {t}")


def quantify_view(I, view, want_all):
    """any()/all() over a predicate view"""
    kind = view.kind
    if kind == "seq":
        units = view.base.units()
        if units is not None:
            conds = [I.truthy(u) for u in units]
            return (z3.And(conds) if want_all else z3.Or(conds)) if conds else z3.BoolVal(want_all)
        i = z3.Const("i!q", I_)
        x = view.base.at(i)
        rng = z3.And(i >= 0, i < view.base.n)
        return z3.ForAll([i], z3.Implies(rng, I.truthy(x))) if want_all else z3.Exists([i], z3.And(rng, I.truthy(x)))
    if kind == "setpred":
        src, xb, c, elt = view.base
        k = z3.Const("k!q", V)
        body = z3.substitute(I.truthy(elt), (xb, k))
        guard = z3.And(z3.Select(src, k), z3.substitute(c, (xb, k)))
        return z3.ForAll([k], z3.Implies(guard, body)) if want_all else z3.Exists([k], z3.And(guard, body))
    if kind == "setlike":
        k = z3.Const("k!q", V)
        body = I.truthy(k)
        guard = z3.Select(view.base, k)
        return z3.ForAll([k], z3.Implies(guard, body)) if want_all else z3.Exists([k], z3.And(guard, body))
    if kind in ("seqpred", "seqfilter"):
        if kind == "seqpred":
            seq, xb, elt, _ = view.base
            c = z3.BoolVal(True)
        else:
            seq, xb, c, elt = view.base
        i = z3.Const("i!q", I_)
        rng = z3.And(i >= 0, i < seq.n)
        sub = lambda t: z3.substitute(t, (xb, seq.at(i)))
        body = sub(I.truthy(elt))
        guard = z3.And(rng, sub(c))
        return z3.ForAll([i], z3.Implies(guard, body)) if want_all else z3.Exists([i], z3.And(guard, body))
    raise OutsideSubset(f"any/all over view {kind}")


METHODS = {
    K_DICT: {"get", "keys", "values", "items", "setdefault", "pop", "update", "copy", "clear", "popitem", "fromkeys"},
    K_LIST: {"append", "extend", "copy", "pop", "sort", "insert", "index", "count", "remove", "reverse", "clear"},
    K_SET: {"add", "update", "union", "intersection", "difference", "discard", "remove", "copy", "issubset", "issuperset",
            "clear", "pop", "symmetric_difference", "isdisjoint"},
}

LOGGING_NOOPS = {"debug", "info", "warning", "error", "exception", "critical", "log"}


def call_ext(I, dotted, args, kwargs, star, env):
    st = I.st
    h = st.h
    r = I.spec.ext_override(I, dotted, args, kwargs, star)
    from .interp import _MISSING
    if r is not _MISSING:
        return r
    name = dotted
    if name == "builtins.isinstance":
        return vbool(isinstance_cond(I, args[0], args[1]))
    if name == "builtins.issubclass":
        a, b = I.lower(args[0]), I.lower(args[1])
        return vbool(issubclass_cond(I, a, b))
    if name == "builtins.len":
        return vlen(I, args[0])
    if name == "builtins.type":
        if len(args) == 1:
            return type_of(I, args[0])
        raise OutsideSubset("3-argument type()")
    if name == "builtins.getattr":
        nm = _const_str(I, args[1])
        if len(args) > 2:
            return I.getattr(args[0], nm, default=args[2])
        return I.getattr(args[0], nm)
    if name == "builtins.hasattr":
        nm = _const_str(I, args[1])
        r = I.getattr(args[0], nm, default=_MISSING)
        return vbool(r is not _MISSING)
    if name == "builtins.setattr":
        I.setattr(args[0], _const_str(I, args[1]), args[2])
        return NONE
    if name == "builtins.callable":
        v = I.lower(args[0])
        if isinstance(v, (O.HFunc, O.HBound, O.HExt, O.ClassInfo, O.HMeth)):
            return vbool(True)
        return vbool(z3.Or(V.is_fn(v), V.is_cls(v))) if is_v(v) else vbool(False)
    if name == "builtins.print":
        return NONE
    if name == "builtins.id":
        return vint(fresh("id", I_))
    if name == "builtins.object":
        o = V.obj(fresh("sentinel", I_))
        return o
    if name == "builtins.str":
        if not args:
            return vstr("")
        return vstr(to_str(I, args[0]))
    if name == "builtins.repr":
        x = I.lift(args[0])
        return vstr(ReprOf(x))
    if name == "builtins.bool":
        return vbool(I.truthy(args[0])) if args else vbool(False)
    if name == "builtins.int":
        return _int_conv(I, args)
    if name == "builtins.float":
        x = I.lift(args[0])
        t = I.tag(x)
        if t == "real":
            return x
        if t == "int":
            return V.real(z3.ToReal(V.i(x)))
        return I.spec.float_unknown(I, x)
    if name == "builtins.dict":
        d = st.new_dict()
        if args:
            src = I.lower(args[0])
            if is_v(src) and I.tag(src) == "ref" and I.kind(src) == K_DICT:
                sid, nid = V.id(src), V.id(d)
                h.ddom = z3.Store(h.ddom, nid, z3.Select(h.ddom, sid))
                h.dval = z3.Store(h.dval, nid, z3.Select(h.dval, sid))
                h.dord = z3.Store(h.dord, nid, z3.Select(h.dord, sid))
                h.dlen = z3.Store(h.dlen, nid, z3.Select(h.dlen, sid))
            else:
                items = iterate_concrete(I, src)
                if items is None:
                    if os.environ.get("PYVC_DEBUG2") and isinstance(src, HView):
                        for b in src.base:
                            bb = I.lower(b)
                            print("DICT-ZIP arg", str(bb)[:200], "tag", I.tag(bb) if is_v(bb) else type(bb), "concrete", iterate_concrete(I, bb) is not None)
                    raise OutsideSubset("dict() of symbolic iterable")
                for it in items:
                    k, v = unpack(I, it, 2)
                    set_item(I, d, k, v)
        for k, v in kwargs.items():
            set_item(I, d, vstr(k), v)
        if star is not None:
            dict_update(I, d, star)
        return d
    if name == "builtins.list":
        if not args:
            return st.new_list()
        items = iterate_concrete(I, args[0])
        if items is not None:
            return st.new_list(sq_of(I, items))
        return st.new_list(iterate_seq(I, args[0]))
    if name == "builtins.tuple":
        if not args:
            return vtup([])
        items = iterate_concrete(I, args[0])
        if items is not None:
            return vtup([I.lift(x) for x in items])
        return iterate_seq(I, args[0]).to_tuple()
    if name in ("builtins.set", "builtins.frozenset"):
        if not args:
            return st.new_set()
        src = I.lower(args[0])
        items = iterate_concrete(I, src)
        if items is not None:
            s = st.new_set()
            for x in items:
                set_add(I, s, x)
            return s
        if is_v(src) and I.tag(src) == "ref" and I.kind(src) in (K_DICT, K_SET):
            I._card_axioms(src)
            n = z3.Select(h.dlen, V.id(src)) if I.kind(src) == K_DICT else z3.Select(h.slen, V.id(src))
            return st.new_set(as_set_term(I, src), n)
        if isinstance(src, HView) and src.kind == "keys":
            I._card_axioms(src.base)
            return st.new_set(as_set_term(I, src), z3.Select(h.dlen, V.id(src.base)))
        return st.new_set(as_set_term(I, src))
    if name == "builtins.sorted":
        if kwargs:
            return I.spec.sorted_with_key(I, args, kwargs)
        assume_lib("sorted", "sorted() of duplicate-free input is a function of the element set (order-free), ordered by <")
        dom = as_set_term(I, args[0])
        src = I.lower(args[0])
        n = None
        if is_v(src) and I.tag(src) == "ref":
            if I.kind(src) == K_SET:
                I._card_axioms(src)
                n = z3.Select(h.slen, V.id(src))
            elif I.kind(src) == K_DICT:
                I._card_axioms(src)
                n = z3.Select(h.dlen, V.id(src))
        elif isinstance(src, HView) and src.kind == "keys":
            n = z3.Select(h.dlen, V.id(src.base))
        if n is None:
            n = fresh("card", I_)
            st.assume(n >= 0)
            st.assume((n == 0) == (dom == EMPTY_SET))
        items = iterate_concrete(I, src)
        if items is not None and len(items) <= 1:
            return st.new_list(sq_of(I, items))
        if items is not None:
            # pairwise distinct literal strings / integers: the sorted order is known outright
            lits = []
            for x in items:
                xs = z3.simplify(I.lift(x))
                if z3.is_app(xs) and xs.decl().name() == "str" and z3.is_string_value(xs.arg(0)):
                    lits.append(("s", xs.arg(0).as_string(), xs))
                elif z3.is_app(xs) and xs.decl().name() == "int" and z3.is_int_value(xs.arg(0)):
                    lits.append(("i", xs.arg(0).as_long(), xs))
                else:
                    lits = None
                    break
            if lits and len({k_ for k_, _, _ in lits}) == 1 and len({v_ for _, v_, _ in lits}) == len(lits):
                return st.new_list(sq_of(I, [t_ for _, _, t_ in sorted(lits, key=lambda r_: r_[1])]))
        out = Sq(SortedArr(dom), n)
        st.assume(set_term_ax(I, out) == dom)
        return st.new_list(out)
    if name == "builtins.any" or name == "builtins.all":
        want_all = name.endswith("all")
        src = I.lower(args[0])
        if isinstance(src, HView) and src.kind in ("values", "keys", "items"):
            items_ = iterate_concrete(I, src)
            if items_ is not None:
                conds_ = [I.truthy(x_) for x_ in items_]
                return vbool((z3.And(conds_) if want_all else z3.Or(conds_)) if conds_ else z3.BoolVal(want_all))
        if isinstance(src, HView):
            return vbool(quantify_view(I, src, want_all))
        items = iterate_concrete(I, src)
        if items is not None:
            conds = [I.truthy(x) for x in items]
            if not conds:
                return vbool(want_all)
            return vbool(z3.And(conds) if want_all else z3.Or(conds))
        return vbool(quantify_view(I, HView("seq", iterate_seq(I, src)), want_all))
    if name == "builtins.enumerate":
        return HView("enumerate", args[0])
    if name == "builtins.zip":
        return HView("zip", list(args))
    if name == "builtins.reversed":
        return HView("reversed", args[0])
    if name == "builtins.range":
        if len(args) == 1:
            return HView("range", (z3.IntVal(0), V.i(I.lift(args[0]))))
        if len(args) == 2:
            return HView("range", (V.i(I.lift(args[0])), V.i(I.lift(args[1]))))
        raise OutsideSubset("range with step")
    if name in ("builtins.max", "builtins.min"):
        items = args if len(args) > 1 else iterate_concrete(I, args[0])
        if items is None or kwargs:
            raise OutsideSubset("max/min over symbolic iterable")
        cur = I.lift(items[0])
        for x in items[1:]:
            x = I.lift(x)
            op = ast.Gt() if name.endswith("max") else ast.Lt()
            c = order(I, op, x, cur)
            cur = z3.If(c, x, cur)
        return cur
    if name == "builtins.abs":
        x = I.lift(args[0])
        if I.tag(x) == "int":
            return vint(z3.If(V.i(x) < 0, -V.i(x), V.i(x)))
        if I.tag(x) == "real":
            return V.real(z3.If(V.r(x) < 0, -V.r(x), V.r(x)))
        raise OutsideSubset("abs of non-number")
    if name == "builtins.round":
        f = z3.Function("py_round", V, V, V)
        assume_lib("round", "round(x, n) is an uninterpreted pure function")
        return f(I.lift(args[0]), I.lift(args[1]) if len(args) > 1 else NONE)
    if name == "builtins.sum":
        items = iterate_concrete(I, args[0])
        if items is None:
            raise OutsideSubset("sum over symbolic iterable")
        cur = vint(0)
        for x in items:
            cur = binop(I, ast.Add(), cur, x)
        return cur
    if name == "typing.cast":
        return args[1]
    if name.startswith("typing."):
        return O.HExt(name)
    if name == "builtins.iter" or name == "builtins.next":
        raise OutsideSubset(name)
    return I.spec.ext_call(I, dotted, args, kwargs, star)


def _const_str(I, v):
    s = z3.simplify(V.s(I.lift(v)))
    if not z3.is_string_value(s):
        raise OutsideSubset("dynamic attribute name")
    return s.as_string()


def _int_conv(I, args):
    """int(x): ints pass, bool -> 0/1, None / containers -> TypeError, str -> ValueError or a number"""
    st = I.st
    if not args:
        return vint(0)
    x = I.lift(args[0])
    t = I.tag(x)
    if t == "int":
        return x
    if t == "bool":
        return vint(z3.If(V.b(x), 1, 0))
    if t == "none" or t == "ref" or t == "tup":
        I.raise_(TypeError, origin=("int()",))
    parse_ok = z3.Function("int_parse_ok", z3.StringSort(), z3.BoolSort())
    parse = z3.Function("int_parse", z3.StringSort(), I_)
    if t == "str":
        if not st.decide(parse_ok(V.s(x)), "int(str)-ok"):
            I.raise_(ValueError, origin=("int()",))
        return vint(parse(V.s(x)))
    if t == "real":
        return vint(z3.If(V.r(x) >= 0, z3.ToInt(V.r(x)), -z3.ToInt(-V.r(x))))
    # unknown tag: case split by the solver-visible tag
    if st.decide(V.is_int(x), "int(x):is-int"):
        return x
    if st.decide(V.is_bool(x), "int(x):is-bool"):
        return vint(z3.If(V.b(x), 1, 0))
    if st.decide(V.is_str(x), "int(x):is-str"):
        if not st.decide(parse_ok(V.s(x)), "int(str)-ok"):
            I.raise_(ValueError, origin=("int()",))
        return vint(parse(V.s(x)))
    if st.decide(V.is_real(x), "int(x):is-real"):
        return vint(z3.If(V.r(x) >= 0, z3.ToInt(V.r(x)), -z3.ToInt(-V.r(x))))
    if st.decide(z3.Or(V.is_none(x), V.is_ref(x), V.is_tup(x), V.is_cls(x), V.is_fn(x)), "int(x):typeerror"):
        I.raise_(TypeError, origin=("int()",))
    return I.spec.int_unknown(I, x)


def issubclass_cond(I, a, b):
    st = I.st
    if is_v(b) and I.tag(b) == "tup":
        return z3.Or([issubclass_cond(I, a, I.lower(u)) for u in seq_units(V.items(b))])
    if isinstance(a, O.ClassInfo) and isinstance(b, O.ClassInfo):
        return z3.BoolVal(a.is_sub(b))
    ca = z3.IntVal(a.cid) if isinstance(a, O.ClassInfo) else V.cid(a)
    cb = z3.IntVal(b.cid) if isinstance(b, O.ClassInfo) else V.cid(b)
    for x in (a, b):
        if isinstance(x, O.ClassInfo):
            st.mention(x, target=True)
    for c in (ca, cb):
        s = z3.simplify(c)
        if not z3.is_int_value(s) and not any(s.eq(t) for t in st.symcls):
            st.symcls.append(s)
    return issub(ca, cb)
