"""./check <ID> --replay <file> : replays one recorded violation against the current working tree of $VERIF_REPO.

* a bounded-tier witness (`bounded_case`): the bounded tier of the property is run again on the real code and the recorded failure
  class is looked for;
* a refuted obligation: the property's harnesses are run again and the named obligation is re-discharged (and, if refuted again,
  replayed natively the way the check does).
Exit 1 + `VIOLATION property=<id> replay=<file>` if the violation reproduces, 0 if it does not, 2 if undecided, 3 on a fault."""
import importlib, json, os, sys
from . import report


def main(prop, path):
    try:
        rec = json.load(open(path))
    except Exception as e:       # noqa
        print(f"cannot read replay file {path}: {e}")
        return 3
    ob_name = rec.get("obligation", "")
    if "bounded_case" in rec or ob_name.startswith("bounded/"):
        cls = (rec.get("bounded_case") or {}).get("class") or ob_name.split("/", 1)[-1]
        script = os.path.join(report.ROOT, "replay", f"{prop.lower()}_bounded.py")
        res, proc = report.native_json(script, {"tier": "quick", "seed": 0}, timeout=3000)
        if res is None:
            print(f"bounded tier crashed: {(proc.stderr or '')[-400:]}")
            return 3
        hit = [f for f in res.get("failures", []) if f.get("class") == cls]
        if hit:
            print(f"reproduced: {json.dumps(hit[0], default=str)[:600]}")
            print(f"VIOLATION property={prop} replay={path}")
            return 1
        print(f"not reproduced: the bounded tier no longer reports class {cls!r} ({res.get('evaluations')} evaluations)")
        return 0
    mod = importlib.import_module(f"specs.{prop}")
    from . import engine as E
    spec = mod.factory()
    faults = E.run_parallel(spec, mod.factory, getattr(mod, "WRAPPED", mod.TASKS), timeout_ms=30000)
    if faults:
        print(faults[0][-800:])
        return 3
    same = [ob for ob in spec.obligations if ob.name == ob_name]
    if not same:
        print(f"obligation {ob_name!r} is not generated from the current source (renamed or on a path that no longer exists)")
        return 2
    bad = [ob for ob in same if ob.status == "refuted"]
    und = [ob for ob in same if ob.status == "undecided"]
    if bad:
        confirmed = False
        if hasattr(mod, "replay"):
            try:
                confirmed, _ = mod.replay(bad[0])
            except Exception:      # noqa
                confirmed = False
        weak = getattr(bad[0], "weak", False)
        if weak and not confirmed:
            print(f"obligation {ob_name!r}: candidate counter-model only, native replay does not fail: undecided")
            return 2
        print(f"reproduced: obligation {ob_name!r} refuted again ({len(bad)} of {len(same)} instances)")
        print(f"VIOLATION property={prop} replay={path}" + ("" if confirmed else " no-failing-input-found"))
        return 1
    if und:
        print(f"obligation {ob_name!r}: undecided ({und[0].note[:200]})")
        return 2
    print(f"not reproduced: obligation {ob_name!r} discharged ({len(same)} instances)")
    return 0


if __name__ == "__main__":
    sys.exit(main(sys.argv[1], sys.argv[2]))
