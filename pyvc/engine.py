"""Spec base class (engine configuration + hooks), contracts, obligations and the per-function driver."""
from __future__ import annotations
import ast, json, os, subprocess, tempfile, time, traceback, z3
from .core import *
import sys as _sys
_sys.setrecursionlimit(6000)
from . import core
from . import objects as O
from . import source, models, state
from .source import OutsideSubset
from .state import St, PathEnd, PyRaise, enumerate_paths
from .interp import Interp, Env, LoopSpec, LoopCtx, _MISSING, _Return


class Obligation:
    def __init__(self, name, pc, goal, meta=None):
        self.name = name
        self.pc = pc
        self.goal = goal
        self.meta = meta or {}
        self.status = None      # discharged | refuted | undecided
        self.backend = None
        self.model = None
        self.seconds = 0.0
        self.note = ""
        self.weak = False


class Contract:
    """Sidecar contract of a real function.  Used twice: (1) proved against the function's body,
    (2) applied at call sites of verified callers (callers never see the body)."""

    def __init__(self, relpath, qual, pre=None, effect=None, post=None, raises=(), assumed=None):
        self.relpath = relpath
        self.qual = qual
        self.pre = pre            # (I, b) -> [(name, Bool)]
        self.effect = effect      # (I, b) -> value ; performs havoc + assumes post at the call site
        self.post = post          # (I, b, old, outcome) -> [(name, Bool)]   proved on the body
        self.raises = raises
        self.assumed = assumed    # text: trusted, not proved

    def apply(self, I, f, args, kwargs, star):
        b = I.bind_args(f, args, kwargs or {}, star)
        if self.pre is not None:
            for nm, cond in self.pre(I, b):
                I.spec.oblige(I, f"call:{self.qual}/pre/{nm}", cond)
        I.spec.used_contracts.add((self.relpath, self.qual))
        return self.effect(I, b)


class BaseSpec:
    """Engine configuration.  Property specs subclass this and override hooks."""
    merge_branches = True
    max_unroll = 6
    max_depth = 14

    def __init__(self, prop):
        self.prop = prop
        self.contracts = {}
        self.inline = set()          # (relpath, qual) allowed to be inlined; '*' in inline_files for whole files
        self.inline_files = set()
        self.loops = {}              # (relpath, qual, lineno-ordinal) -> LoopSpec
        self.obligations = []
        self._seen = set()
        self.used_contracts = set()
        self.assumptions = set()
        self.functions = {}          # (relpath, qual) -> source_info   (functions under contract)
        self.undecided = []
        self.path_count = 0
        self.cur_fn = None

    # ---- registration ------------------------------------------------------------------------
    def add_contract(self, c):
        self.contracts[(c.relpath, c.qual)] = c
        if c.assumed:
            self.assumptions.add(f"assumed contract {c.relpath}::{c.qual}: {c.assumed}")

    def loop(self, relpath, qual, ordinal, spec):
        self.loops[(relpath, qual, ordinal)] = spec

    def oblige(self, I, name, goal, meta=None, hints=None, skolem=False):
        full = f"{self.cur_fn}/{name}" if self.cur_fn else name
        st = I.st
        if (skolem or getattr(self, "skolem_goals", False)) and z3.is_quantifier(goal) and goal.is_forall():
            # validity of (forall x. P x) = validity of P c for a fresh constant c; c then serves as an instantiation hint
            consts = [fresh(f"sk_{goal.var_name(i_)}", goal.var_sort(i_)) for i_ in range(goal.num_vars())]
            goal = z3.substitute_vars(goal.body(), *reversed(consts))
            hints = list(hints or []) + consts
        core_pc = list(st.pc) + st.frame_facts()
        axioms = list(st.h.axioms) + st.class_axioms()
        pc = core_pc + axioms
        key = (full, tuple(p.get_id() for p in pc), goal.get_id())
        if key in self._seen:
            return
        self._seen.add(key)
        ob = Obligation(full, pc, goal, meta)
        ob.n_core = len(core_pc)
        ob.hints = hints
        self.obligations.append(ob)

    # ---- hooks (defaults refuse) -----------------------------------------------------------------
    def global_override(self, module, name):
        return None

    def contract_for(self, I, f):
        return self.contracts.get(f.key)

    def may_inline(self, I, f):
        if isinstance(f, O.HLambda) or f.closure is not None:
            return True
        return f.key in self.inline or f.module.relpath in self.inline_files

    def loop_spec(self, env, s):
        if env.func is None:
            return None
        fn = env.func
        # ordinal of the loop among for/while statements of the function, in source order
        loops = [n for n in ast.walk(fn.node) if isinstance(n, (ast.For, ast.While))]
        loops.sort(key=lambda n: (n.lineno, n.col_offset))
        ordinal = loops.index(s) + 1 if s in loops else None
        return self.loops.get((fn.module.relpath, fn.qual, ordinal))

    def call_override(self, I, f, args, kwargs, star):
        return _MISSING

    def instantiate_override(self, I, ci, args, kwargs, star):
        return _MISSING

    def ext_override(self, I, dotted, args, kwargs, star):
        return _MISSING

    def ext_value(self, I, dotted):
        return None

    def eq_override(self, I, a, b):
        return None

    def field_read(self, I, obj, name):
        """hook: quantifier-free instances of input-heap invariants for a field about to be read"""
        return None

    def ext_call(self, I, dotted, args, kwargs, star):
        parts = dotted.split(".")
        if parts[-1] in models.LOGGING_NOOPS and ("logger" in dotted.lower() or "logging" in dotted.lower()):
            return NONE
        raise OutsideSubset(f"external function {dotted} has no model")

    def obj_truthy(self, I, v):
        """bool(x) of an opaque object: an uninterpreted pure observer (assumed: __bool__/__len__ of opaque
        objects are pure, deterministic and do not raise)"""
        self.assumptions.add("bool() of an opaque object is a pure, deterministic, non-raising observer")
        return z3.Function("ObjTruthy", core.I, core.B)(V.oid(v))

    def obj_attr(self, I, v, name):
        """opaque objects: spec-declared abstract methods (self.obj_methods) and observers (self.obj_attrs)"""
        if name in getattr(self, "obj_methods", {}):
            return O.HMeth(v, name)
        if name in getattr(self, "obj_attrs", {}):
            return self.obj_attrs[name](I, v)
        if name == "__class__":
            return V.cls(objcls(V.oid(v)))
        if name in getattr(self, "obj_missing", ()):
            return _MISSING
        raise OutsideSubset(f"attribute {name} of an opaque object")

    def obj_method_call(self, I, recv, name, args, kwargs, star):
        h = getattr(self, "obj_methods", {}).get(name)
        if h is None:
            raise OutsideSubset(f"method {name} of an opaque object")
        return h(I, recv, args, kwargs, star)

    def obj_setattr(self, I, v, name, value):
        raise OutsideSubset(f"setattr {name} on an opaque object")

    def obj_getitem(self, I, v, key):
        raise OutsideSubset("subscript of an opaque object")

    def obj_setitem(self, I, v, key, value):
        raise OutsideSubset("item assignment on an opaque object")

    def obj_contains(self, I, v, x):
        raise OutsideSubset("'in' on an opaque object")

    def obj_len(self, I, v):
        raise OutsideSubset("len of an opaque object")

    def symcls_attr(self, I, v, name):
        if name == "__name__":
            return vstr(z3.Function("ClsName", core.I, z3.StringSort())(V.cid(v)))
        if name == "__module__":
            return vstr(z3.Function("ClsModule", core.I, z3.StringSort())(V.cid(v)))
        if name == "__qualname__":
            return vstr(z3.Function("ClsQualName", core.I, z3.StringSort())(V.cid(v)))
        raise OutsideSubset(f"attribute {name} of a symbolic class")

    def unknown_attr(self, I, v, name):
        raise OutsideSubset(f"attribute {name} of a value of unknown type")

    def abstract_class_attr(self, I, ci, name):
        raise OutsideSubset(f"attribute {name} of abstract class {ci.name}")

    def abstract_inst_attr(self, I, v, ci, name):
        raise OutsideSubset(f"attribute {name} of instance of abstract class {ci.name}")

    def abstract_instantiate(self, I, ci, args, kwargs, star):
        raise OutsideSubset(f"instantiation of abstract class {ci.name}")

    def class_attr_override(self, I, ci, name):
        return None

    def inst_attr_override(self, I, v, ci, name):
        return None

    def class_setattr(self, I, ci, name, value):
        raise OutsideSubset(f"assignment to class attribute {ci.name}.{name}")

    def call_value(self, I, f, args, kwargs, star):
        if os.environ.get("PYVC_DEBUG"):
            print("CALL_VALUE", str(f)[:400].replace("\n", " "))
            for t_ in I.st.oracle.trail[-12:]:
                print("   trail", t_)
        raise OutsideSubset("call of a symbolic value")

    def opaque_super(self, I, sup, c, name):
        if name == "__init__":
            return O.HExt("builtins.__noop__")
        raise OutsideSubset(f"super().{name} resolves to an opaque base")

    def classdef_handler(self, I, s, env):
        return None

    def generator_call(self, I, f, env):
        raise OutsideSubset(f"generator function {f.qual}")

    def on_yield(self, I, v, env):
        raise OutsideSubset("yield")

    def with_enter(self, I, cm):
        raise OutsideSubset("with statement")

    def with_exit(self, I, item):
        raise OutsideSubset("with statement")

    def order_unknown(self, I, op, a, b):
        raise OutsideSubset("ordering comparison on values of unknown type")

    def binop_unknown(self, I, op, a, b):
        raise OutsideSubset(f"operator {type(op).__name__} on values of tags {I.tag(a)}/{I.tag(b)}")

    def isinstance_unknown(self, I, v, cls):
        raise OutsideSubset("isinstance against a symbolic class")

    def isinstance_ext(self, I, v, cls):
        raise OutsideSubset(f"isinstance against external class {cls.dotted}")

    def type_unknown(self, I, v):
        raise OutsideSubset("type() of a value of unknown tag")

    def float_unknown(self, I, x):
        raise OutsideSubset("float() of non-number")

    def int_unknown(self, I, x):
        """int(x) of an opaque object: assumed to have no __int__/__index__ -> TypeError"""
        self.assumptions.add("opaque objects define no __int__/__index__: int(obj) raises TypeError")
        I.raise_(TypeError, origin=("int(obj)",))

    def sorted_with_key(self, I, args, kwargs):
        raise OutsideSubset("sorted with key")

    def iterate_instance(self, I, v):
        raise OutsideSubset("iteration over an instance")

    def iterate_obj(self, I, v):
        raise OutsideSubset("iteration over an opaque object")

    def on_write(self, I, what, ref, key):
        pass


# ------------------------------------------------------------------------------------------------
# driver
# ------------------------------------------------------------------------------------------------
def hfunc(relpath, qual, closure=None):
    try:
        node, chain = source.find_def(relpath, qual)
    except KeyError as e:
        # the function the contract is written for is not where it was (renamed, moved, hoisted): the contract does not apply
        raise OutsideSubset(f"function under contract not found: {e}")
    mod = source.load_module(relpath)
    owner = None
    return O.HFunc(node, mod, closure, qual, owner)


def method_of(I, relpath, clsname, meth):
    mod = source.load_module(relpath)
    if clsname not in mod.defs:
        raise OutsideSubset(f"class under contract not found: {relpath}::{clsname}")
    ci = I.class_of_node(mod, mod.defs[clsname])
    found = ci.lookup(meth)
    if not found or found[1] is None:
        raise OutsideSubset(f"method under contract not found: {relpath}::{clsname}.{meth}")
    owner, node = found
    return ci, O.HFunc(node, owner.module, None, owner.name + "." + meth, owner=owner)


def run_function(spec, label, body, max_paths=5000):
    """Enumerate all paths of `body(I)`; body sets up inputs, runs code, states obligations.
    Returns dict(paths=..., error=None|text)."""
    spec.cur_fn = label
    info = {"label": label, "paths": 0, "error": None}

    def run(oracle):
        core._fresh_n[0] = 0
        core.reset_frames()
        st = St()
        st.oracle = oracle
        I = Interp(st, spec)
        try:
            body(I)
        except PathEnd:
            pass
        except OutsideSubset as e:
            # the construct is outside the subset on THIS path only: the path is undecided, the others are still explored
            # (a path whose condition has meanwhile become contradictory is dead: dispatch on a dead path cannot
            # determine tags, which is the usual reason for landing here)
            try:
                dead = not st.feasible(z3.BoolVal(True))
            except Exception:
                dead = False
            if dead:
                return
            if os.environ.get("PYVC_DEBUG"):
                traceback.print_exc()
            msg = f"OUTSIDE-SUBSET: {e}"
            if (label, msg) not in spec.undecided:
                spec.undecided.append((label, msg))
            info["error"] = msg
    t = time.time()
    try:
        info["paths"] = enumerate_paths(run, max_paths)
    except OutsideSubset as e:
        if os.environ.get("PYVC_DEBUG"):
            traceback.print_exc()
        info["error"] = f"OUTSIDE-SUBSET: {e}"
        spec.undecided.append((label, info["error"]))
    except RecursionError as e:
        info["error"] = "OUTSIDE-SUBSET: recursion depth"
        spec.undecided.append((label, info["error"]))
    info["seconds"] = time.time() - t
    spec.path_count += info["paths"]
    spec.cur_fn = None
    return info


def execute(I, f, args=(), kwargs=None):
    """run a real function body; returns ('return', v) or ('raise', HExc)"""
    try:
        return ("return", I.call_function(f, list(args), kwargs or {}))
    except PyRaise as pr:
        return ("raise", pr.exc)


# ------------------------------------------------------------------------------------------------
# discharge
# ------------------------------------------------------------------------------------------------
def discharge(ob, timeout_ms=10000, want_model=True):
    t = time.time()
    # staged: fewer hypotheses first (an 'unsat' with a subset of the hypotheses is a proof); the full set last
    n_core = getattr(ob, "n_core", len(ob.pc))
    core_pc, axioms = ob.pc[:n_core], ob.pc[n_core:]
    ground_ax = [a for a in axioms if not state.has_quantifier(a)]
    qf_hyps = [p for p in core_pc if not state.has_quantifier(p)] + ground_ax
    stages = [("qf", qf_hyps)]
    hints = getattr(ob, "hints", None)
    if hints:
        # instances of the universally quantified hypotheses at terms the obligation names (consequences of the hypotheses)
        stages.append(("qf+instances-at-hints", qf_hyps + _instances(core_pc, hints)))
    stages.append(("no-heap-axioms", core_pc + ground_ax))
    for stage, hyps in stages:
        s0 = z3.Solver()
        s0.set("timeout", min(timeout_ms, 4000))
        for p in hyps:
            s0.add(p)
        s0.add(z3.Not(ob.goal))
        if s0.check() == z3.unsat:
            ob.seconds = time.time() - t
            ob.status, ob.backend = "discharged", "z3"
            return ob
    s = z3.Solver()
    s.set("timeout", timeout_ms)
    for p in ob.pc:
        s.add(p)
    s.add(z3.Not(ob.goal))
    r = s.check()
    ob.seconds = time.time() - t
    if r == z3.unsat:
        ob.status, ob.backend = "discharged", "z3"
    elif r == z3.sat:
        ob.status, ob.backend = "refuted", "z3"
        ob.model = s.model()
    else:
        # (2) quantifier-free hypotheses only: unsat is still a proof (fewer hypotheses); sat is only a
        #     *candidate* counter-model (it may violate a dropped hypothesis) - flagged weak, needs a native replay
        s2 = z3.Solver()
        s2.set("timeout", timeout_ms)
        for p in ob.pc:
            if not state.has_quantifier(p):
                s2.add(p)
        s2.add(z3.Not(ob.goal))
        r2 = s2.check()
        if r2 == z3.unsat:
            ob.status, ob.backend = "discharged", "z3"
        elif r2 == z3.sat:
            ob.status, ob.backend = "refuted", "z3(candidate, quantified hypotheses dropped)"
            ob.model = s2.model()
            ob.weak = True
        else:
            # (3) second opinion: cvc5 on the SMT-LIB dump
            res = _cvc5(s)
            if res == "unsat":
                ob.status, ob.backend = "discharged", "cvc5"
            else:
                ob.status, ob.backend = "undecided", "z3+cvc5"
                ob.note = f"z3: {s.reason_unknown()}; cvc5: {res}"
        ob.seconds = time.time() - t
    return ob


def _instances(hyps, hints):
    out = []
    for p in hyps:
        for guard, q in _univ(p):
            if q.num_vars() != 1:
                continue
            for t_ in hints:
                if q.var_sort(0) == t_.sort():
                    inst = z3.substitute_vars(q.body(), t_)
                    out.append(inst if guard is None else z3.Implies(guard, inst))
    return out


def _univ(p):
    """(guard, forall) pairs for hypotheses of the shapes  forall x. B  and  G ==> forall x. B"""
    if z3.is_quantifier(p) and p.is_forall():
        return [(None, p)]
    if z3.is_app(p) and p.decl().kind() == z3.Z3_OP_IMPLIES and z3.is_quantifier(p.arg(1)) and p.arg(1).is_forall() \
            and not state.has_quantifier(p.arg(0)):
        return [(p.arg(0), p.arg(1))]
    return []


def _cvc5(solver, timeout_s=20):
    try:
        smt = solver.to_smt2()
        with tempfile.NamedTemporaryFile("w", suffix=".smt2", delete=False) as fh:
            fh.write("(set-logic ALL)\n" + smt)
            path = fh.name
        try:
            out = subprocess.run(["/usr/bin/cvc5", "--strings-exp", "--dt-nested-rec", f"--tlimit={timeout_s * 1000}", path],
                                 capture_output=True, text=True, timeout=timeout_s + 5)
            first = (out.stdout.strip().splitlines() or ["error"])[0]
            return first if first in ("sat", "unsat", "unknown") else "error:" + (out.stderr.strip()[:120] or first)
        finally:
            os.unlink(path)
    except Exception as e:  # solver infrastructure failure: undecided, never a verdict
        return f"error:{type(e).__name__}"


def discharge_all(spec, timeout_ms=10000):
    for ob in spec.obligations:
        if ob.status is None:
            discharge(ob, timeout_ms)
    return spec.obligations


# ------------------------------------------------------------------------------------------------
# parallel execution: each task builds its own spec fragment in a forked worker, discharges there and
# returns plain records (z3 terms never cross process boundaries)
# ------------------------------------------------------------------------------------------------
class ObRec:
    def __init__(self, ob, model_summary):
        self.name = ob.name
        self.status = ob.status
        self.backend = ob.backend
        self.seconds = ob.seconds
        self.note = ob.note
        self.weak = getattr(ob, "weak", False)
        self.meta = {k: v for k, v in (ob.meta or {}).items() if isinstance(v, (str, int, float, bool, list, dict, type(None)))}
        self.goal = str(ob.goal)[:600]
        self.pc = [None] * len(ob.pc)
        self.model = model_summary


_TASKS = {}


def _worker(args):
    idx, timeout_ms = args
    factory, task = _TASKS["factory"], _TASKS["tasks"][idx]
    from . import report as _r
    spec = factory()
    t0 = time.time()
    try:
        task(spec)
        discharge_all(spec, timeout_ms)
        recs = [ObRec(ob, _r.model_summary(ob) if ob.status == "refuted" else None) for ob in spec.obligations]
        err = None
    except Exception:
        recs, err = [], traceback.format_exc()
    return {"obligations": recs, "undecided": list(spec.undecided), "paths": spec.path_count,
            "functions": dict(spec.functions), "used_contracts": set(spec.used_contracts),
            "assumptions": set(spec.assumptions) | set(models.USED_ASSUMPTIONS), "error": err,
            "queries": state.STATS.queries, "solver_s": state.STATS.seconds, "wall": time.time() - t0}


def _shard_worker(idx, timeout_ms, shard, out):
    state.SHARD = shard
    try:
        r = _worker((idx, timeout_ms))
    except BaseException:
        r = {"obligations": [], "undecided": [], "paths": 0, "functions": {}, "used_contracts": set(), "assumptions": set(),
             "error": traceback.format_exc(), "queries": 0, "solver_s": 0.0, "wall": 0.0}
    out.put(r)


def _run_sharded(ctx, idx, timeout_ms, nshards):
    """one task explored by `nshards` forked workers sharing, per run_function call, the stack of pending decision
    prefixes; each worker discharges the obligations of the paths it explored"""
    rounds = 24                        # run_function calls a task may make
    queues, counters, out = [ctx.Queue() for _ in range(rounds)], ctx.Array("i", [1] * rounds), ctx.Queue()
    for q in queues:
        q.put([])
    procs = [ctx.Process(target=_shard_worker, args=(idx, timeout_ms, (queues, counters), out)) for _ in range(nshards)]
    for p in procs:
        p.start()
    results = []
    import queue as _q
    while len(results) < nshards:
        try:
            results.append(out.get(timeout=5))
        except _q.Empty:
            if not any(p.is_alive() for p in procs) and out.empty():
                break
    for p in procs:
        p.join(timeout=10)
        if p.is_alive():
            p.terminate()
    for q in queues:
        q.cancel_join_thread()
        q.close()
    if len(results) < nshards:
        results.append({"obligations": [], "undecided": [], "paths": 0, "functions": {}, "used_contracts": set(), "assumptions": set(),
                        "error": f"{nshards - len(results)} shard worker(s) died without a result", "queries": 0, "solver_s": 0.0, "wall": 0.0})
    # the same (label, message) may be recorded by several workers
    seen = set()
    for r in results:
        r["undecided"] = [u for u in r["undecided"] if not (u in seen or seen.add(u))]
    return results


def run_parallel(spec, factory, tasks, nproc=None, timeout_ms=10000):
    """tasks: list of callables task(spec).  Results are merged into `spec` (records instead of z3 obligations).
    A task with attribute `shards = N` is explored by N workers (every prefix by exactly one of them)."""
    import multiprocessing as mp
    ctx = mp.get_context("fork")
    _TASKS["factory"], _TASKS["tasks"] = factory, list(tasks)   # inherited by the forked workers
    plain = [i for i, t in enumerate(tasks) if not getattr(t, "shards", 0)]
    results = []
    if plain:
        with ctx.Pool(nproc or min(16, max(1, len(plain)))) as pool:
            results += pool.map(_worker, [(i, timeout_ms) for i in plain], chunksize=1)
    for i, t in enumerate(tasks):
        if getattr(t, "shards", 0):
            results += _run_sharded(ctx, i, timeout_ms, t.shards)
    faults = []
    if os.environ.get("PYVC_TIMES"):
        for i in plain:
            print("TASK", tasks[i].__name__, round(results[plain.index(i)]["wall"], 1), "s", file=_sys.stderr)
    for r in results:
        spec.obligations.extend(r["obligations"])
        spec.undecided.extend(r["undecided"])
        spec.path_count += r["paths"]
        spec.functions.update(r["functions"])
        spec.used_contracts |= r["used_contracts"]
        spec.assumptions |= r["assumptions"]
        state.STATS.queries += r["queries"]
        state.STATS.seconds += r["solver_s"]
        if r["error"]:
            faults.append(r["error"])
    return faults
