"""Value sorts, heap and symbolic state of the pyvc engine.

Encoding assumptions (reported in every evidence file):
  * Python int  -> mathematical Int (exact: Python ints are unbounded)
  * Python float -> Real (machine floats treated as mathematical; only where a spec says so)
  * bool and int are distinct tags (True == 1 is NOT modelled)
  * str -> z3 String (code point sequences)
  * every dict/list/set/instance is a heap object addressed by an integer reference; contents live in
    z3 arrays indexed by the reference, so aliasing is sound by construction
  * heap well-formedness: a reference read out of the heap was allocated before the read
"""
from __future__ import annotations
import z3

# Select on a lambda-defined array is beta-reduced eagerly (framed heaps are lambda arrays; leaving the
# redex to the solver makes dispatch queries slow or inconclusive)
_orig_select = z3.Select


_KEEPALIVE = []
FRAME_INFO = {}       # id of a framed heap array constant -> (the array, old array, keep(r) -> Bool)
PENDING_FACTS = []    # quantifier-free instances of frame axioms produced by reads; part of every query of the current path
#                       (kept outside the state's pc so that snapshot/restore of a state never loses them; reset per path)


def reset_frames():
    FRAME_INFO.clear()
    del PENDING_FACTS[:]
    _EMITTED.clear()
    del _KEEPALIVE[:]


def _frame_bases(a, out, depth=0):
    if depth > 60:
        return
    if z3.is_const(a):
        info = FRAME_INFO.get(a.get_id())
        if info is not None:
            out.append(info)
        return
    if z3.is_app(a):
        k = a.decl().kind()
        if k == z3.Z3_OP_STORE:
            _frame_bases(a.arg(0), out, depth + 1)
        elif k == z3.Z3_OP_ITE:
            _frame_bases(a.arg(1), out, depth + 1)
            _frame_bases(a.arg(2), out, depth + 1)


_EMITTED = set()


def _select(a, *idx):
    if z3.is_quantifier(a) and a.is_lambda() and len(idx) == a.num_vars():
        body = z3.substitute_vars(a.body(), *[i if isinstance(i, z3.ExprRef) else z3.IntVal(i) for i in reversed(idx)])
        return z3.simplify(body)
    if FRAME_INFO and len(idx) == 1:
        bases = []
        _frame_bases(a, bases)
        if bases:
            i0 = idx[0] if isinstance(idx[0], z3.ExprRef) else z3.IntVal(idx[0])
            if z3.is_const(i0) and i0.decl().name().startswith(("r!", "j!", "i!", "k!")):
                return _orig_select(a, *idx)        # a bound variable of a formula under construction: not a read
            for (arr, old, keep) in bases:
                key = (arr.get_id(), i0.get_id())
                if key not in _EMITTED:
                    _EMITTED.add(key)
                    # instance of the frame axiom at this index (reads of the old array recurse through older frames)
                    PENDING_FACTS.append(z3.Implies(keep(i0), _orig_select(arr, i0) == _select(old, i0)))
    return _orig_select(a, *idx)


z3.Select = _select

# ----------------------------------------------------------------------------------------------
# The universal value sort
# ----------------------------------------------------------------------------------------------
_V = z3.Datatype("V")
_V.declare("none")
_V.declare("bool", ("b", z3.BoolSort()))
_V.declare("int", ("i", z3.IntSort()))
_V.declare("str", ("s", z3.StringSort()))
_V.declare("real", ("r", z3.RealSort()))
_V.declare("ref", ("id", z3.IntSort()))      # mutable heap object
_V.declare("obj", ("oid", z3.IntSort()))     # opaque object (user data, processors, sentinels)
_V.declare("cls", ("cid", z3.IntSort()))     # class token
_V.declare("fn", ("fid", z3.IntSort()))      # function token
_V.declare("tup", ("items", z3.SeqSort(z3.DatatypeSort("V"))))
V = _V.create()
VSeq = z3.SeqSort(V)
VSet = z3.ArraySort(V, z3.BoolSort())
VMap = z3.ArraySort(V, V)

NONE = V.none
I = z3.IntSort()
B = z3.BoolSort()


def vint(x):
    return V.int(z3.IntVal(x) if isinstance(x, int) else x)


def vstr(x):
    return V.str(z3.StringVal(x) if isinstance(x, str) else x)


def vbool(x):
    return V.bool(z3.BoolVal(x) if isinstance(x, bool) else x)


def vref(x):
    return V.ref(z3.IntVal(x) if isinstance(x, int) else x)


def vtup(items):
    items = list(items)
    if not items:
        return V.tup(z3.Empty(VSeq))
    if len(items) == 1:
        return V.tup(z3.Unit(items[0]))
    return V.tup(z3.Concat(*[z3.Unit(x) for x in items]))


def is_v(x):
    return isinstance(x, z3.ExprRef) and x.sort() == V


# kinds of heap objects
K_DICT, K_LIST, K_SET, K_INST = 1, 2, 3, 4

# uninterpreted helpers shared by all specs
issub = z3.Function("issub", I, I, B)            # subclass relation on class ids
objcls = z3.Function("objcls", I, I)             # class id of an opaque object
VArr = z3.ArraySort(z3.IntSort(), V)               # element array of a list / order oracle
SortedArr = z3.Function("SortedArr", VSet, VArr)    # sorted(set): a function of the *set* (order-free)
SetOfArr = z3.Function("SetOfArr", VArr, z3.IntSort(), VSet)   # elements of arr[0..n)
TupToArr = z3.Function("TupToArr", VSeq, VArr)
StrOf = z3.Function("StrOf", V, z3.StringSort())  # str(x) / f"{x}" for non-str x
ReprOf = z3.Function("ReprOf", V, z3.StringSort())
vlt = z3.Function("vlt", V, V, B)                # '<' on values of unknown/str type (total order on str)

_fresh_n = [0]


def fresh(prefix, sort=None):
    _fresh_n[0] += 1
    return z3.Const(f"{prefix}!{_fresh_n[0]}", sort if sort is not None else V)


def _Vsort():
    return V


class Heap:
    """All heap components are z3 terms; `fld`/`has` map attribute name -> array."""

    ARR = ("kind", "cls", "ddom", "dval", "dord", "dlen", "larr", "llen", "sdom", "slen")

    def __init__(self, tag="h0", floor=0):
        self.floor = floor      # references > floor did not exist when this heap's base arrays were named
        self.axioms = []
        self.kind = z3.Const(f"{tag}.kind", z3.ArraySort(I, I))
        self.cls = z3.Const(f"{tag}.cls", z3.ArraySort(I, I))
        self.ddom = z3.Const(f"{tag}.ddom", z3.ArraySort(I, VSet))
        self.dval = z3.Const(f"{tag}.dval", z3.ArraySort(I, VMap))
        self.dord = z3.Const(f"{tag}.dord", z3.ArraySort(I, VArr))
        self.dlen = z3.Const(f"{tag}.dlen", z3.ArraySort(I, I))
        self.larr = z3.Const(f"{tag}.larr", z3.ArraySort(I, VArr))
        self.llen = z3.Const(f"{tag}.llen", z3.ArraySort(I, I))
        self.sdom = z3.Const(f"{tag}.sdom", z3.ArraySort(I, VSet))
        self.slen = z3.Const(f"{tag}.slen", z3.ArraySort(I, I))
        self.fld = {}
        self.has = {}
        self.tag = tag
        # closure of the base heap: references stored in it denote objects that existed (id <= floor)
        r, i = z3.Int("r!cl"), z3.Int("i!cl")
        k = z3.Const("k!cl", _Vsort())
        e1 = z3.Select(z3.Select(self.larr, r), i)
        e2 = z3.Select(z3.Select(self.dval, r), k)
        e3 = z3.Select(z3.Select(self.dord, r), i)
        for e, vs in ((e1, [r, i]), (e2, [r, k]), (e3, [r, i])):
            self.axioms.append(z3.ForAll(vs, z3.Implies(_Vsort().is_ref(e), _Vsort().id(e) <= floor), patterns=[e]))

    def copy(self):
        h = Heap.__new__(Heap)
        for a in Heap.ARR:
            setattr(h, a, getattr(self, a))
        h.fld = dict(self.fld)
        h.has = dict(self.has)
        h.tag = self.tag
        h.floor = self.floor
        h.axioms = self.axioms
        h.framed = getattr(self, "framed", None)
        return h

    def field(self, name):
        if name not in self.fld and getattr(self, "framed", None) is not None:
            # a heap produced by a framed havoc: fields first mentioned later are framed the same way
            old, keep_fld, keep_has, base, link = self.framed
            bf = base.field(name)
            bh = base.hasf(name)
            self.fld[name] = bf
            self.has[name] = bh
            link(bf, old.field(name), lambda rr, n=name: keep_fld(rr, n))
            link(bh, old.hasf(name), lambda rr, n=name: keep_has(rr, n))
            for a in base.axioms:
                if not any(a.eq(b) for b in self.axioms):
                    self.axioms.append(a)
            return self.fld[name]
        if name not in self.fld:
            self.fld[name] = z3.Const(f"{self.tag}.fld.{name}", z3.ArraySort(I, V))
            self.has[name] = z3.Const(f"{self.tag}.has.{name}", z3.ArraySort(I, B))
            r = z3.Const("r!has", I)
            self.axioms.append(z3.ForAll([r], z3.Implies(r > self.floor, z3.Not(z3.Select(self.has[name], r))),
                                         patterns=[z3.Select(self.has[name], r)]))
            e = z3.Select(self.fld[name], r)
            self.axioms.append(z3.ForAll([r], z3.Implies(V.is_ref(e), V.id(e) <= self.floor), patterns=[e]))
        return self.fld[name]

    def hasf(self, name):
        self.field(name)
        return self.has[name]

    def components(self):
        out = [(a, getattr(self, a)) for a in Heap.ARR]
        for n in sorted(self.fld):
            out.append(("fld." + n, self.fld[n]))
            out.append(("has." + n, self.has[n]))
        return out


def merge_heaps(c, h1, h2):
    """If(c, h1, h2) component-wise."""
    h = h1.copy()
    for a in Heap.ARR:
        x, y = getattr(h1, a), getattr(h2, a)
        if not x.eq(y):
            setattr(h, a, z3.If(c, x, y))
    names = set(h1.fld) | set(h2.fld)
    for n in names:
        x, y = h1.field(n), h2.field(n)
        h.fld[n] = x if x.eq(y) else z3.If(c, x, y)
        if h2.axioms is not h.axioms:
            for a in h2.axioms:
                if not any(a.eq(b) for b in h.axioms):
                    h.axioms.append(a)
        x, y = h1.hasf(n), h2.hasf(n)
        h.has[n] = x if x.eq(y) else z3.If(c, x, y)
    return h


def Nth(seq, i):
    """element i of a z3 sequence (seq.nth)"""
    return seq[i]


EMPTY_ARR = z3.K(z3.IntSort(), V.none)


class Sq:
    """Host-level immutable sequence value: element array + length (lists, order oracles, views).
    Arrays make element access a Select, so quantified invariants instantiate by E-matching."""

    def __init__(self, arr, n):
        self.arr = arr
        self.n = n if isinstance(n, z3.ExprRef) else z3.IntVal(n)

    @staticmethod
    def of(items):
        arr = EMPTY_ARR
        items = list(items)
        for i, x in enumerate(items):
            arr = z3.Store(arr, i, x)
        return Sq(arr, z3.IntVal(len(items)))

    @staticmethod
    def from_tuple(t):
        """Sq of a V.tup value"""
        raw = V.items(t)
        if z3.is_app(t) and t.decl().kind() == z3.Z3_OP_DT_CONSTRUCTOR and t.num_args() == 1:
            raw = t.arg(0)
        units = _seq_units_raw(raw)
        if units is None:
            units = _seq_units(z3.simplify(raw))
        if units is not None:
            return Sq.of(units)
        seq = z3.simplify(raw)
        return Sq(TupToArr(seq), z3.Length(seq))

    def at(self, i):
        return z3.Select(self.arr, i)

    def units(self):
        n = z3.simplify(self.n)
        if z3.is_int_value(n) and n.as_long() <= 64:
            return [z3.simplify(z3.Select(self.arr, i)) for i in range(n.as_long())]
        return None

    def append(self, x):
        return Sq(z3.Store(self.arr, self.n, x), self.n + 1)

    def concat(self, other):
        u = other.units()
        if u is not None:
            cur = self
            for x in u:
                cur = cur.append(x)
            return cur
        i = z3.Int("i!cat")
        return Sq(z3.Lambda([i], z3.If(i < self.n, z3.Select(self.arr, i), z3.Select(other.arr, i - self.n))),
                  self.n + other.n)

    def slice(self, a, b):
        i = z3.Int("i!sl")
        return Sq(z3.Lambda([i], z3.Select(self.arr, i + a)), b - a)

    def to_tuple(self):
        u = self.units()
        if u is None:
            return V.tup(z3.Function("ArrToTup", VArr, z3.IntSort(), VSeq)(self.arr, self.n))
        return vtup(u)

    def set_term(self):
        u = self.units()
        if u is not None:
            d = z3.K(V, z3.BoolVal(False))
            for x in u:
                d = z3.Store(d, x, True)
            return d
        return SetOfArr(self.arr, self.n)

    def eq(self, other):
        i = z3.Int("i!sqeq")
        ua, ub = self.units(), other.units()
        if ua is not None and ub is not None:
            if len(ua) != len(ub):
                return z3.BoolVal(False)
            return z3.And([a == b for a, b in zip(ua, ub)]) if ua else z3.BoolVal(True)
        return z3.And(self.n == other.n,
                      z3.ForAll([i], z3.Implies(z3.And(i >= 0, i < self.n), self.at(i) == other.at(i))))


def _seq_units_raw(seq):
    out = []

    def walk(t):
        if z3.is_app(t):
            k = t.decl().kind()
            if k == z3.Z3_OP_SEQ_EMPTY:
                return True
            if k == z3.Z3_OP_SEQ_UNIT:
                out.append(t.arg(0))
                return True
            if k == z3.Z3_OP_SEQ_CONCAT:
                return all(walk(c) for c in t.children())
        return False
    return out if walk(seq) else None


def _seq_units(seq):
    s = z3.simplify(seq)
    out = []

    def walk(t):
        if z3.is_app(t):
            k = t.decl().kind()
            if k == z3.Z3_OP_SEQ_EMPTY:
                return True
            if k == z3.Z3_OP_SEQ_UNIT:
                out.append(t.arg(0))
                return True
            if k == z3.Z3_OP_SEQ_CONCAT:
                return all(walk(c) for c in t.children())
        return False
    return out if walk(s) else None


def forall(vs, body, patterns=()):
    """ForAll with patterns when z3 accepts them (a pattern may beta-reduce to a non-pattern term)"""
    pats = []
    for p in patterns:
        if z3.is_app(p) and p.decl().kind() in (z3.Z3_OP_SELECT, z3.Z3_OP_UNINTERPRETED) and _pattern_ok(p):
            pats.append(p)
    if pats and len(pats) == len(list(patterns)):
        try:
            return z3.ForAll(vs, body, patterns=pats)
        except z3.Z3Exception:
            pass
    return z3.ForAll(vs, body)


_BAD_PATTERN_OPS = {z3.Z3_OP_ITE, z3.Z3_OP_AND, z3.Z3_OP_OR, z3.Z3_OP_NOT, z3.Z3_OP_EQ, z3.Z3_OP_IMPLIES, z3.Z3_OP_LE, z3.Z3_OP_LT,
                    z3.Z3_OP_GE, z3.Z3_OP_GT, z3.Z3_OP_DISTINCT, z3.Z3_OP_XOR}


def _pattern_ok(t):
    stack = [t]
    seen = set()
    while stack:
        x = stack.pop()
        if z3.is_quantifier(x):
            return False
        if x.get_id() in seen:
            continue
        seen.add(x.get_id())
        if z3.is_app(x) and x.decl().kind() in _BAD_PATTERN_OPS:
            return False
        stack.extend(x.children())
    return True


def _has_lambda(t):
    stack = [t]
    seen = set()
    while stack:
        x = stack.pop()
        if z3.is_quantifier(x):
            return True
        if x.get_id() in seen:
            continue
        seen.add(x.get_id())
        stack.extend(x.children())
    return False
