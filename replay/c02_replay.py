"""Native replay for C02 deductive refutations: the bounded inspect->validate->run harness supplies concrete pipelines."""
import json, sys, subprocess, os
req = json.load(sys.stdin)
here = os.path.dirname(os.path.abspath(__file__))
p = subprocess.run([sys.executable, os.path.join(here, "c02_bounded.py")], input=json.dumps({"tier": "quick", "seed": 0}),
                   capture_output=True, text=True, env=os.environ)
try:
    res = json.loads([l for l in p.stdout.splitlines() if l.startswith("{")][-1])
    print(json.dumps({"violates": bool(res["failures"]), "failures": res["failures"][:5], "obligation": req.get("obligation")}))
except Exception as e:
    print(json.dumps({"violates": False, "error": repr(e), "stderr": p.stderr[-300:]}))
