"""Bounded stand-in for C09 (labelled bounded): real run-space launches through the CLI entry point (in-process).
Run-time contract:
  * the launch performs the planned runs in plan order; run i's sink output and trace content (every SER field except run id,
    timing, timestamps and the run-space pins) equal those of a standalone `semantiva run` given run i's context;
  * one run_space_start and one run_space_end bracket the launch (also when run k fails: planned = n, completed = k, status failed);
    every pipeline_start carries the launch id, attempt, 0-based index and the planned context of its run;
  * run_space_spec_id: inspect payload == trace; invariant under cosmetic YAML edits; different for different plans;
  * launch id: explicit id used verbatim; idempotency key reproducible and key-sensitive; generated ids differ; attempt recorded;
  * run_space_inputs_id changes exactly when a referenced file's content changes.
Bound: 3 pipelines x run spaces of 1..3 runs (4 thorough) x file/directory trace output x failing index; 6 cosmetic rewrites and
6 single-point mutations of the run_space block, 10 string values differing only in line-boundary characters; 3 launch-id modes; 3 file edits."""
import contextlib, io, json, sys, tempfile, logging, copy, shutil
logging.disable(logging.CRITICAL)
from pathlib import Path
import yaml
from semantiva.cli import main
from semantiva.inspection.builder import build_inspection_payload

req = json.load(sys.stdin)
thorough = req.get("tier") == "thorough"
failures, evaluations, distinct, samples = [], 0, set(), []
root = Path(tempfile.mkdtemp())
HEAD = 'extensions: ["semantiva-examples"]\n'
PIPES = {
    "source-multiply-sink": ["FloatValueDataSourceWithDefault", "FloatMultiplyOperation", ("FloatTxtFileSaver", None)],
    "with-probe": ["FloatValueDataSourceWithDefault", "FloatMultiplyOperation", ("FloatCollectValueProbe", "seen"), ("FloatTxtFileSaver", None)],
    "probe-then-rename": ["FloatValueDataSourceWithDefault", ("FloatCollectValueProbe", "first"), "FloatMultiplyOperation", ("FloatCollectValueProbe", "second"),
                          "rename:second:final", ("FloatTxtFileSaver", None)],
}


def nodes_yaml(pipe):
    out = "pipeline:\n  nodes:\n"
    for n in PIPES[pipe]:
        if isinstance(n, tuple):
            out += f"    - processor: {n[0]}\n" + (f"      context_key: {n[1]}\n" if n[1] else "")
        else:
            out += f"    - processor: {n}\n"
    return out


def run_cli(argv):
    out, err = io.StringIO(), io.StringIO()
    code = None
    with contextlib.redirect_stdout(out), contextlib.redirect_stderr(err):
        try:
            main(argv)
        except SystemExit as exc:
            code = exc.code
        except BaseException as exc:      # noqa
            code = f"raised {exc!r}"
    return code, out.getvalue(), err.getvalue()


def records(path):
    recs = []
    files = sorted(p for p in path.rglob("*") if p.is_file()) if path.is_dir() else ([path] if path.exists() else [])
    for p in files:
        for line in p.read_text().splitlines():
            if line.strip():
                recs.append(json.loads(line))
    recs.sort(key=lambda r: r.get("seq", 0))      # one driver numbers all records of a launch; directory output spreads them over files
    return recs


def norm_ser(r):
    r = copy.deepcopy(r)
    r.get("identity", {}).pop("run_id", None)
    for k in ("timing", "timestamp", "seq"):
        r.pop(k, None)
    for k in list(r):
        if k.startswith("run_space_"):
            r.pop(k)
    return r


def fail(cls, **info):
    failures.append(dict(info, **{"class": cls}))


def launch_case(pipe, n, as_dir, fail_at=None):
    global evaluations
    evaluations += 1
    d = root / f"l{evaluations}"
    d.mkdir()
    factors = [float(i + 2) for i in range(n)]
    paths = [str(d / f"r{i}.txt") if i != fail_at else str(d / "missing_dir" / "x.txt") for i in range(n)]
    rs = {"blocks": [{"mode": "by_position", "context": {"factor": factors, "path": paths}}]}
    cfg = d / "p.yaml"
    cfg.write_text(HEAD + nodes_yaml(pipe) + yaml.safe_dump({"run_space": rs}))
    tr = d / ("trace" if as_dir else "trace.jsonl")
    code, out, err = run_cli(["run", str(cfg), "--trace.driver", "jsonl", "--trace.output", str(tr), "-q", "--trace.option", "detail=all",
                              "--run-space-attempt", "2"])
    info = {"pipe": pipe, "runs": n, "dir": as_dir, "fail_at": fail_at, "exit": code}
    distinct.add((pipe, n, as_dir, fail_at))
    recs = records(tr)
    launch_out = {i: Path(p_).read_text() for i, p_ in enumerate(paths) if Path(p_).exists()}
    starts = [r for r in recs if r["record_type"] == "run_space_start"]
    ends = [r for r in recs if r["record_type"] == "run_space_end"]
    pstarts = [r for r in recs if r["record_type"] == "pipeline_start"]
    if len(starts) != 1 or len(ends) != 1:
        return fail("run_space_start/end-not-exactly-once", **info, starts=len(starts), ends=len(ends), stderr=err[-300:])
    done = n if fail_at is None else fail_at
    summ = ends[0].get("summary", {})
    if summ.get("planned_runs") != n or summ.get("completed_runs") != done or (summ.get("status") == "failed") != (fail_at is not None):
        fail("run_space_end-counts-or-status-wrong", **info, summary=summ)
    if starts[0].get("run_space_planned_run_count") != n:
        fail("run_space_start-planned-count-wrong", **info)
    launch_id, attempt = starts[0]["run_space_launch_id"], starts[0]["run_space_attempt"]
    if attempt != 2 or ends[0]["run_space_launch_id"] != launch_id or ends[0]["run_space_attempt"] != 2:
        fail("launch-id-or-attempt-not-shared-by-start-and-end", **info)
    want_started = n if fail_at is None else fail_at + 1
    if len(pstarts) != want_started:
        return fail("number-of-started-runs-wrong", **info, started=len(pstarts), want=want_started)
    by_run = {}
    for r in recs:
        if r["record_type"] == "ser":
            by_run.setdefault(r["identity"]["run_id"], []).append(r)
    for i, ps in enumerate(pstarts):
        planned = {"factor": factors[i], "path": paths[i]}
        if ps.get("run_space_index") != i or ps.get("run_space_launch_id") != launch_id or ps.get("run_space_attempt") != 2:
            fail("pipeline_start-launch-pins-wrong", **info, index=i, got={k: ps.get(k) for k in ("run_space_index", "run_space_launch_id", "run_space_attempt")})
        if ps.get("run_space_context") != planned:
            fail("pipeline_start-context-is-not-the-planned-context", **info, index=i, got=ps.get("run_space_context"), want=planned)
        if i == fail_at:
            continue
        # standalone run with run i's context
        sd = d / f"solo{i}"
        sd.mkdir()
        scfg = sd / "p.yaml"
        scfg.write_text(HEAD + nodes_yaml(pipe))
        solo_path = paths[i]         # the same context value, so that context summaries are comparable; the launch's output was read above
        Path(solo_path).unlink(missing_ok=True)
        scode, _, serr = run_cli(["run", str(scfg), "--context", f"factor={factors[i]}", "--context", f"path={solo_path}",
                                  "--trace.driver", "jsonl", "--trace.output", str(sd / "trace"), "-q", "--trace.option", "detail=all"])
        if scode != 0:
            fail("standalone-run-failed", **info, index=i, stderr=serr[-300:])
            continue
        if launch_out.get(i) != Path(solo_path).read_text():
            fail("run-result-differs-from-standalone-run", **info, index=i)
        solo_sers = [norm_ser(r) for r in records(sd / "trace") if r["record_type"] == "ser"]
        mine = [norm_ser(r) for r in by_run.get(ps["run_id"], [])]
        a = json.dumps(mine, sort_keys=True).replace(paths[i], "<PATH>")
        b = json.dumps(solo_sers, sort_keys=True).replace(solo_path, "<PATH>")
        if a != b:
            k = next((j for j in range(min(len(mine), len(solo_sers))) if json.dumps(mine[j], sort_keys=True).replace(paths[i], "<PATH>") != json.dumps(solo_sers[j], sort_keys=True).replace(solo_path, "<PATH>")), None)
            diff_keys = []
            if k is not None:
                diff_keys = [key for key in mine[k] if json.dumps(mine[k].get(key), sort_keys=True).replace(paths[i], "<PATH>") != json.dumps(solo_sers[k].get(key), sort_keys=True).replace(solo_path, "<PATH>")]
            fail("run-trace-differs-from-standalone-run", **info, index=i, ser=k, fields=diff_keys, lens=[len(mine), len(solo_sers)],
                 detail=[(json.dumps(mine[k].get(key), sort_keys=True)[:600], json.dumps(solo_sers[k].get(key), sort_keys=True)[:600]) for key in diff_keys[:1]] if k is not None else None)
    if len(samples) < 2:
        samples.append(dict(info, started=len(pstarts), summary=summ))


for pipe in PIPES:
    for n in ((1, 2, 3, 4) if thorough else (1, 2, 3)):
        launch_case(pipe, n, n % 2 == 0)
        for k in range(n):
            if thorough or (k + n) % 2 == 0:
                launch_case(pipe, n, (n + k) % 2 == 1, fail_at=k)


# ---- spec id: inspect == trace, cosmetic rewrites, mutations ------------------------------------------------------------------
def spec_ids(text, extra=()):
    global evaluations
    evaluations += 1
    d = root / f"s{evaluations}"
    d.mkdir()
    cfg = d / "p.yaml"
    cfg.write_text(text.replace("{dir}", str(d)))
    insp = build_inspection_payload(yaml.safe_load(cfg.read_text()))["identity"]["run_space"]
    insp_id = insp.get("spec_id") if isinstance(insp, dict) else None
    code, out, err = run_cli(["run", str(cfg), "--trace.driver", "jsonl", "--trace.output", str(d / "trace"), "-q", *extra])
    starts = [r for r in records(d / "trace") if r["record_type"] == "run_space_start"]
    return insp_id, (starts[0] if starts else None), code, err


BASE = HEAD + nodes_yaml("source-multiply-sink") + """run_space:
  blocks:
    - mode: by_position
      context:
        factor: [2.0, 3.0]
        path: ["{dir}/a.txt", "{dir}/b.txt"]
"""
COSMETIC = {
    "comments-and-blank-lines": BASE.replace("run_space:\n", "run_space:   # the plan\n\n"),
    "key-order": HEAD + nodes_yaml("source-multiply-sink") + "run_space:\n  blocks:\n    - context:\n        path: [\"{dir}/a.txt\", \"{dir}/b.txt\"]\n        factor: [2.0, 3.0]\n      mode: by_position\n",
    "block-style-lists": BASE.replace("factor: [2.0, 3.0]", "factor:\n          - 2.0\n          - 3.0"),
    "quoting": BASE.replace("mode: by_position", "mode: 'by_position'"),
    "run_space-before-pipeline": HEAD + "run_space:\n  blocks:\n    - mode: by_position\n      context:\n        factor: [2.0, 3.0]\n        path: [\"{dir}/a.txt\", \"{dir}/b.txt\"]\n" + nodes_yaml("source-multiply-sink"),
    "flow-mapping": HEAD + nodes_yaml("source-multiply-sink") + "run_space: {blocks: [{mode: by_position, context: {factor: [2.0, 3.0], path: [\"{dir}/a.txt\", \"{dir}/b.txt\"]}}]}\n",
}
MUTATIONS = {
    "value-changed": BASE.replace("[2.0, 3.0]", "[2.0, 3.5]"),
    "values-swapped": BASE.replace("[2.0, 3.0]", "[3.0, 2.0]"),
    "mode-changed": BASE.replace("mode: by_position", "mode: combinatorial"),
    "key-renamed": BASE.replace("factor: [2.0, 3.0]", "factor: [2.0, 3.0]\n        extra: [1, 2]"),
    "combine-changed": BASE.replace("run_space:\n", "run_space:\n  combine: by_position\n"),
    "second-block": BASE + "    - mode: by_position\n      context:\n        other: [1]\n",
}
# the directory differs between evaluations, so the path values are made directory-independent for the id comparison
def ids_for(text):
    t = text.replace("\"{dir}/a.txt\", \"{dir}/b.txt\"", "\"/nonexistent_dir_for_c09/a.txt\", \"/nonexistent_dir_for_c09/b.txt\"")
    return spec_ids(t)


insp0, start0, code0, err0 = ids_for(BASE)
distinct.add(("spec-id", "base"))
if start0 is None:
    fail("launch-did-not-emit-run_space_start", stderr=err0[-300:])
else:
    if insp0 != start0["run_space_spec_id"]:
        fail("spec-id:inspect-differs-from-trace", inspect=insp0, trace=start0["run_space_spec_id"], config="top-level run_space block")
    for name, text in COSMETIC.items():
        i1, s1, c1, e1 = ids_for(text)
        distinct.add(("cosmetic", name))
        if s1 is None or s1["run_space_spec_id"] != start0["run_space_spec_id"]:
            fail("spec-id:changes-under-cosmetic-edit:trace", edit=name)
        if i1 != insp0:
            fail("spec-id:changes-under-cosmetic-edit:inspect", edit=name)
        if s1 is not None and i1 != s1["run_space_spec_id"]:
            fail("spec-id:inspect-differs-from-trace", edit=name, inspect=i1, trace=s1["run_space_spec_id"])
    for name, text in MUTATIONS.items():
        i1, s1, c1, e1 = ids_for(text)
        distinct.add(("mutation", name))
        if s1 is not None and s1["run_space_spec_id"] == start0["run_space_spec_id"]:
            fail("spec-id:unchanged-under-plan-mutation:trace", mutation=name)
        if i1 is not None and i1 == insp0:
            fail("spec-id:unchanged-under-plan-mutation:inspect", mutation=name)
        if s1 is not None and i1 != s1["run_space_spec_id"]:
            fail("spec-id:inspect-differs-from-trace", mutation=name, inspect=i1, trace=s1["run_space_spec_id"])
    # string values that differ only in a trailing newline or in a line-boundary character are different plans (the canonical
    # form folds CR/CRLF into LF and nothing else): the ids of this family must be pairwise distinct, in inspect and trace alike
    STRING_FAMILY = {"plain": "a.txt", "trailing-newline": "a.txt\\n", "inner-newline": "a\\n.txt", "form-feed": "a\\x0c.txt",
                     "vertical-tab": "a\\x0b.txt", "file-separator": "a\\x1c.txt", "next-line": "a\\x85.txt",
                     "line-separator": "a\\u2028.txt", "paragraph-separator": "a\\u2029.txt", "space": "a .txt"}
    seen_trace, seen_insp = {}, {}
    for name, leaf in STRING_FAMILY.items():
        i1, s1, c1, e1 = spec_ids(BASE.replace("\"{dir}/a.txt\", \"{dir}/b.txt\"", "\"/nonexistent_dir_for_c09/" + leaf + "\", \"/nonexistent_dir_for_c09/b.txt\""))
        distinct.add(("string-family", name))
        if s1 is None or i1 is None:
            continue
        if s1 is not None and i1 != s1["run_space_spec_id"]:
            fail("spec-id:inspect-differs-from-trace", string_value=name, inspect=i1, trace=s1["run_space_spec_id"])
        if s1["run_space_spec_id"] in seen_trace:
            fail("spec-id:different-string-values-share-one-id:trace", values=[seen_trace[s1["run_space_spec_id"]], name])
        if i1 in seen_insp:
            fail("spec-id:different-string-values-share-one-id:inspect", values=[seen_insp[i1], name])
        seen_trace.setdefault(s1["run_space_spec_id"], name)
        seen_insp.setdefault(i1, name)
# nested placement (pipeline.run_space)
NESTED = HEAD + "pipeline:\n  run_space:\n    blocks:\n      - mode: by_position\n        context:\n          factor: [2.0, 3.0]\n          path: [\"/nonexistent_dir_for_c09/a.txt\", \"/nonexistent_dir_for_c09/b.txt\"]\n" + nodes_yaml("source-multiply-sink").split("pipeline:\n", 1)[1]
i2, s2, c2, e2 = spec_ids(NESTED)
distinct.add(("spec-id", "nested"))
if s2 is not None and i2 != s2["run_space_spec_id"]:
    fail("spec-id:inspect-differs-from-trace", config="run_space nested under pipeline", inspect=i2, trace=s2["run_space_spec_id"])

# ---- launch ids --------------------------------------------------------------------------------------------------------------
OK = BASE
a = spec_ids(OK, ["--run-space-launch-id", "my-launch-7", "--run-space-attempt", "3"])[1]
b1 = spec_ids(OK.replace("{dir}", "/nonexistent_dir_for_c09"), ["--run-space-idempotency-key", "k1"])[1]
b2 = spec_ids(OK.replace("{dir}", "/nonexistent_dir_for_c09"), ["--run-space-idempotency-key", "k1"])[1]
b3 = spec_ids(OK.replace("{dir}", "/nonexistent_dir_for_c09"), ["--run-space-idempotency-key", "k2"])[1]
b4 = spec_ids(OK.replace("{dir}", "/nonexistent_dir_for_c09"), ["--run-space-idempotency-key", "k1", "--run-space-attempt", "2"])[1]
if not b4 or b4["run_space_attempt"] != 2:
    fail("launch-id:attempt-not-recorded-with-an-idempotency-key", got=b4 and b4.get("run_space_attempt"))
elif b1 and b4["run_space_launch_id"] != b1["run_space_launch_id"]:
    fail("launch-id:idempotent-id-depends-on-the-attempt")
g1, g2 = spec_ids(OK)[1], spec_ids(OK)[1]
distinct |= {("launch-id", m) for m in ("explicit", "idempotency", "generated")}
if not a or a["run_space_launch_id"] != "my-launch-7" or a["run_space_attempt"] != 3:
    fail("launch-id:explicit-id-or-attempt-not-used", got=a and {k: a[k] for k in ("run_space_launch_id", "run_space_attempt")})
if not (b1 and b2 and b3) or b1["run_space_launch_id"] != b2["run_space_launch_id"]:
    fail("launch-id:idempotency-key-not-reproducible")
elif b1["run_space_launch_id"] == b3["run_space_launch_id"]:
    fail("launch-id:different-idempotency-keys-give-the-same-id")
if not (g1 and g2) or g1["run_space_launch_id"] == g2["run_space_launch_id"]:
    fail("launch-id:generated-ids-repeat")

# ---- inputs id ---------------------------------------------------------------------------------------------------------------
def inputs_case(content, touch=False, inline_first=False):
    global evaluations
    evaluations += 1
    d = root / "inputs"
    d.mkdir(exist_ok=True)
    (d / "runs.csv").write_text(content)
    cfg = d / "p.yaml"
    first = "    - mode: by_position\n      context:\n        note: [\"x\"]\n" if inline_first else ""
    cfg.write_text(HEAD + nodes_yaml("source-multiply-sink") + "run_space:\n  blocks:\n" + first + "    - mode: by_position\n      source:\n        format: csv\n        path: runs.csv\n")
    shutil.rmtree(d / "trace", ignore_errors=True)
    code, out, err = run_cli(["run", str(cfg), "--trace.driver", "jsonl", "--trace.output", str(d / "trace"), "-q"])
    starts = [r for r in records(d / "trace") if r["record_type"] == "run_space_start"]
    return (starts[0] if starts else None), err


csv1 = f"factor,path\n2.0,{root}/inputs/o1.txt\n3.0,{root}/inputs/o2.txt\n"
csv2 = f"factor,path\n2.0,{root}/inputs/o1.txt\n4.0,{root}/inputs/o2.txt\n"
x1, e1 = inputs_case(csv1)
x2, _ = inputs_case(csv1)
x3, _ = inputs_case(csv2)
# the same with a source-less block standing before the block that references the file
y1, _ = inputs_case(csv1, inline_first=True)
y3, _ = inputs_case(csv2, inline_first=True)
distinct |= {("inputs-id", "source-less-block-first")}
if not (y1 and y3):
    fail("inputs-id:launch-with-an-inline-block-before-the-source-block-did-not-start")
elif not y1.get("run_space_inputs_id"):
    fail("inputs-id:absent-although-a-file-is-referenced(source-less-block-first)")
elif y1.get("run_space_inputs_id") == y3.get("run_space_inputs_id"):
    fail("inputs-id:unchanged-although-file-content-changed(source-less-block-first)")
distinct |= {("inputs-id", m) for m in ("same", "rewritten-same-content", "content-changed")}
if not (x1 and x2 and x3):
    fail("inputs-id:launch-with-a-source-file-did-not-start", stderr=e1[-300:])
else:
    if not x1.get("run_space_inputs_id"):
        fail("inputs-id:absent-although-a-file-is-referenced")
    if x1.get("run_space_inputs_id") != x2.get("run_space_inputs_id") or x1["run_space_spec_id"] != x2["run_space_spec_id"]:
        fail("inputs-id:changes-although-file-content-is-the-same")
    if x1.get("run_space_inputs_id") == x3.get("run_space_inputs_id"):
        fail("inputs-id:unchanged-although-file-content-changed")
    if x1["run_space_spec_id"] != x3["run_space_spec_id"]:
        fail("spec-id:changes-with-file-content")

shutil.rmtree(root, ignore_errors=True)
print(json.dumps({"bound": "3 pipelines x run spaces of 1..3 (thorough 4) runs x file/directory trace output x failing run index; 6 cosmetic rewrites, 6 plan mutations, 10 string values differing only in line-boundary characters, nested placement; explicit/idempotent/generated launch ids; 3 source-file edits",
                  "evaluations": evaluations, "distinct_nontrivial": len(distinct),
                  "rule": "distinct = (pipeline, runs, output kind, failing index) or the named identity scenario; launches and standalone runs go through the real CLI",
                  "failures": failures[:40], "samples": samples}, default=str))
