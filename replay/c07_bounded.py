"""Bounded stand-in for C07 (labelled bounded): what the SER of a real traced run says about parameters is true.
Run-time contract: for every node and every parameter name the processor declares, the SER's processor.parameters holds the
JSON-safe form of the value the node actually resolved (configuration > context > signature default) and
processor.parameter_sources names that channel; no parameter the node used is missing.
Bound: 3 processors with (required | defaulted) parameters x the 2^k placements of each parameter in {configuration, context,
neither}; 4 nested mapping values x reversed insertion order at every depth (canonical bytes, delta collector)."""
import json, sys, tempfile, logging, itertools
logging.disable(logging.CRITICAL)
from pathlib import Path
from semantiva.pipeline import Pipeline, Payload
from semantiva.context_processors.context_types import ContextType
from semantiva.data_types import NoDataType
from semantiva.trace.drivers.jsonl import JsonlTraceDriver
from semantiva.pipeline._param_resolution import resolve_runtime_value
from semantiva.examples.test_utils import FloatValueDataSourceWithDefault, FloatMultiplyOperation, FloatOperation, FloatDataType

req = json.load(sys.stdin)
failures, evaluations, distinct, samples = [], 0, set(), []
tmp = Path(tempfile.mkdtemp())


class Affine(FloatOperation):
    """a * x + b with a required gain and a defaulted offset"""

    def _process_logic(self, data, gain: float, offset: float = 1.5):
        return FloatDataType(gain * data.data + offset)


class Flagged(FloatOperation):
    """parameters whose defaults are singletons / interned objects (None, True, 0, a short string)"""

    def _process_logic(self, data, limit=None, enabled: bool = True, shift: int = 0, mode: str = "linear"):
        return FloatDataType(data.data + shift)


CASES = [
    ("source-with-default", FloatValueDataSourceWithDefault, None),
    ("operation-required", FloatMultiplyOperation, FloatValueDataSourceWithDefault),
    ("operation-required+default", Affine, FloatValueDataSourceWithDefault),
]
for label, proc, upstream in CASES:
    from semantiva.pipeline.nodes._pipeline_node_factory import _pipeline_node_factory
    names = list(_pipeline_node_factory({"processor": proc}).processor.get_processing_parameter_names())
    for placement in itertools.product(("config", "context", "neither"), repeat=len(names)):
        cfg, ctx = {}, {}
        for i, (n, where) in enumerate(zip(names, placement)):
            if where == "config":
                cfg[n] = 2.0 + i
            elif where == "context":
                ctx[n] = 10.0 + i
        nodes = ([{"processor": upstream}] if upstream is not None else []) + [{"processor": proc, "parameters": dict(cfg)}]
        evaluations += 1
        out = tmp / f"t{evaluations}.jsonl"
        drv = JsonlTraceDriver(str(out), detail="all")
        try:
            Pipeline(nodes, trace=drv).process(Payload(NoDataType(), ContextType(dict(ctx))))
        except Exception:
            continue                     # an unresolvable required parameter: not a provenance case
        distinct.add((label, placement))
        sers = [json.loads(l) for l in out.read_text().splitlines() if l.strip() and json.loads(l).get("record_type") == "ser"]
        ser = sers[-1]
        params, sources = ser["processor"].get("parameters", {}), ser["processor"].get("parameter_sources", {})
        for n, where in zip(names, placement):
            want_src = {"config": "node", "context": "context", "neither": "default"}[where]
            want_val = cfg.get(n, ctx.get(n))
            case = {"case": label, "parameter": n, "placement": dict(zip(names, placement))}
            if n not in params:
                failures.append(dict(case, **{"class": f"parameter-used-by-the-node-missing-from-the-SER:{want_src}"}))
                continue
            if sources.get(n) != want_src:
                failures.append(dict(case, **{"class": f"parameter-source-wrong:{want_src}", "got": sources.get(n)}))
            if want_val is not None and params[n] != want_val:
                failures.append(dict(case, **{"class": "parameter-value-is-not-the-resolved-value", "got": params[n], "want": want_val}))
        if len(samples) < 2:
            samples.append({"case": label, "placement": dict(zip(names, placement)), "parameters": params, "sources": sources})
# ---- a context value that IS the default object (None / True / 0 / interned string) still comes from the context ----------------
SAME_AS_DEFAULT = {"limit": None, "enabled": True, "shift": 0, "mode": "linear"}
for n_, v_ in SAME_AS_DEFAULT.items():
    evaluations += 1
    distinct.add(("context-value-identical-to-the-default", n_))
    out = tmp / f"same_{n_}.jsonl"
    try:
        Pipeline([{"processor": FloatValueDataSourceWithDefault}, {"processor": Flagged}], trace=JsonlTraceDriver(str(out), detail="all")).process(
            Payload(NoDataType(), ContextType({n_: v_})))
    except Exception as e:       # noqa
        failures.append({"class": "provenance-case-raised", "parameter": n_, "exc": repr(e)[:200]})
        continue
    ser = [json.loads(l) for l in out.read_text().splitlines() if l.strip() and json.loads(l).get("record_type") == "ser"][-1]
    src = ser["processor"].get("parameter_sources", {})
    if src.get(n_) != "context":
        failures.append({"class": "parameter-source-wrong:context-value-identical-to-the-default", "parameter": n_, "got": src.get(n_)})
    for other in SAME_AS_DEFAULT:
        if other != n_ and src.get(other) != "default":
            failures.append({"class": "parameter-source-wrong:default", "parameter": other, "got": src.get(other)})

# ---- timestamps denote UTC whatever the host zone: one traced run in a fresh interpreter per zone ----------------------------------
import os, subprocess
if os.environ.get("C07_TZ_CHILD"):
    import time as _time
    from datetime import datetime, timezone
    out = Path(os.environ["C07_TZ_CHILD"])
    Pipeline([{"processor": FloatValueDataSourceWithDefault}, {"processor": FloatMultiplyOperation, "parameters": {"factor": 2.0}}],
             trace=JsonlTraceDriver(str(out), detail="hash")).process(Payload(NoDataType(), ContextType({})))
    now = datetime.now(timezone.utc)
    bad = []
    for l in out.read_text().splitlines():
        r = json.loads(l)
        stamps = [("timestamp", r.get("timestamp"))] + [(k, (r.get("timing") or {}).get(k)) for k in ("started_at", "finished_at")]
        for k, v in stamps:
            if isinstance(v, str) and v.endswith("Z"):
                t = datetime.fromisoformat(v[:-1]).replace(tzinfo=timezone.utc)
                if abs((now - t).total_seconds()) > 300:
                    bad.append([r.get("record_type"), k, v])
        tm = r.get("timing") or {}
        if tm.get("started_at") and tm.get("finished_at") and tm["started_at"] > tm["finished_at"]:
            bad.append([r.get("record_type"), "started_at>finished_at", tm["started_at"], tm["finished_at"]])
    print("TZCHILD" + json.dumps(bad))
    sys.exit(0)
for zone in ("Asia/Tokyo", "America/Los_Angeles", "Asia/Kathmandu"):
    evaluations += 1
    distinct.add(("timestamps-under-zone", zone))
    env = dict(os.environ, TZ=zone, C07_TZ_CHILD=str(tmp / f"tz_{zone.replace('/', '_')}.jsonl"))
    p = subprocess.run([sys.executable, os.path.abspath(__file__)], input="{}", capture_output=True, text=True, env=env)
    line = next((l for l in p.stdout.splitlines() if l.startswith("TZCHILD")), None)
    if line is None:
        failures.append({"class": "timestamp-zone-case-crashed", "zone": zone, "stderr": p.stderr[-300:]})
    elif json.loads(line[7:]):
        failures.append({"class": "timestamp-does-not-denote-the-UTC-instant", "zone": zone, "examples": json.loads(line[7:])[:3]})

# ---- digests are functions of content: equal contexts (same mapping content at every depth, other insertion order) give the
#      same canonical bytes, and a key rewritten with equal content is not reported as updated ---------------------------------
from semantiva.trace._utils import canonical_json_bytes
from semantiva.trace.delta_collector import DeltaCollector


def reorder(x, flip):
    if isinstance(x, dict):
        items = [(k, reorder(v, flip)) for k, v in x.items()]
        return dict(reversed(items) if flip else items)
    if isinstance(x, list):
        return [reorder(v, flip) for v in x]
    return x


VALUES = [
    {"a": 1, "b": 2.5},
    {"outer": {"x": 1, "y": [1, 2, {"p": 1, "q": 2}]}, "flat": 3},
    {"cfg": {"gain": {"lo": 0.1, "hi": 2.0}, "tags": {"b": 1, "a": 2}}, "n": None},
    [{"k2": 2, "k1": 1}, {"z": {"m": 1, "n": 2}}],
]
for idx, v in enumerate(VALUES):
    evaluations += 1
    distinct.add(("canonical-bytes", idx))
    if canonical_json_bytes(v) != canonical_json_bytes(reorder(v, True)):
        failures.append({"class": "digest-depends-on-mapping-insertion-order", "value": repr(v)[:200]})
    if isinstance(v, dict):
        pre, post = {"payload": v, "other": 1}, {"payload": reorder(v, True), "other": 1}
        evaluations += 1
        delta = DeltaCollector(enable_hash=True, enable_repr=False).compute(pre, post, [])
        upd = delta.get("updated_keys", delta.get("updated", []))
        if "payload" in upd:
            failures.append({"class": "key-rewritten-with-equal-content-reported-as-updated", "value": repr(v)[:200]})

# ---- data digests are functions of the content that flowed: an operation that updates its payload object in place is recorded
#      exactly like one that builds a new object with the same value (input of node k+1 = output of node k) ----------------------
class ScaleInPlace(FloatOperation):
    """same arithmetic as FloatMultiplyOperation, reusing the input object"""

    def _process_logic(self, data, factor: float):
        data.data = data.data * factor
        return data


class AddInPlace(FloatOperation):
    def _process_logic(self, data, addend: float):
        data.data = data.data + addend
        return data


from semantiva.examples.test_utils import FloatAddOperation


def _sers(ops, detail, tag):
    path = tmp / f"inplace_{tag}_{detail.replace(',', '_')}.jsonl"
    nodes = [{"processor": ops[0], "parameters": {"factor": 2.0}}, {"processor": ops[1], "parameters": {"addend": 1.0}}, {"processor": ops[0], "parameters": {"factor": 3.0}}]
    drv = JsonlTraceDriver(str(path), detail=detail)
    try:
        Pipeline(nodes, trace=drv).process(Payload(FloatDataType(3.0), ContextType({})))
    finally:
        drv.close()
    return [json.loads(l) for l in path.read_text().splitlines() if l.strip() and json.loads(l).get("record_type") == "ser"]


for detail in ("hash", "all"):
    evaluations += 2
    distinct.add(("in-place-operation-digests", detail))
    try:
        ref, got = _sers((FloatMultiplyOperation, FloatAddOperation), detail, "copy"), _sers((ScaleInPlace, AddInPlace), detail, "inplace")
    except Exception as e:       # noqa
        failures.append({"class": "in-place-operation-case-raised", "detail": detail, "exc": repr(e)[:200]})
        continue
    for k, (r_, g_) in enumerate(zip(ref, got)):
        for slot in ("input_data", "output_data"):
            a, b = (r_.get("summaries") or {}).get(slot) or {}, (g_.get("summaries") or {}).get(slot) or {}
            for fld_ in ("sha256", "repr"):
                if fld_ in a and a.get(fld_) != b.get(fld_):
                    failures.append({"class": "data-digest-is-not-a-function-of-the-content-that-flowed", "detail": detail, "node": k, "slot": slot, "field": fld_,
                                     "in_place": b.get(fld_), "new_object": a.get(fld_)})
    for k in range(len(got) - 1):
        o_, i_ = (got[k].get("summaries") or {}).get("output_data") or {}, (got[k + 1].get("summaries") or {}).get("input_data") or {}
        if o_.get("sha256") != i_.get("sha256"):
            failures.append({"class": "data-digest-is-not-a-function-of-the-content-that-flowed", "detail": detail, "node": k, "slot": "output->next input"})

# ---- context digests chain: what node k's SER says about the context after it is what node k+1's SER says about the context before
#      it - also across nodes that only delete keys or rename them -------------------------------------------------------------------
from semantiva.examples.test_utils import FloatCollectValueProbe
for detail in ("hash", "all"):
    evaluations += 1
    distinct.add(("context-digest-chain", detail))
    path = tmp / f"chain_{detail}.jsonl"
    nodes = [{"processor": FloatValueDataSourceWithDefault}, {"processor": FloatCollectValueProbe, "context_key": "seen"}, {"processor": "delete:seen"},
             {"processor": FloatCollectValueProbe, "context_key": "again"}, {"processor": "rename:again:kept"}, {"processor": "delete:extra"},
             {"processor": FloatMultiplyOperation, "parameters": {"factor": 2.0}}]
    drv = JsonlTraceDriver(str(path), detail=detail)
    try:
        Pipeline(nodes, trace=drv).process(Payload(NoDataType(), ContextType({"extra": 1})))
    except Exception as e:       # noqa
        failures.append({"class": "context-digest-chain-case-raised", "detail": detail, "exc": repr(e)[:200]})
        continue
    finally:
        drv.close()
    sers = [json.loads(l) for l in path.read_text().splitlines() if l.strip() and json.loads(l).get("record_type") == "ser"]
    for k in range(len(sers) - 1):
        post = ((sers[k].get("summaries") or {}).get("post_context") or {}).get("sha256")
        pre = ((sers[k + 1].get("summaries") or {}).get("pre_context") or {}).get("sha256")
        if post != pre:
            failures.append({"class": "context-digest-is-not-a-function-of-the-context-at-that-point", "detail": detail, "node": k, "post_context_of_node": post, "pre_context_of_next_node": pre})
            break
    # a node that removed a key has a different context after it than before it
    for k in (2, 5):
        s_ = (sers[k].get("summaries") or {}) if k < len(sers) else {}
        if s_.get("pre_context", {}).get("sha256") is not None and s_.get("pre_context", {}).get("sha256") == s_.get("post_context", {}).get("sha256"):
            failures.append({"class": "context-digest-is-not-a-function-of-the-context-at-that-point", "detail": detail, "node": k, "why": "digest unchanged across a deletion"})

# ---- created_keys / updated_keys against the set-difference definition, exhaustively over small contexts whose values include
#      None and other falsy values (a key present with value None is PRESENT) ---------------------------------------------------
import itertools as _it
ABSENT = object()
STATES = [ABSENT, None, 0, 1, "", "x", [1], False]
for (pa, qa), (pb, qb) in _it.product(_it.product(STATES, repeat=2), repeat=2):
    pre = {k: v for k, v in (("a", pa), ("b", pb), ("keep", 7)) if v is not ABSENT}
    post = {k: v for k, v in (("a", qa), ("b", qb), ("keep", 7)) if v is not ABSENT}
    evaluations += 1
    delta = DeltaCollector(enable_hash=False, enable_repr=False).compute(dict(pre), dict(post), [])
    want_created = sorted(set(post) - set(pre))
    want_updated = sorted(k for k in set(post) & set(pre) if not (type(pre[k]) is type(post[k]) and pre[k] == post[k]) and not (pre[k] == post[k]))
    got_created, got_updated = list(delta.get("created_keys", [])), list(delta.get("updated_keys", []))
    if got_created != want_created or got_updated != want_updated:
        failures.append({"class": "created/updated-keys-differ-from-the-before/after-difference", "pre": repr(pre), "post": repr(post),
                         "got": {"created": got_created, "updated": got_updated}, "want": {"created": want_created, "updated": want_updated}})
        break
distinct.add(("delta-exhaustive", len(STATES)))

import shutil
shutil.rmtree(tmp, ignore_errors=True)
print(json.dumps({"bound": "context digest chain over a 7-node pipeline with delete / rename nodes x 2 detail levels; data digests of 3-node pipelines with in-place vs copying operations x 2 detail levels; delta: 2 keys x 8 before-states x 8 after-states (absent, None, 0, 1, '', 'x', [1], False) exhaustively; 3 processors (source with a default, operation with a required parameter, operation with required + defaulted parameter) x every placement of each parameter in {configuration, context, neither}",
                  "evaluations": evaluations, "distinct_nontrivial": len(distinct),
                  "rule": "distinct = (processor, placement vector) of runs that resolved; SER of the last node read back from the JSONL trace",
                  "failures": failures[:40], "samples": samples}, default=str))
