"""Bounded stand-in for C10 (labelled bounded): traced vs untraced native runs; reproducibility of traces.
Run-time contract: attaching a JSONL trace driver at any detail level does not change what a run returns or raises; two runs of
the same configuration on the same payload give identical traces after removing the documented volatile fields (run id,
timestamps, durations, sequence numbers), also with unrelated runs in between and through one reused Pipeline object.
Bound: 15 pipelines (succeeding and failing, with probes, rename/delete, sweeps) x 4 detail levels."""
import json, sys, os, tempfile, logging, copy
logging.disable(logging.CRITICAL)
from pathlib import Path
sys.path.insert(0, os.path.dirname(os.path.abspath(__file__)))
import idlib
from semantiva.pipeline import Pipeline
from semantiva.pipeline.payload import Payload
from semantiva.context_processors.context_types import ContextType
from semantiva.data_types import NoDataType
from semantiva.trace.drivers.jsonl import JsonlTraceDriver

req = json.load(sys.stdin)
thorough = req.get("tier") == "thorough"
VOLATILE = {"run_id", "timestamp", "seq", "started_at", "finished_at", "wall_ms", "cpu_ms", "timing"}
tmp = Path(tempfile.mkdtemp())
failures, evaluations, distinct, samples = [], 0, set(), []
from semantiva.examples.test_utils import FloatOperation as _FloatOperation, FloatDataType as _FloatDataType


class UsesTable(_FloatOperation):
    """an operation whose parameter is a lookup table taken from the context"""

    def _process_logic(self, data, table: dict):
        return _FloatDataType(data.data * len(table))


class RaisesWrapped(_FloatOperation):
    """fails with an exception whose first argument is itself an exception object"""

    def _process_logic(self, data):
        raise RuntimeError(ValueError("inner"))


class RaisesSetArg(_FloatOperation):
    """fails with an exception whose first argument is a set"""

    def _process_logic(self, data):
        raise ValueError({"low", "high"})


class HugeLen(_FloatDataType):
    """a data object whose __len__ raises OverflowError (a size above sys.maxsize)"""

    def __len__(self):
        raise OverflowError("cannot fit 'int' into an index-sized integer")


class MakesHugeLen(_FloatOperation):
    def _process_logic(self, data):
        return HugeLen(data.data)


class UsesItems(_FloatOperation):
    """an operation whose parameter is an iterable taken from the context and consumed once"""

    def _process_logic(self, data, items):
        return _FloatDataType(data.data + sum(items))


class ClipC10(_FloatOperation):
    """min(data, upper) with an unbounded default"""

    def _process_logic(self, data, upper: float = float("inf")):
        return _FloatDataType(min(data.data, upper))


class UsesName(_FloatOperation):
    """an operation with a string parameter (a file name)"""

    def _process_logic(self, data, name: str):
        return _FloatDataType(data.data + len(name))


class RaisesNoArgs(_FloatOperation):
    def _process_logic(self, data):
        raise KeyError()


CONFIGS = [(n, nodes, ctx) for n, nodes, ctx in idlib.base_configs()] + [
    ("fail-exception-wrapping-an-exception", [{"processor": "FloatValueDataSourceWithDefault"}, {"processor": RaisesWrapped}], {}),
    ("fail-exception-with-a-set-argument", [{"processor": "FloatValueDataSourceWithDefault"}, {"processor": RaisesSetArg}], {}),
    ("data-whose-len-raises", [{"processor": "FloatValueDataSourceWithDefault"}, {"processor": MakesHugeLen}, {"processor": "FloatMultiplyOperation", "parameters": {"factor": 2.0}}], {}),
    ("fail-exception-without-arguments", [{"processor": "FloatValueDataSourceWithDefault"}, {"processor": RaisesNoArgs}], {}),
    ("param-mapping-with-mixed-key-types", [{"processor": "FloatValueDataSourceWithDefault"}, {"processor": UsesTable}], {"table": {1: "a", "b": 2}}),
    ("param-not-json-serialisable", [{"processor": "FloatValueDataSourceWithDefault"}, {"processor": UsesTable}], {"table": {"k": {1, 2}, "o": object}}),
    # context values that can be consumed only once: a context given as a callable is built afresh for every run
    ("param-one-shot-iterator", [{"processor": "FloatValueDataSourceWithDefault"}, {"processor": UsesItems}], lambda: {"items": iter([1.0, 2.0, 3.0])}),
    ("param-generator", [{"processor": "FloatValueDataSourceWithDefault"}, {"processor": "FloatSquareOperation"}, {"processor": UsesItems}], lambda: {"items": (x * x for x in (1.0, 2.0)), "other": map(float, (1, 2))}),
    ("first-node-consumes-a-one-shot-iterator", [{"processor": UsesItems}, {"processor": "FloatMultiplyOperation", "parameters": {"factor": 2.0}}], lambda: (_FloatDataType(1.0), {"items": iter([1.5, 2.5, 4.0])})),
    ("first-node-consumes-a-generator", [{"processor": UsesItems}], lambda: (_FloatDataType(1.0), {"items": (x for x in (1.5, 2.5, 4.0))})),
    ("param-non-finite-default", [{"processor": "FloatValueDataSourceWithDefault"}, {"processor": ClipC10}], {}),
    ("param-non-finite-from-context", [{"processor": "FloatValueDataSourceWithDefault"}, {"processor": ClipC10}], {"upper": float("nan")}),
    # strings that are not valid UTF-8 text: a file name with an undecodable byte as os.fsdecode gives it (lone surrogate), NUL, astral
    ("param-string-with-a-lone-surrogate", [{"processor": "FloatValueDataSourceWithDefault"}, {"processor": UsesName}], {"name": "scan_\udcff.dat"}),
    ("param-string-with-nul-and-astral", [{"processor": "FloatValueDataSourceWithDefault"}, {"processor": UsesName, "parameters": {"name": "a\x00b\U0001F600"}}], {}),
    ("fail-unresolved", [{"processor": "FloatValueDataSourceWithDefault"}, {"processor": "FloatMultiplyOperation"}], {}),
    ("fail-type", [{"processor": "FloatValueDataSourceWithDefault"}, {"processor": "FloatCollectionSumOperation"}], {}),
    ("ctx-flow", [{"processor": "FloatValueDataSourceWithDefault"}, {"processor": "FloatCollectValueProbe", "context_key": "factor"},
                  {"processor": "FloatMultiplyOperation"}, {"processor": "rename:factor:kept"}, {"processor": "delete:kept"}], {}),
    ("bad-param", [{"processor": "FloatValueDataSourceWithDefault"}, {"processor": "FloatMultiplyOperation", "parameters": {"factor": 2.0, "bogus": 1}}], {}),
]


def outcome(nodes, ctx, trace=None, pipeline=None):
    p = pipeline or (Pipeline(copy.deepcopy(nodes), trace=trace) if trace else Pipeline(copy.deepcopy(nodes)))
    try:
        c_ = ctx() if callable(ctx) else copy.deepcopy(ctx)
        d_, c_ = c_ if isinstance(c_, tuple) else (NoDataType(), c_)
        out = p.process(Payload(d_, ContextType(c_)))
        d = out.data
        val = getattr(d, "data", None)
        if isinstance(val, list):
            val = [getattr(x, "data", x) for x in val]
        import re as _re
        noaddr = lambda x: _re.sub(r" at 0x[0-9a-fA-F]+", "", repr(x))
        return ("ok", type(d).__name__, repr(val), sorted((k, noaddr(v)) for k, v in out.context.to_dict().items())), p
    except BaseException as e:
        return ("raise", type(e).__name__, str(e)), p


def strip(o):
    if isinstance(o, dict):
        return {k: strip(v) for k, v in o.items() if k not in VOLATILE}
    if isinstance(o, list):
        return [strip(v) for v in o]
    return o


def traced(nodes, ctx, detail, name, pipeline=None):
    global evaluations
    evaluations += 1
    path = tmp / f"{name}_{detail}_{evaluations}.jsonl"
    drv = JsonlTraceDriver(str(path), detail=detail)
    res, p = outcome(nodes, ctx, trace=drv, pipeline=pipeline)
    recs = [json.loads(l) for l in path.read_text().splitlines() if l.strip()] if path.exists() else []
    return res, recs, p, drv


def reused_pipeline_traces(nodes, ctx, detail, name):
    """one Pipeline object (and its driver) run twice: the two traces, split at pipeline_start"""
    global evaluations
    evaluations += 1
    path = tmp / f"{name}_{detail}_reused_{evaluations}.jsonl"
    drv = JsonlTraceDriver(str(path), detail=detail)
    p = Pipeline(copy.deepcopy(nodes), trace=drv)
    r1, _ = outcome(nodes, ctx, pipeline=p)
    r2, _ = outcome(nodes, ctx, pipeline=p)
    recs = [json.loads(l) for l in path.read_text().splitlines() if l.strip()] if path.exists() else []
    runs, cur = [], None
    for r in recs:
        if r.get("record_type") == "pipeline_start":
            cur = []
            runs.append(cur)
        if cur is not None:
            cur.append(r)
    return r1, r2, runs


if os.environ.get("C10_FRESH"):
    # child mode: one traced run in a fresh interpreter, nothing else has run before it
    want, detail = os.environ["C10_FRESH"].split("|")
    for name, nodes, ctx in CONFIGS:
        if name == want:
            r, t, _, _ = traced(nodes, ctx, detail, name)
            print("FRESH" + json.dumps({"outcome": r, "trace": strip(t)}, sort_keys=True, default=str))
    sys.exit(0)


def fresh_process_trace(name, detail):
    import subprocess
    env = dict(os.environ, C10_FRESH=f"{name}|{detail}")
    p = subprocess.run([sys.executable, os.path.abspath(__file__)], input="{}", capture_output=True, text=True, env=env)
    line = next((l for l in p.stdout.splitlines() if l.startswith("FRESH")), None)
    return json.loads(line[5:]) if line else None


# what ran before in the process must not matter: after traced runs at OTHER detail levels, a run traces exactly what it traces
# in a fresh interpreter
for name, nodes, ctx in CONFIGS[:4]:
    for detail in ("hash", "repr"):
        ref = fresh_process_trace(name, detail)
        evaluations += 1
        for other, onodes, octx in CONFIGS[:2]:
            for od in ("repr,context", "all", "context"):
                try:
                    traced(onodes, octx, od, other)
                except Exception:      # noqa
                    pass
        r_h, t_h, _, _ = traced(nodes, ctx, detail, name)
        distinct.add((name, detail, "after-other-detail-levels"))
        if ref is None:
            failures.append({"class": "fresh-process-reference-run-failed", "config": name, "detail": detail})
        elif json.loads(json.dumps(strip(t_h), sort_keys=True, default=str)) != ref["trace"]:
            a, b = json.loads(json.dumps(strip(t_h), sort_keys=True, default=str)), ref["trace"]
            diff = next((i for i, (x, y) in enumerate(zip(a, b)) if x != y), None)
            failures.append({"class": "trace-depends-on-what-ran-before-in-the-process", "config": name, "detail": detail, "first_differing_record": diff,
                             "after_history": json.dumps(a[diff], sort_keys=True)[:300] if diff is not None else len(a),
                             "fresh_process": json.dumps(b[diff], sort_keys=True)[:300] if diff is not None else len(b)})

for name, nodes, ctx in CONFIGS:
    base, _ = outcome(nodes, ctx)
    evaluations += 1
    for detail in ("hash", "repr", "context", "all"):
        distinct.add((name, detail))
        r1, t1, p1, d1 = traced(nodes, ctx, detail, name)
        if r1 != base:
            failures.append({"class": "tracing-changes-the-outcome", "config": name, "detail": detail, "untraced": base, "traced": r1})
        for other, onodes, octx in CONFIGS[:3]:
            outcome(onodes, octx)
        r2, t2, _, _ = traced(nodes, ctx, detail, name)
        if strip(t1) != strip(t2):
            diff = next((i for i, (a, b) in enumerate(zip(strip(t1), strip(t2))) if a != b), None)
            failures.append({"class": "trace-not-reproducible", "config": name, "detail": detail, "first_differing_record": diff,
                             "a": json.dumps(strip(t1)[diff], sort_keys=True)[:300] if diff is not None else len(t1),
                             "b": json.dumps(strip(t2)[diff], sort_keys=True)[:300] if diff is not None else len(t2)})
    # the same Pipeline object run twice: same outcome, same trace (the ids in it are not volatile fields)
    if not callable(ctx):
        try:
            q1, q2, runs = reused_pipeline_traces(nodes, ctx, "hash", name)
            distinct.add((name, "reused-pipeline"))
            if q1 != q2 or q1 != base:
                failures.append({"class": "tracing-changes-the-outcome", "config": name, "detail": "hash", "reused_pipeline": True, "untraced": base, "first": q1, "second": q2})
            elif len(runs) == 2 and strip(runs[0]) != strip(runs[1]):
                diff = next((i for i, (a, b) in enumerate(zip(strip(runs[0]), strip(runs[1]))) if a != b), None)
                failures.append({"class": "trace-not-reproducible", "config": name, "detail": "hash", "reused_pipeline": True, "first_differing_record": diff,
                                 "a": json.dumps(strip(runs[0])[diff], sort_keys=True)[:300] if diff is not None else len(runs[0]),
                                 "b": json.dumps(strip(runs[1])[diff], sort_keys=True)[:300] if diff is not None else len(runs[1])})
        except Exception as e:       # noqa
            failures.append({"class": "reused-pipeline-case-raised", "config": name, "exc": repr(e)[:200]})
    if len(samples) < 2:
        samples.append({"config": name, "outcome": base[:2], "records": [r["record_type"] for r in t1]})
print(json.dumps({"bound": "25 configurations (plain, model fitting, generated classes, two whose parameters are non-finite floats, two whose string parameters hold a lone surrogate / NUL / astral characters, four whose context holds one-shot iterators / generators consumed by the first or a later node, one whose data object has a raising __len__, three failing with non-JSON / wrapped / empty exception arguments, two with non-JSON parameter values (mixed key types, sets), identical nodes, 3 sweeps, unresolvable parameter, type gate, context flow with rename/delete, unknown parameter) x 4 detail levels; unrelated runs in between; each configuration also run twice through one reused Pipeline object; 4 configurations x 2 detail levels compared with a fresh interpreter after traced runs at other detail levels",
                  "evaluations": evaluations, "distinct_nontrivial": len(distinct),
                  "rule": "distinct = (configuration, detail level); outcome = returned data/context or exception type+message; traces compared after removing run_id, timestamps, timing, seq",
                  "failures": failures[:20], "samples": samples}, default=str))
