"""Bounded stand-in for C03 (labelled bounded): real pipelines with a derive.parameter_sweep node against an independent oracle.
Run-time contract: the node produces one element per sweep step in the documented order (combinatorial: Cartesian product over the
variable names in sorted order, last name fastest; by_position: aligned positions, broadcast cycling shorter sequences, unequal
lengths rejected otherwise); element i = wrapped processor applied with parameters merged as expression > node parameters >
defaults; sources / operations return the typed collection, probes store the list of results under the context key and pass the
data through; every variable's materialised sequence is published, unchanged, as <var>_values.
Bound: 1..3 variables x {explicit values, linear/log ranges with/without endpoint, from_context} x {combinatorial, by_position,
by_position+broadcast} x {source, operation, probe} x expressions over +,*,-,** and a node parameter / a default."""
import json, sys, itertools, math, logging
logging.disable(logging.CRITICAL)
import numpy as np
from semantiva.pipeline import Pipeline, Payload
from semantiva.context_processors.context_types import ContextType
from semantiva.data_types import NoDataType
from semantiva.registry import ProcessorRegistry

req = json.load(sys.stdin)
thorough = req.get("tier") == "thorough"
ProcessorRegistry.clear()
ProcessorRegistry.register_modules(["semantiva.examples.test_utils"])
failures, evaluations, distinct, samples = [], 0, set(), []

VARSETS = {
    "1var-values": {"a": {"values": [1.0, 2.0, 3.0]}},
    "2var-equal": {"a": {"values": [1.0, 2.0, 3.0]}, "b": {"values": [10.0, 20.0, 30.0]}},
    "2var-unequal": {"b": {"values": [10.0, 20.0]}, "a": {"values": [1.0, 2.0, 3.0]}},
    "3var-nondivisible": {"c": {"values": [0.5]}, "a": {"values": [1.0, 2.0, 3.0, 4.0, 5.0]}, "b": {"values": [100.0, 200.0]}},
    "range-linear": {"a": {"lo": 1, "hi": 2, "steps": 3}, "b": {"values": [10.0, 20.0, 30.0]}},
    "range-linear-noendpoint": {"a": {"lo": 0, "hi": 1, "steps": 4, "endpoint": False}, "b": {"values": [1.0, 2.0, 3.0, 4.0]}},
    "range-log": {"a": {"lo": 1, "hi": 100, "steps": 3, "scale": "log"}, "b": {"values": [1.0, 2.0, 3.0]}},
    "range-log-noendpoint": {"a": {"lo": 1, "hi": 1000, "steps": 3, "scale": "log", "endpoint": False}, "b": {"values": [1.0, 2.0, 3.0]}},
    "from-context": {"a": {"from_context": "a_list"}, "b": {"values": [10.0, 20.0]}},
    # sweep variables that share their names with functions of the expression language: inside the expression the variable wins
    "function-named-variables": {"max": {"values": [4.0, 6.0, 9.0]}, "min": {"values": [2.0, 3.0, 5.0]}},
}
CONTEXT = {"a_list": [7.0, 8.0]}


def materialise(spec):
    if "values" in spec:
        return [float(v) for v in spec["values"]]
    if "from_context" in spec:
        return list(CONTEXT[spec["from_context"]])
    lo, hi, n = float(spec["lo"]), float(spec["hi"]), int(spec["steps"])
    endpoint = spec.get("endpoint", True)
    if spec.get("scale", "linear") == "linear":
        step = (hi - lo) / ((n - 1) if endpoint else n) if n > 1 or not endpoint else 0.0
        return [lo + i * step for i in range(n)]
    llo, lhi = math.log10(lo), math.log10(hi)
    step = (lhi - llo) / ((n - 1) if endpoint else n) if n > 1 or not endpoint else 0.0
    return [10 ** (llo + i * step) for i in range(n)]


def steps(seqs, mode, broadcast):
    names = sorted(seqs)
    if mode == "combinatorial":
        return [dict(zip(names, combo)) for combo in itertools.product(*[seqs[n] for n in names])]
    lens = {len(s) for s in seqs.values()}
    if not broadcast:
        if len(lens) != 1:
            return None                     # rejected
        return [{n: seqs[n][i] for n in names} for i in range(lens.pop())]
    m = max(lens)
    return [{n: seqs[n][i % len(seqs[n])] for n in names} for i in range(m)]


def close(a, b):
    return len(a) == len(b) and all(abs(x - y) <= 1e-9 * max(1.0, abs(x), abs(y)) for x, y in zip(a, b))


def run_case(vs_name, mode, broadcast, kind, expr_name):
    global evaluations
    evaluations += 1
    varspec = VARSETS[vs_name]
    names = sorted(varspec)
    expr = {"sum": " + ".join(names), "prod-pow": " * ".join(names) + " ** 2" if len(names) > 1 else f"{names[0]} ** 2 - 1"}[expr_name]
    seqs = {n: materialise(varspec[n]) for n in varspec}
    plan = steps(seqs, mode, broadcast)
    env = lambda st: eval(expr, {"__builtins__": {}}, dict(st))       # noqa: the oracle's own evaluation of +,-,*,** on floats
    sweep = {"parameters": None, "variables": varspec, "mode": mode}
    if broadcast:
        sweep["broadcast"] = True
    if kind == "source":
        sweep["parameters"] = {"value": expr}
        sweep["collection"] = "FloatDataCollection"
        nodes = [{"processor": "FloatValueDataSource", "derive": {"parameter_sweep": sweep}}]
        want = None if plan is None else [float(env(st)) for st in plan]
    elif kind == "operation":
        sweep["parameters"] = {"factor": expr}
        sweep["collection"] = "FloatDataCollection"
        nodes = [{"processor": "FloatValueDataSource", "parameters": {"value": 2.0}},
                 {"processor": "FloatMultiplyOperation", "derive": {"parameter_sweep": sweep}}]
        want = None if plan is None else [2.0 * float(env(st)) for st in plan]
    else:
        # probe: FloatCollectValueProbe has no parameter to sweep over; the sweep still defines the number of results
        sweep["parameters"] = {}
        nodes = [{"processor": "FloatValueDataSource", "parameters": {"value": 2.0}},
                 {"processor": "FloatCollectValueProbe", "context_key": "probed", "derive": {"parameter_sweep": sweep}}]
        want = None if plan is None else [2.0 for _ in plan]
    case = {"vars": vs_name, "mode": mode, "broadcast": broadcast, "kind": kind, "expr": expr}
    distinct.add((vs_name, mode, broadcast, kind, expr_name))
    ctx = ContextType(dict(CONTEXT))
    try:
        out = Pipeline(nodes).process(Payload(NoDataType(), ctx))
        exc = None
    except Exception as e:       # noqa
        out, exc = None, e
    if plan is None:
        if exc is None:
            failures.append(dict(case, **{"class": "unequal-lengths-not-rejected"}))
        return
    if exc is not None:
        failures.append(dict(case, **{"class": "valid-sweep-raised", "exc": repr(exc)[:200]}))
        return
    if kind == "probe":
        got = out.context.get_value("probed") if "probed" in out.context.keys() else None
        if getattr(out.data, "data", None) != 2.0:
            failures.append(dict(case, **{"class": "probe-sweep-does-not-pass-data-through"}))
        got_list = list(got) if isinstance(got, (list, tuple)) else None
    else:
        got_list = [x.data for x in out.data]
    if got_list is None or not close([float(x) for x in got_list], want):
        failures.append(dict(case, **{"class": f"element-sequence-differs:{mode}{'+broadcast' if broadcast else ''}", "got": got_list, "want": want}))
    for n in names:
        key = f"{n}_values"
        pub = out.context.get_value(key) if key in out.context.keys() else None
        if pub is None:
            failures.append(dict(case, **{"class": f"<var>_values-not-published:{kind}", "key": key}))
        elif not close([float(x) for x in pub], seqs[n]):
            failures.append(dict(case, **{"class": "<var>_values-is-not-the-materialised-sequence", "key": key, "got": [float(x) for x in pub], "want": seqs[n]}))
    if len(samples) < 2:
        samples.append(dict(case, elements=got_list[:6]))


for vs in VARSETS:
    for mode, bc in (("combinatorial", False), ("by_position", False), ("by_position", True)):
        for kind in ("source", "operation", "probe"):
            for en in (("sum", "prod-pow") if thorough or kind != "probe" else ("sum",)):
                run_case(vs, mode, bc, kind, en)


# precedence: expression > node parameter > default (FloatValueDataSourceWithDefault has a default value; FloatMultiplyOperation takes factor)
def precedence():
    global evaluations
    evaluations += 1
    distinct.add(("precedence",))
    sweep = {"parameters": {"factor": "a"}, "variables": {"a": {"values": [3.0, 4.0]}}, "collection": "FloatDataCollection"}
    nodes = [{"processor": "FloatValueDataSourceWithDefault"},
             {"processor": "FloatMultiplyOperation", "parameters": {"factor": 100.0}, "derive": {"parameter_sweep": sweep}}]
    try:
        out = Pipeline(nodes).process(Payload(NoDataType(), ContextType({})))
        base = Pipeline([{"processor": "FloatValueDataSourceWithDefault"}]).process(Payload(NoDataType(), ContextType({}))).data.data
        got = [x.data for x in out.data]
        if not close(got, [base * 3.0, base * 4.0]):
            failures.append({"class": "precedence:expression-does-not-win-over-node-parameter", "got": got, "want": [base * 3.0, base * 4.0]})
    except Exception as e:       # noqa
        # a node parameter that collides with a computed parameter may legitimately be rejected at configuration time
        if "factor" not in str(e):
            failures.append({"class": "precedence:unexpected-error", "exc": repr(e)[:200]})


precedence()


def falsy_node_parameter():
    """a non-swept node parameter that is falsy (0.0, 0, False) still wins over the processor's default"""
    global evaluations
    from semantiva.examples.test_utils import FloatOperation, FloatDataType

    class AffineC03(FloatOperation):
        """gain * x + offset with a defaulted offset"""

        def _process_logic(self, data, gain: float, offset: float = 100.0):
            return FloatDataType(gain * data.data + offset)

    for label, offset in (("0.0", 0.0), ("0", 0), ("False", False)):
        evaluations += 1
        distinct.add(("falsy-node-parameter", label))
        sweep = {"parameters": {"gain": "g"}, "variables": {"g": {"values": [1.0, 2.0, 4.0]}}, "collection": "FloatDataCollection"}
        nodes = [{"processor": "FloatValueDataSource", "parameters": {"value": 3.0}},
                 {"processor": AffineC03, "parameters": {"offset": offset}, "derive": {"parameter_sweep": sweep}}]
        try:
            out = Pipeline(nodes).process(Payload(NoDataType(), ContextType({})))
            got = [x.data for x in out.data]
            if not close([float(x) for x in got], [3.0, 6.0, 12.0]):
                failures.append({"class": "precedence:falsy-node-parameter-loses-to-the-default", "offset": label, "got": got, "want": [3.0, 6.0, 12.0]})
        except Exception as e:       # noqa
            failures.append({"class": "precedence:falsy-node-parameter-case-raised", "offset": label, "exc": repr(e)[:200]})


falsy_node_parameter()

def values_pass_through_unchanged():
    """explicit and from_context sequences reach the wrapped processor and <var>_values element for element, with the type each
    element was given (no coercion to a common type): heterogeneous sequences"""
    global evaluations
    from semantiva.examples.test_utils import FloatOperation, FloatDataType
    seen = []

    class RecorderC03(FloatOperation):
        """records the parameter it was called with"""

        def _process_logic(self, data, tag):
            seen.append(tag)
            return FloatDataType(data.data)

    typed = lambda xs: [(type(x).__name__, x) for x in xs]
    SEQS = {"ints-and-a-float": [1, 2.5, 3], "bools-and-ints": [True, 2, 0, False], "number-and-string": [1, "a", 2.0], "tuples": [(1, 2), (3, 4)],
            "strings": ["lo", "hi"], "none-and-number": [None, 1.5], "large-int": [2 ** 60 + 1, 1]}
    for label, seq in SEQS.items():
        for how in ("values", "from_context"):
            evaluations += 1
            distinct.add(("pass-through", label, how))
            del seen[:]
            var = {"values": list(seq)} if how == "values" else {"from_context": "given"}
            sweep = {"parameters": {"tag": "v"}, "variables": {"v": var}, "collection": "FloatDataCollection"}
            nodes = [{"processor": "FloatValueDataSource", "parameters": {"value": 3.0}}, {"processor": RecorderC03, "derive": {"parameter_sweep": sweep}}]
            try:
                out = Pipeline(nodes).process(Payload(NoDataType(), ContextType({"given": list(seq)})))
            except Exception as e:       # noqa
                failures.append({"class": "valid-sweep-raised", "case": label, "how": how, "exc": repr(e)[:200]})
                continue
            if typed(seen) != typed(seq):
                failures.append({"class": "processor-sees-values-other-than-the-given-sequence", "case": label, "how": how, "got": repr(typed(seen)), "want": repr(typed(seq))})
            pub = out.context.get_value("v_values") if "v_values" in out.context.keys() else None
            if pub is None or typed(list(pub)) != typed(seq):
                failures.append({"class": "<var>_values-is-not-the-materialised-sequence", "case": label, "how": how, "got": repr(pub), "want": repr(seq)})


values_pass_through_unchanged()
print(json.dumps({"bound": "10 variable sets (1..3 variables; values, linear/log ranges with/without endpoint, from_context, variables named like expression functions) x {combinatorial, by_position, by_position+broadcast} x {source, operation, probe} x 2 expressions; 1 precedence case + 3 falsy node-parameter cases + 7 heterogeneous sequences x {values, from_context} compared element for element with their types",
                  "evaluations": evaluations, "distinct_nontrivial": len(distinct),
                  "rule": "distinct = (variable set, mode, broadcast, wrapped kind, expression); oracle = itertools.product over sorted names / aligned or cycled positions, written independently of the factory",
                  "failures": failures[:200], "samples": samples}, default=str))
