"""Bounded stand-in for C11 (labelled bounded): run-time contract on the real ExpressionEvaluator.compile over call *histories*.
The deductive harness decides one call of the visitor / of compile on an arbitrary tree; this tier covers what a single-call contract
cannot see: state kept between calls (one evaluator object compiling many expressions with different declared variables, as the
sweep factory does) and the behaviour of the function that compile returns.
Contract (written from the property statement, not from the code):
  compile(expr, names) returns  =>  reference_accepts(expr, names)      [every node kind on the documented list, every Name a declared
                                                                         variable, every call a direct call of abs/min/max/round/float/int/str/bool]
  compile(expr, names) raises   =>  the exception is ExpressionError
  the returned function, applied to integer values of its variables, returns a value that is not a builtin function / module / type
  outside the documented functions, and repeated compilation gives the same verdict whatever was compiled before.
Bound: expressions = {benign arithmetic / comparison / call forms} + {sandbox-escape idioms} embedded at operand / argument / keyword
positions, over names {t, u, open, __import__, abs}; declared-variable sets = all subsets of {t, u, open, __import__} of size <= 3;
histories = fresh evaluator per call; one shared evaluator with the sets ordered widest-first, narrowest-first and shuffled."""
import ast, itertools, json, random, sys, types, logging
logging.disable(logging.CRITICAL)
from semantiva.utils.safe_eval import ExpressionEvaluator, ExpressionError

req = json.load(sys.stdin)
rng = random.Random(req.get("seed", 0))
thorough = req.get("tier") == "thorough"
DOC_FUNCS = {"abs", "min", "max", "round", "float", "int", "str", "bool"}
DOC_NODES = {"Expression", "Load", "BinOp", "UnaryOp", "BoolOp", "Compare", "IfExp", "Call", "Name", "Constant", "Tuple", "Add", "Sub", "Mult",
             "Div", "FloorDiv", "Mod", "Pow", "USub", "UAdd", "And", "Or", "Eq", "NotEq", "Lt", "LtE", "Gt", "GtE", "keyword"}


def reference_accepts(expr, names):
    try:
        tree = ast.parse(expr, mode="eval")
    except SyntaxError:
        return False

    def ok(n):
        if isinstance(n, ast.Call):
            if not (isinstance(n.func, ast.Name) and n.func.id in DOC_FUNCS):
                return False
            return all(ok(a) for a in n.args) and all(ok(k.value) for k in n.keywords)
        if isinstance(n, ast.Name):
            return n.id in names
        if type(n).__name__ not in DOC_NODES:
            return False
        return all(ok(c) for c in ast.iter_child_nodes(n))
    return ok(tree)


BENIGN = ["t", "t + u", "2 * t - u", "abs(t - u)", "min(t, u, 3)", "(t, u)", "t if t < u else u", "t < u and u < 5", "-t ** 2", "round(t / 3, 1)", "max(t, 1) % 2"]
ESCAPES = ["open", "__import__", "open('x')", "__import__('os')", "t.real", "t.__class__", "(1).__class__.__mro__", "[t]", "{t: 1}", "lambda: t", "[i for i in (1, 2)]",
           "t[0]", "f'{t}'", "(t := 1)", "eval('1')", "abs.__self__", "not t", "~t", "t is u", "t in (u,)", "t << 1", "t | u", "*t", "print", "getattr(t, 'real')"]
TEMPLATES = ["{e}", "({e}, t)", "t + ({e})", "abs({e})", "min(t, {e})", "round(t, ndigits={e})", "({e}) if t else u", "t if ({e}) else u", "t < ({e})", "-({e})", "(t and ({e}))"]
exprs = list(BENIGN)
for e in ESCAPES + BENIGN[:5]:
    for tpl in TEMPLATES:
        exprs.append(tpl.format(e=e))
exprs = list(dict.fromkeys(exprs))
if not thorough:
    exprs = BENIGN + rng.sample(exprs[len(BENIGN):], 140)
NAMESETS = [set(c) for r in range(0, 4) for c in itertools.combinations(["t", "u", "open", "__import__"], r)]
if not thorough:
    NAMESETS = [s for s in NAMESETS if len(s) <= 2 or s == {"t", "u", "open"}]

failures, evaluations, distinct, samples = [], 0, set(), []


def fail(cls, **kw):
    if sum(1 for f in failures if f["class"] == cls) < 4:
        failures.append(dict({"class": cls}, **kw))


def is_escape_value(v):
    if isinstance(v, tuple):
        return any(is_escape_value(x) for x in v)
    return isinstance(v, (types.BuiltinFunctionType, types.ModuleType, types.FunctionType, type)) and getattr(v, "__name__", "") not in DOC_FUNCS


def one_call(ev, expr, names, history):
    global evaluations
    evaluations += 1
    want = reference_accepts(expr, names)
    try:
        fn = ev.compile(expr, set(names))
    except ExpressionError:
        # (rejecting an expression the reference accepts is not a violation of C11, which only bounds what may be ACCEPTED;
        #  lost valid expressions are C03's concern)
        return
    except Exception as e:      # noqa
        fail("rejected-with-an-exception-other-than-ExpressionError", expr=expr, names=sorted(names), exc=type(e).__name__, history=history)
        return
    distinct.add((expr, tuple(sorted(names))))
    if not want:
        fail("expression-outside-the-whitelist-accepted", expr=expr, names=sorted(names), history=history)
    try:
        v = fn(**{n: 3 for n in names})
    except Exception:      # noqa  (arithmetic errors of the expression itself are not the property's concern)
        return
    if is_escape_value(v):
        fail("accepted-expression-reaches-builtins-when-evaluated", expr=expr, names=sorted(names), value=repr(v)[:80], history=history)


for expr in exprs:
    for names in NAMESETS:
        one_call(ExpressionEvaluator(), expr, names, "fresh evaluator")
for order_name, order in (("widest declared set first", sorted(NAMESETS, key=lambda s: -len(s))), ("narrowest declared set first", sorted(NAMESETS, key=len)),
                          ("shuffled", rng.sample(NAMESETS, len(NAMESETS)))):
    shared = ExpressionEvaluator()
    for expr in exprs:
        for names in order:
            one_call(shared, expr, names, f"one shared evaluator, {order_name}")
    for names in order:            # and the other nesting: all expressions for one set, then the next set
        for expr in exprs[:: 3]:
            one_call(shared, expr, names, f"one shared evaluator, {order_name}, set-major")
# an evaluator built with functions of its own must not widen what OTHER evaluators accept (state shared between evaluator objects)
EXTRA = {"len": len, "open": open, "sorted": sorted}
custom = ExpressionEvaluator(allowed_funcs=dict(EXTRA))
for e_ in ("len((t, u))", "sorted((t, u))", "t + 1", "abs(t)"):
    try:
        custom.compile(e_, {"t", "u"})
    except ExpressionError:
        pass
    except Exception as ex:      # noqa
        fail("rejected-with-an-exception-other-than-ExpressionError", expr=e_, names=["t", "u"], exc=type(ex).__name__, history="evaluator with functions of its own")
for expr in ["len((t, u))", "open(t)", "sorted((t, u))", "t + len((u,))", "abs(open)", "max(t, len((u, u)))"] + exprs[:: 5]:
    for names in ({"t", "u"}, {"t"}):
        one_call(ExpressionEvaluator(), expr, names, "fresh evaluator created after one with extra functions compiled expressions")
# evaluating reads nothing but the variables of THAT call: no value survives from an earlier evaluation on the same evaluator
shared2 = ExpressionEvaluator()
evaluations += 4
distinct.add(("evaluation-isolation",))
try:
    f1 = shared2.compile("t + u", {"t", "u"})
    f1(t=1, u=2)
    f2 = shared2.compile("t * u", {"t", "u"})
    try:
        v = f2(t=5)
        fail("evaluation-reads-a-value-that-is-not-one-of-its-variables", expr="t * u", given={"t": 5}, value=repr(v), history="after t + u was evaluated with u = 2 on the same evaluator")
    except Exception:      # noqa - NameError expected: u was not supplied
        pass
    f3 = shared2.compile("abs + 1", {"abs"})
    f3(abs=3)
    v4 = shared2.compile("abs(t)", {"t"})(t=-2)
    if v4 != 2:
        fail("evaluation-reads-a-value-that-is-not-one-of-its-variables", expr="abs(t)", given={"t": -2}, value=repr(v4), history="after a variable named abs was evaluated on the same evaluator")
    v5 = ExpressionEvaluator().compile("max(t, 1)", {"t"})(t=0)
    if v5 != 1:
        fail("evaluation-reads-a-value-that-is-not-one-of-its-variables", expr="max(t, 1)", given={"t": 0}, value=repr(v5), history="fresh evaluator after the above")
except ExpressionError as ex:
    fail("valid-expression-rejected-in-the-isolation-case", exc=str(ex)[:100])
except Exception as ex:      # noqa
    fail("evaluation-reads-a-value-that-is-not-one-of-its-variables", exc=repr(ex)[:200], history="isolation case raised")
samples.append({"expressions": len(exprs), "declared_sets": len(NAMESETS), "accepted_pairs": len(distinct)})
print(json.dumps({"bound": f"{len(exprs)} expressions (benign forms + {len(ESCAPES)} escape idioms at {len(TEMPLATES)} positions) x {len(NAMESETS)} declared-variable sets x 4 call histories (fresh evaluator; one shared evaluator widest-first / narrowest-first / shuffled, expression-major and set-major) + fresh evaluators after an evaluator with functions of its own was used",
                  "evaluations": evaluations, "distinct_nontrivial": len(distinct),
                  "rule": "distinct = (expression, declared set) pairs that compile accepted; verdict compared with a reference acceptor written from the property statement, returned function applied to integers",
                  "failures": failures[:30], "samples": samples}, default=str))
