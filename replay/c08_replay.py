"""Native replay for C08 deductive refutations: select/rename scenarios on real source files."""
import json, sys, os, tempfile, itertools, logging
logging.disable(logging.CRITICAL)
from pathlib import Path
from semantiva.configurations.schema import RunSource
from semantiva.execution.run_space import _load_and_process_source
from semantiva.exceptions.pipeline_exceptions import PipelineConfigurationError
req = json.load(sys.stdin)
d = Path(tempfile.mkdtemp())
problems = []
cols = ["a", "b", "c"]
for order in itertools.permutations(cols):
    p = d / ("t_" + "".join(order) + ".json")
    p.write_text(json.dumps([{k: i for k in order} for i in range(2)]))
    for src_k, dst_k in itertools.permutations(cols, 2):
        for select in (None, list(order), [dst_k, src_k], [src_k, dst_k]):
            src = RunSource(format="json", path=str(p), select=select, rename={src_k: dst_k})
            # renaming src_k onto dst_k while dst_k is still a (selected) column is a collision and must be rejected
            try:
                columns, meta = _load_and_process_source(src, d)
                problems.append({"case": "collision accepted", "column_order": order, "rename": {src_k: dst_k}, "select": select,
                                 "result_keys": list(columns)})
            except PipelineConfigurationError:
                pass
    src = RunSource(format="json", path=str(p), select=["a", "zzz"], rename={})
    try:
        _load_and_process_source(src, d)
        problems.append({"case": "missing selected column accepted", "column_order": order})
    except PipelineConfigurationError:
        pass
    src = RunSource(format="json", path=str(p), select=["c", "a"], rename={"a": "x"})
    try:
        columns, meta = _load_and_process_source(src, d)
        if sorted(columns) != ["c", "x"] or columns["x"] != [0, 1]:
            problems.append({"case": "select+rename result wrong", "got": columns})
    except Exception as e:
        problems.append({"case": "valid select+rename rejected", "exc": repr(e)})
print(json.dumps({"violates": bool(problems), "problems": problems[:10]}))
