"""Bounded stand-in for C15 (labelled bounded): the real QueueSemantivaOrchestrator + worker_loop threads over the real in-memory
transport, with randomised thread switch intervals and enqueue timing.
Run-time contract: every returned Future completes exactly once, within the time budget, with the (data, context) that running
the job's pipeline directly on the job's payload gives, plus the job_id annotation - no loss, duplication or cross-talk; a job
whose pipeline raises completes its Future exceptionally; an empty (falsy) data collection is delivered to the pipeline as is.
Bound: batches of 1..12 (thorough 40) jobs with pairwise distinct parameters x 1..4 workers x 3 switch intervals x enqueue
before/after start x a failing job at every position (unknown parameter / failing processor)."""
import json, sys, threading, time, random, logging
logging.disable(logging.CRITICAL)
from concurrent.futures import TimeoutError as FutTimeout
from semantiva.execution.job_queue.queue_orchestrator import QueueSemantivaOrchestrator
from semantiva.execution.job_queue.worker import worker_loop
from semantiva.execution.transport.in_memory import InMemorySemantivaTransport
from semantiva.execution.executor.executor import SequentialSemantivaExecutor
from semantiva.context_processors.context_types import ContextType
from semantiva.pipeline import Pipeline, Payload
from semantiva.data_types import NoDataType
from semantiva.examples.test_utils import (FloatDataType, FloatDataCollection, FloatOperation, FloatValueDataSourceWithDefault, FloatMultiplyOperation,
                                           FloatCollectValueProbe, FloatCollectionSumOperation)
from semantiva.logger.logger import Logger

req = json.load(sys.stdin)
thorough = req.get("tier") == "thorough"
rng = random.Random(req.get("seed", 0))
failures, evaluations, distinct, samples = [], 0, set(), []
QUIET = Logger()
try:
    QUIET.set_verbose_level("CRITICAL")
except Exception:
    pass


from semantiva.examples.test_utils import FloatCollectionMergeOperation


class CountItems(FloatCollectionMergeOperation):
    """number of items of a collection (defined for the empty collection too)"""

    def _process_logic(self, data):
        return FloatDataType(float(len(data.data)))


class Boom(FloatOperation):
    def _process_logic(self, data):
        raise ValueError("boom")


class BoomNoMessage(FloatOperation):
    def _process_logic(self, data):
        raise RuntimeError()          # an exception without a message (bare assert, TimeoutError(), ...)


def good(i):
    return [{"processor": FloatValueDataSourceWithDefault}, {"processor": FloatMultiplyOperation, "parameters": {"factor": float(i + 2)}},
            {"processor": FloatCollectValueProbe, "context_key": f"seen_{i}"}]


BAD = {
    "processor-raises": lambda i: [{"processor": FloatValueDataSourceWithDefault}, {"processor": Boom}],
    "processor-raises-without-a-message": lambda i: [{"processor": FloatValueDataSourceWithDefault}, {"processor": BoomNoMessage}],
    "unknown-parameter": lambda i: [{"processor": FloatValueDataSourceWithDefault}, {"processor": FloatMultiplyOperation, "parameters": {"factor": 2.0, "bogus": 1}}],
    "unresolvable-parameter": lambda i: [{"processor": FloatValueDataSourceWithDefault}, {"processor": FloatMultiplyOperation}],
}


def direct(cfg, data, ctx):
    p = Pipeline(cfg, logger=QUIET)
    out = p.process(Payload(data if data is not None else NoDataType(), ContextType(dict(ctx))))
    return out.data, out.context


def ctx_items(c):
    d = c.to_dict() if hasattr(c, "to_dict") else dict(c)
    return {k: (v.data if hasattr(v, "data") else v) for k, v in d.items()}


def scenario(n, workers, switch, enqueue_first, fail_at, fail_kind, budget=20.0):
    global evaluations
    evaluations += 1
    old = sys.getswitchinterval()
    sys.setswitchinterval(switch)
    stop = threading.Event()
    transport = InMemorySemantivaTransport()
    orch = QueueSemantivaOrchestrator(transport, stop_event=stop, logger=QUIET)
    jobs = []
    for i in range(n):
        cfg = BAD[fail_kind](i) if i == fail_at else good(i)
        jobs.append((cfg, {"tag": i}))
    futs = []

    def enqueue_all():
        for cfg, ctx in jobs:
            futs.append(orch.enqueue(cfg, context=ContextType(dict(ctx)), return_future=True))
            if rng.random() < 0.3:
                time.sleep(rng.random() * 0.002)
    if enqueue_first:
        enqueue_all()
    threads = [threading.Thread(target=orch.run_forever, daemon=True)]
    threads += [threading.Thread(target=worker_loop, args=(w, transport, SequentialSemantivaExecutor(), stop), kwargs={"logger": QUIET, "poll_interval": 0.01}, daemon=True)
                for w in range(workers)]
    for t in threads:
        t.start()
    if not enqueue_first:
        enqueue_all()
    info = {"jobs": n, "workers": workers, "switch": switch, "enqueue_first": enqueue_first, "fail_at": fail_at, "fail_kind": fail_kind}
    deadline = time.time() + budget
    try:
        for i, f in enumerate(futs):
            try:
                res = f.result(timeout=max(0.05, deadline - time.time()))
                exc = None
            except FutTimeout:
                failures.append(dict(info, job=i, **{"class": "future-of-a-failing-job-never-completes" if i == fail_at else "future-never-completes"}))
                continue
            except Exception as e:       # noqa - exceptional completion
                res, exc = None, e
            if i == fail_at:
                if exc is None:
                    failures.append(dict(info, job=i, **{"class": "failing-job-completed-normally"}))
                continue
            if exc is not None:
                failures.append(dict(info, job=i, **{"class": "good-job-completed-exceptionally", "exc": repr(exc)}))
                continue
            data, ctx = res
            want_data, want_ctx = direct(jobs[i][0], None, jobs[i][1])
            got = ctx_items(ctx)
            jid = got.pop("job_id", None)
            if jid is None:
                failures.append(dict(info, job=i, **{"class": "job_id-annotation-missing"}))
            if getattr(data, "data", data) != getattr(want_data, "data", want_data) or got != ctx_items(want_ctx):
                failures.append(dict(info, job=i, **{"class": "result-is-not-this-job's-own-result", "got": [repr(data), got], "want": [repr(want_data), ctx_items(want_ctx)]}))
    finally:
        stop.set()
        orch.stop()
        for t in threads:
            t.join(timeout=2)
        sys.setswitchinterval(old)
    if orch.pending_futures and fail_at is None:
        failures.append(dict(info, **{"class": "pending-futures-left-after-all-completed"}))
    distinct.add((n, workers, switch, enqueue_first, fail_at, fail_kind))
    if len(samples) < 2:
        samples.append(dict(info, completed=sum(1 for f in futs if f.done())))


sizes = (1, 2, 5, 12, 40) if thorough else (1, 3, 8)
switches = (1e-6, 1e-4, 5e-3)
for n in sizes:
    for w in ((1, 2, 3, 4) if thorough else (1, 3)):
        scenario(n, w, switches[(n + w) % 3], (n + w) % 2 == 0, None, None)
kinds = list(BAD)
fail_positions = 0
for n in ((1, 3, 6) if thorough else (1, 3)):
    for k in range(n):
        kind = kinds[(n + k) % len(kinds)]
        scenario(n, 1 + (k % 3), switches[k % 3], k % 2 == 0, k, kind, budget=4.0)
        fail_positions += 1
        if any(f["class"] == "future-of-a-failing-job-never-completes" for f in failures) and not thorough:
            break       # each occurrence costs the whole time budget; one witness per run is enough
    else:
        continue
    break


# falsy data: an empty collection must reach the pipeline unchanged
def empty_collection_case():
    global evaluations
    evaluations += 1
    stop = threading.Event()
    transport = InMemorySemantivaTransport()
    orch = QueueSemantivaOrchestrator(transport, stop_event=stop, logger=QUIET)
    cfg = [{"processor": CountItems}]
    empty = FloatDataCollection.from_list([]) if hasattr(FloatDataCollection, "from_list") else FloatDataCollection([])
    try:
        want = direct(cfg, empty, {})
        want_exc = None
    except Exception as e:       # noqa
        want, want_exc = None, e
    fut = orch.enqueue(cfg, data=empty, context=ContextType({}), return_future=True)
    threads = [threading.Thread(target=orch.run_forever, daemon=True),
               threading.Thread(target=worker_loop, args=(0, transport, SequentialSemantivaExecutor(), stop), kwargs={"logger": QUIET, "poll_interval": 0.01}, daemon=True)]
    for t in threads:
        t.start()
    try:
        try:
            res = fut.result(timeout=4.0)
            exc = None
        except FutTimeout:
            res, exc = None, "timeout"
        except Exception as e:       # noqa
            res, exc = None, e
        distinct.add(("empty-collection",))
        if want_exc is None:
            if exc is not None or getattr(res[0], "data", None) != getattr(want[0], "data", None):
                failures.append({"class": "falsy-data-replaced-before-the-pipeline-ran", "got": repr(exc or res[0]), "want": repr(want[0])})
        elif exc is None:
            failures.append({"class": "falsy-data-replaced-before-the-pipeline-ran", "got": repr(res[0]), "want": repr(want_exc)})
    finally:
        stop.set()
        orch.stop()
        for t in threads:
            t.join(timeout=2)


empty_collection_case()


def status_before_enqueue_returns():
    """the enqueuing thread is held inside job_queue.put() long enough for the master and a worker to run the job and deliver its
    status: the returned Future must still complete (it has to be registered before the job becomes visible)"""
    global evaluations
    import queue as _queue

    class HeldQueue(_queue.Queue):
        def put(self, item, *a, **kw):
            super().put(item, *a, **kw)
            time.sleep(0.4)

    for kind in ("good", "processor-raises"):
        evaluations += 1
        distinct.add(("status-before-enqueue-returns", kind))
        stop = threading.Event()
        transport = InMemorySemantivaTransport()
        orch = QueueSemantivaOrchestrator(transport, stop_event=stop, logger=QUIET)
        orch.job_queue = HeldQueue()
        threads = [threading.Thread(target=orch.run_forever, daemon=True),
                   threading.Thread(target=worker_loop, args=(0, transport, SequentialSemantivaExecutor(), stop), kwargs={"logger": QUIET, "poll_interval": 0.01}, daemon=True)]
        for t in threads:
            t.start()
        try:
            fut = orch.enqueue(good(0) if kind == "good" else BAD[kind](0), context=ContextType({"tag": 0}), return_future=True)
            try:
                fut.result(timeout=4.0)
            except FutTimeout:
                failures.append({"class": "future-never-completes:status-delivered-before-enqueue-returned", "job": kind})
            except Exception:       # noqa - exceptional completion of the failing job
                pass
        finally:
            stop.set()
            orch.stop()
            for t in threads:
                t.join(timeout=2)


status_before_enqueue_returns()
print(json.dumps({"bound": "batches of 1..8 (thorough 40) distinct jobs x 1..4 workers x switch intervals {1e-6,1e-4,5e-3} x enqueue before/after start; failing job (4 kinds, one raising without a message) at every position of batches of 1,3 (thorough 6); one empty-collection job; 2 jobs whose status is delivered while the enqueuing thread is still inside put()",
                  "evaluations": evaluations, "distinct_nontrivial": len(distinct),
                  "rule": "distinct = (batch size, workers, switch interval, enqueue timing, failing position, failure kind); results compared with a direct Pipeline.process of the same job",
                  "failures": failures[:40], "samples": samples}, default=str))
