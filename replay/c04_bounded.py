"""Bounded stand-in for C04 (labelled bounded): identities are functions of configuration meaning.
Run-time contract: for each base configuration and each cosmetic rewrite (mapping key order at every depth, YAML flow/block/quoted
style, +/* operand reordering in sweep expressions) the inspection identities are identical; inspection identities equal the
pipeline_start identities; a second run of the same Pipeline object and runs after unrelated pipelines give the same ids; a fresh
process under a different PYTHONHASHSEED gives the same inspection payload.
Bound: 5 base configurations x 8 key-order shuffles x 3 YAML styles x expression rewrites; 2 hash seeds in fresh processes."""
import json, sys, os, random, subprocess, copy
sys.path.insert(0, os.path.dirname(os.path.abspath(__file__)))
import idlib

req = json.load(sys.stdin)
rng = random.Random(req.get("seed", 0))
thorough = req.get("tier") == "thorough"
failures, evaluations, distinct, samples = [], 0, set(), []
EXPR_REWRITES = {"2.0 * t + 3.0 * u": ["3.0 * u + 2.0 * t", "t * 2.0 + u * 3.0", "u * 3.0 + t * 2.0"],
                 "(t + 1.0) * (u + 2.0)": ["(u + 2.0) * (t + 1.0)", "(1.0 + t) * (2.0 + u)", "(2.0 + u) * (1.0 + t)"],
                 "a * b + 1.0": ["1.0 + a * b", "b * a + 1.0", "1.0 + b * a"]}
KEYS = ("semantic_id", "config_id", "node_uuids", "node_semantic_ids", "required_context_keys")


def commuted_forms(expr):
    """every spelling obtained by swapping the operands of any subset of the + and * nodes of the expression"""
    import ast as _ast, itertools as _it
    tree = _ast.parse(expr, mode="eval")
    ops = [n for n in _ast.walk(tree) if isinstance(n, _ast.BinOp) and isinstance(n.op, (_ast.Add, _ast.Mult))]
    out = []
    for mask in _it.product((0, 1), repeat=len(ops)):
        t = _ast.parse(expr, mode="eval")
        ops_t = [n for n in _ast.walk(t) if isinstance(n, _ast.BinOp) and isinstance(n.op, (_ast.Add, _ast.Mult))]
        for n, m in zip(ops_t, mask):
            if m:
                n.left, n.right = n.right, n.left
        out.append(_ast.unparse(t))
    return sorted(set(out) - {expr})


def rewrite_one_expr(nodes, old_expr, new_expr):
    """replace the expression `old_expr` (wherever it occurs) by one of its own commuted spellings"""
    nodes = copy.deepcopy(nodes)
    for n in nodes:
        ps = (n.get("derive") or {}).get("parameter_sweep")
        if ps:
            for k, e in list(ps["parameters"].items()):
                if e == old_expr:
                    ps["parameters"][k] = new_expr
    return nodes


def rewrite_exprs(nodes, pick):
    nodes = copy.deepcopy(nodes)
    for n in nodes:
        ps = (n.get("derive") or {}).get("parameter_sweep")
        if ps:
            for k, e in list(ps["parameters"].items()):
                if e in EXPR_REWRITES:
                    ps["parameters"][k] = EXPR_REWRITES[e][pick % len(EXPR_REWRITES[e])]
    return nodes


for name, nodes, ctx in idlib.base_configs():
    base_text = idlib.to_yaml(nodes, "block")
    ref = idlib.ids_inspection(base_text)
    ref_payload = json.dumps(ref["payload"], sort_keys=True)
    variants = []
    for i in range(8 if not thorough else 24):
        v = idlib.shuffle_keys(nodes, rng)
        v = rewrite_exprs(v, i) if i % 2 else v
        variants.append((f"shuffle{i}", idlib.to_yaml(v, ("block", "flow", "quoted")[i % 3])))
    # every commuted spelling of the sweep expression (operands of any subset of its + / * nodes swapped)
    for n_ in nodes:
        ps_ = (n_.get("derive") or {}).get("parameter_sweep")
        for e_ in (ps_ or {}).get("parameters", {}).values() if ps_ else ():
            if e_ in EXPR_REWRITES:
                for j_, form in enumerate(commuted_forms(e_)):
                    variants.append((f"commuted{j_}:{form}", idlib.to_yaml(rewrite_one_expr(nodes, e_, form), "block")))
    for vname, text in variants:
        evaluations += 1
        distinct.add((name, vname))
        got = idlib.ids_inspection(text)
        for k in KEYS:
            if got[k] != ref[k]:
                failures.append({"class": f"cosmetic-rewrite-changes-{k}", "config": name, "variant": vname, "yaml": text[:400]})
                break
    # inspection ids == pipeline_start ids ; second run of the same Pipeline object ; run after other pipelines
    run1, pipe, tr = idlib.ids_run(base_text, ctx)
    evaluations += 1
    for k in ("semantic_id", "config_id", "node_uuids", "node_semantic_ids"):
        if run1[k] != ref[k]:
            failures.append({"class": f"inspect-vs-pipeline_start-{k}", "config": name, "inspect": ref[k], "run": run1[k]})
    run2, _, _ = idlib.ids_run(base_text, ctx, pipeline=pipe, trace=tr)
    evaluations += 1
    for k in ("pipeline_id", "semantic_id", "config_id", "node_uuids"):
        if run2[k] != run1[k]:
            failures.append({"class": f"second-run-of-the-same-Pipeline-changes-{k}", "config": name, "first": run1[k], "second": run2[k]})
    for other, onodes, octx in idlib.base_configs():
        idlib.ids_run(idlib.to_yaml(onodes, "block"), octx)
    run3, _, _ = idlib.ids_run(base_text, ctx)
    again = idlib.ids_inspection(base_text)
    evaluations += 2
    for k in ("pipeline_id", "semantic_id", "config_id", "node_uuids"):
        if run3[k] != run1[k]:
            failures.append({"class": f"history-changes-{k}", "config": name})
    if json.dumps(again["payload"], sort_keys=True) != ref_payload:
        failures.append({"class": "history-changes-inspection-payload", "config": name})
    # fresh process, different hash seeds
    for seed in (("1", "77") if not thorough else ("1", "77", "4242")):
        code = ("import sys,json;sys.path.insert(0,%r);import idlib;print(json.dumps(idlib.ids_inspection(sys.stdin.read())['payload'],sort_keys=True))"
                % os.path.dirname(os.path.abspath(__file__)))
        env = dict(os.environ, PYTHONHASHSEED=seed)
        p = subprocess.run([sys.executable, "-c", code], input=variants[0][1], capture_output=True, text=True, env=env, cwd="/")
        evaluations += 1
        out = (p.stdout.strip().splitlines() or [""])[-1]
        if out != ref_payload:
            failures.append({"class": "fresh-process/hash-seed-changes-inspection-payload", "config": name, "seed": seed, "stderr": p.stderr[-200:]})
    if len(samples) < 2:
        samples.append({"config": name, "semantic_id": ref["semantic_id"], "config_id": ref["config_id"], "variant_yaml": variants[1][1][:300]})
print(json.dumps({"bound": "5 base configurations (plain, identical twins, sweep source, sweep operation, sweep with two from_context variables) x key-order shuffles x 3 YAML styles x every commuted spelling (any subset of + / * nodes swapped) of the sweep expression; same-object re-run; history; 2-3 hash seeds in fresh processes",
                  "evaluations": evaluations, "distinct_nontrivial": len(distinct),
                  "rule": "distinct = (configuration, rewrite); every rewrite is meaning-preserving by construction, identities must be identical",
                  "failures": failures[:20], "samples": samples}, default=str))
