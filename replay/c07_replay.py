"""Native replays for C07 (run with the repository's interpreter against VERIF_REPO)."""
import json, sys, os, re, tempfile, logging
logging.disable(logging.CRITICAL)
from datetime import datetime, timezone
req = json.load(sys.stdin)
out = {"violates": False}
if req["case"] == "timestamp":
    import time
    if hasattr(time, "tzset"):
        time.tzset()
    if req["which"] == "_iso_now":
        from semantiva.execution.orchestrator.orchestrator import LocalSemantivaOrchestrator
        stamp = LocalSemantivaOrchestrator()._iso_now()
    else:
        from semantiva.trace.drivers.jsonl import JsonlTraceDriver
        d = JsonlTraceDriver(os.path.join(tempfile.mkdtemp(), "t.jsonl"))
        stamp = d._now_timestamp()
    truth = datetime.now(timezone.utc)
    m = re.match(r"^(\d{4}-\d{2}-\d{2}T\d{2}:\d{2}:\d{2}\.\d{3})Z$", stamp)
    if not m:
        out.update(violates=True, why="not RFC 3339 UTC form", stamp=stamp)
    else:
        denoted = datetime.fromisoformat(m.group(1)).replace(tzinfo=timezone.utc)
        skew = abs((denoted - truth).total_seconds())
        out.update(stamp=stamp, true_utc=truth.isoformat(), skew_s=skew, TZ=os.environ.get("TZ"), violates=skew > 60)
elif req["case"] == "provenance":
    # a processor parameter with a default that is overridden by a context key
    from semantiva.pipeline import Pipeline
    from semantiva.pipeline.payload import Payload
    from semantiva.context_processors.context_types import ContextType
    from semantiva.trace.drivers.jsonl import JsonlTraceDriver
    from semantiva.examples.test_utils import FloatDataType, FloatOperation

    class ScaleWithDefault(FloatOperation):
        def _process_logic(self, data, factor: float = 2.0):
            return FloatDataType(data.data * factor)

    cases = []
    for placement in ("context-overrides-default", "default-only", "node"):
        path = os.path.join(tempfile.mkdtemp(), "trace.jsonl")
        params = {"factor": 5.0} if placement == "node" else {}
        ctx = {"factor": 3.0} if placement == "context-overrides-default" else {}
        p = Pipeline([{"processor": ScaleWithDefault, "parameters": params}], trace=JsonlTraceDriver(path))
        res = p.process(Payload(FloatDataType(1.0), ContextType(dict(ctx))))
        ser = [json.loads(l) for l in open(path) if '"ser"' in l][0]
        proc = ser["processor"]
        expect_val = {"context-overrides-default": 3.0, "default-only": 2.0, "node": 5.0}[placement]
        expect_src = {"context-overrides-default": "context", "default-only": "default", "node": "node"}[placement]
        got_val = proc.get("parameters", {}).get("factor", "<absent>")
        got_src = proc.get("parameter_sources", {}).get("factor", "<absent>")
        ok = (got_val == expect_val and got_src == expect_src and res.data.data == expect_val)
        cases.append({"placement": placement, "value_used": res.data.data, "ser_value": got_val, "ser_source": got_src, "ok": ok})
    out.update(cases=cases, violates=any(not c["ok"] for c in cases))
else:
    out.update(note="no native replay for this obligation")
print(json.dumps(out, default=str))
