"""Native replay for C13 deductive refutations: the real aggregator on real traces (all prefixes, permutations);
the refuted obligation names the function, the bounded harness supplies concrete failing records."""
import json, sys, subprocess, os
req = json.load(sys.stdin)
here = os.path.dirname(os.path.abspath(__file__))
p = subprocess.run([sys.executable, os.path.join(here, "c13_bounded.py")], input=json.dumps({"tier": "quick", "seed": 0}),
                   capture_output=True, text=True, env=os.environ)
try:
    res = json.loads([l for l in p.stdout.splitlines() if l.startswith("{")][-1])
    print(json.dumps({"violates": bool(res["failures"]), "failures": res["failures"][:5], "obligation": req.get("obligation")}))
except Exception as e:
    print(json.dumps({"violates": False, "error": repr(e), "stderr": p.stderr[-300:]}))
