"""Bounded stand-in for C12 (labelled bounded): exhaustive small expressions, exact integer evaluation.
Run-time contract on normalize_expression_sig_v1:
  (1) equal signature => equal value on every probed assignment (all expressions up to the size bound, grouped by signature);
  (2) permuting / re-associating the operands of + and * chains (at any depth) never changes the signature;
  (3) swapping the operands of a non-commutative operator, changing a constant, a variable or a function changes it
      (whenever the two expressions differ in value on some probed assignment).
Bound: expressions with <= 3 operators over {t, u, 1, 2, 3} and + - * // % ** unary-, abs/min/max, plus every comparison operator
(< <= > >= == !=) between small operands: bare, as the test of an if-else, under + and *, and in a nested if-else."""
import itertools, json, re, sys, random, logging
logging.disable(logging.CRITICAL)
from semantiva.metadata.semantic_id import normalize_expression_sig_v1

req = json.load(sys.stdin)
rng = random.Random(req.get("seed", 0))
thorough = req.get("tier") == "thorough"
ATOMS = ["t", "u", "1", "2", "3"]
BIN = ["+", "-", "*", "//", "%", "**"]
ASSIGN = [{"t": a, "u": b} for a in (-2, 0, 1, 3) for b in (-1, 2, 5)]


def gen(depth):
    if depth == 0:
        return list(ATOMS)
    smaller = gen(depth - 1)
    out = list(smaller)
    base = gen(0) if depth > 1 else smaller
    for op in BIN:
        for a in smaller:
            for b in base:
                out.append(f"({a} {op} {b})")
                if a != b and depth > 1:
                    out.append(f"({b} {op} {a})")
    for a in smaller[:40]:
        out.append(f"(-{a})")
        out.append(f"abs({a})")
    for a, b in itertools.islice(itertools.product(smaller[:12], repeat=2), 80):
        out.append(f"min({a}, {b})")
        out.append(f"max({a}, {b})")
    return list(dict.fromkeys(out))


def value(e):
    vals = []
    for env in ASSIGN:
        try:
            v = eval(e, {"__builtins__": {}, "abs": abs, "min": min, "max": max}, dict(env))
            if isinstance(v, float) or (isinstance(v, int) and abs(v) > 10 ** 12):
                v = "big"
        except Exception as ex:
            v = "err:" + type(ex).__name__
        vals.append(v)
    return tuple(vals)


def sig(e):
    return normalize_expression_sig_v1(e)["ast"]


exprs = gen(2)
if thorough:
    exprs = gen(2) + [f"({a} {op} {b})" for op in BIN for a in rng.sample(gen(2), 150) for b in ATOMS]
else:
    exprs = exprs[:: max(1, len(exprs) // 2500)]
# comparisons and conditional expressions (part of the sweep expression language): every comparison operator between small operands,
# bare, as the test of an if-else, and nested under + / *
CMP = ["<", "<=", ">", ">=", "==", "!="]
_small = gen(1)[:: 7] if not thorough else gen(1)[:: 3]
cmp_exprs = []
for a, b in itertools.product(ATOMS[:3] + _small[:6], ATOMS[:4]):
    if a == b:
        continue
    for c in CMP:
        cmp_exprs.append(f"({a} {c} {b})")
        cmp_exprs.append(f"(t if {a} {c} {b} else u)")
        cmp_exprs.append(f"(({a} {c} {b}) * 2 + u)")
        cmp_exprs.append(f"(1 if ({a} {c} {b}) else (2 if ({b} {c} {a}) else 3))")
exprs = exprs + list(dict.fromkeys(cmp_exprs))
failures, evaluations, samples = [], 0, []
groups = {}
for e in exprs:
    evaluations += 1
    groups.setdefault(sig(e), []).append(e)
nontrivial = 0
for s, es in groups.items():
    if len(es) > 1:
        nontrivial += 1
        v0 = value(es[0])
        for e in es[1:]:
            if value(e) != v0:
                failures.append({"class": "equal-signature-different-value", "a": es[0], "b": e})
                break
        if len(samples) < 2:
            samples.append({"same_signature": es[:4]})


def ac_variants(e):
    """operand permutations / re-associations of + and * chains, built from the text of fully parenthesised sums"""
    import ast
    tree = ast.parse(e, mode="eval").body

    def flat(n, op):
        if isinstance(n, ast.BinOp) and isinstance(n.op, op):
            return flat(n.left, op) + flat(n.right, op)
        return [n]

    def rebuild(n):
        if isinstance(n, ast.BinOp) and isinstance(n.op, (ast.Add, ast.Mult)):
            terms = [rebuild(x) for x in flat(n, type(n.op))]
            rng.shuffle(terms)
            sym = " + " if isinstance(n.op, ast.Add) else " * "
            # random association
            while len(terms) > 1:
                i = rng.randrange(len(terms) - 1)
                terms[i:i + 2] = [f"({terms[i]}{sym}{terms[i + 1]})"]
            return terms[0]
        if isinstance(n, ast.BinOp):
            return f"({rebuild(n.left)} {ast.unparse(n.op) if hasattr(ast, 'unparse') and False else OPS[type(n.op)]} {rebuild(n.right)})"
        if isinstance(n, ast.UnaryOp):
            return f"(-{rebuild(n.operand)})"
        if isinstance(n, ast.Call):
            return f"{n.func.id}({', '.join(rebuild(a) for a in n.args)})"
        if isinstance(n, ast.IfExp):
            return f"({rebuild(n.body)} if {rebuild(n.test)} else {rebuild(n.orelse)})"
        if isinstance(n, ast.Compare):
            return "(" + rebuild(n.left) + "".join(f" {CMPS[type(o)]} {rebuild(c)}" for o, c in zip(n.ops, n.comparators)) + ")"
        if isinstance(n, ast.Tuple):
            return "(" + ", ".join(rebuild(e_) for e_ in n.elts) + ("," if len(n.elts) == 1 else "") + ")"
        return ast.unparse(n)
    return rebuild(tree)


import ast as _ast
CMPS = {_ast.Lt: "<", _ast.LtE: "<=", _ast.Gt: ">", _ast.GtE: ">=", _ast.Eq: "==", _ast.NotEq: "!="}
OPS = {_ast.Sub: "-", _ast.FloorDiv: "//", _ast.Mod: "%", _ast.Pow: "**", _ast.Add: "+", _ast.Mult: "*"}
chains = ["2.0*t + 3.0*u", "t*2.0 + u*3.0 + 1", "(t + u)*(u + 2)*3", "abs(t*u*2 + u*t) + 1", "(t*u + 2*t) - (u + 1 + t)", "min(t + 2 + u, u*3*t)",
          "((t + 1)*(u + 2)) + ((u + 2)*(t + 1))*2",
          # + / * chains in every position of the other constructs: branches and test of an if-else, operands of a comparison,
          # arguments of a call, operand of a unary minus, operands of a non-commutative operator
          "t if u else t + u + 2", "t + u + 1 if u else t", "t if t + u + 1 < 2 * u * t else u", "(t * u * 3 if t else u + 2 + t) + 1",
          "(t + u + 2) < (u * t * 3)", "min(t + u + 2, 3 * u * t)", "-(t + u + 2)", "(t + u + 1) - (u * t * 2)", "(t * u * 2) // (u + 1 + t)",
          "abs(t if u + t + 1 else u * 2 * t)", "(1 + t + u) ** 2"] + rng.sample([e for e in exprs if "+" in e or "*" in e], 60 if not thorough else 300)
for e in chains:
    s0 = sig(e)
    for _ in range(6):
        v = ac_variants(e)
        evaluations += 1
        if sig(v) != s0:
            failures.append({"class": "AC-rearrangement-changes-signature", "a": e, "b": v})
            break
# discriminating mutations
for e in rng.sample(exprs, 300 if not thorough else 1500):
    muts = []
    for op in ("-", "//", "%", "**"):
        if f" {op} " in e:
            m = re.match(r"^\((.+) " + re.escape(op) + r" (.+)\)$", e)
            if m and m.group(1).count("(") == m.group(1).count(")"):
                muts.append(f"({m.group(2)} {op} {m.group(1)})")
    muts.append(e.replace("2", "3", 1) if "2" in e else e.replace("1", "2", 1))
    muts.append(e.replace("t", "u", 1) if "t" in e else e)
    muts.append(e.replace("min(", "max(", 1) if "min(" in e else e.replace("abs(", "-(", 1))
    for c in CMP:
        if f" {c} " in e:
            muts += [e.replace(f" {c} ", f" {c2} ", 1) for c2 in CMP if c2 != c]
            break
    if " if " in e:
        m2 = re.match(r"^\((\w+) if (.+) else (\w+)\)$", e)
        if m2:
            muts.append(f"({m2.group(3)} if {m2.group(2)} else {m2.group(1)})")
    for m_ in muts:
        if m_ == e:
            continue
        evaluations += 1
        try:
            if value(m_) != value(e) and sig(m_) == sig(e):
                failures.append({"class": "meaning-changing-mutation-keeps-signature", "a": e, "b": m_})
        except SyntaxError:
            pass
print(json.dumps({"bound": "expressions with <= 2 nested binary operators over {t,u,1,2,3} and + - * // % ** unary- abs min max (thorough: + one more level, sampled), six comparison operators bare / as if-else test / under + * / nested if-else; 12 integer assignments",
                  "evaluations": evaluations, "distinct_nontrivial": nontrivial + len(chains),
                  "rule": "all enumerated expressions grouped by signature (non-trivial = group with > 1 member); AC variants of chains; single-point mutations",
                  "failures": failures[:20], "samples": samples}, default=str))
