"""Shared generator of small real pipelines over the example component library (used by the bounded tiers and
by native replays).  Deterministic given the seed."""
import itertools, random
from semantiva.examples.test_utils import (FloatDataType, FloatDataCollection, FloatMultiplyOperation, FloatMultiplyOperationWithDefault,
                                           FloatAddOperation, FloatSquareOperation, FloatBasicProbe, FloatCollectValueProbe,
                                           FloatCollectionSumOperation, FloatValueDataSource, FloatValueDataSourceWithDefault)

from semantiva.examples.test_utils import FloatOperation as _FloatOperation


class ScaleAndReport(_FloatOperation):
    """Multiplies by a factor and reports the factor it applied under a declared context key."""

    @classmethod
    def context_keys(cls):
        return ["applied_factor"]

    def _process_logic(self, data, factor: float):
        self._notify_context_update("applied_factor", factor)
        return FloatDataType(data.data * factor)


KEYS = ["factor", "addend", "k1", "k2"]


def node_pool():
    """(label, node config) pairs; parameters left out on purpose are resolved from context / default / fail"""
    pool = [
        ("src", {"processor": FloatValueDataSourceWithDefault}),
        ("src(v)", {"processor": FloatValueDataSource, "parameters": {"value": 3.0}}),
        ("mul", {"processor": FloatMultiplyOperation}),
        ("mul(cfg)", {"processor": FloatMultiplyOperation, "parameters": {"factor": 2.0}}),
        ("muld", {"processor": FloatMultiplyOperationWithDefault}),
        ("add", {"processor": FloatAddOperation}),
        ("add(cfg)", {"processor": FloatAddOperation, "parameters": {"addend": 1.0}}),
        ("sq", {"processor": FloatSquareOperation}),
        ("probe->factor", {"processor": FloatCollectValueProbe, "context_key": "factor"}),
        ("probe->addend", {"processor": FloatCollectValueProbe, "context_key": "addend"}),
        ("probe->k1", {"processor": FloatBasicProbe, "context_key": "k1"}),
        ("rename k1->factor", {"processor": "rename:k1:factor"}),
        ("rename factor->k2", {"processor": "rename:factor:k2"}),
        ("delete factor", {"processor": "delete:factor"}),
        ("delete addend", {"processor": "delete:addend"}),
        ("sum(coll)", {"processor": FloatCollectionSumOperation}),
        ("mul(bad)", {"processor": FloatMultiplyOperation, "parameters": {"factor": 2.0, "bogus": 1}}),
        ("rename factor->factor", {"processor": "rename:factor:factor"}),
        ("src(0)", {"processor": FloatValueDataSource, "parameters": {"value": 0.0}}),
    ]
    return pool


FLOW_CORE = ["src", "src(0)", "mul", "muld", "add", "probe->factor", "probe->k1", "rename k1->factor", "rename factor->k2",
             "rename factor->factor", "delete factor"]


def core_pipelines(n):
    """exhaustive sequences of length n over the flow-relevant core of the pool"""
    pool = [x for x in node_pool() if x[0] in FLOW_CORE]
    return [([l for l, _ in c], [dict(cfg) for _, cfg in c]) for c in itertools.product(pool, repeat=n)]


def pipelines(max_len, seed, sample=None):
    pool = node_pool()
    rng = random.Random(seed)
    out = []
    for n in range(1, max_len + 1):
        combos = itertools.product(pool, repeat=n)
        if sample is not None and len(pool) ** n > sample:
            combos = [tuple(rng.choice(pool) for _ in range(n)) for _ in range(sample)]
        for c in combos:
            out.append(([l for l, _ in c], [dict(cfg) for _, cfg in c]))
    return out


def extra_pipelines():
    """fixed pipelines around parameter sweeps: the sweep publishes <var>_values, a later node consumes them"""
    from semantiva.registry import ProcessorRegistry
    ProcessorRegistry.register_modules(["semantiva.examples.test_utils"])
    src = {"processor": FloatValueDataSource, "parameters": {"value": 3.0}}
    sweep_op = {"processor": "FloatMultiplyOperation", "derive": {"parameter_sweep": {"parameters": {"factor": "t"}, "variables": {"t": {"values": [1.0, 2.0, 4.0]}},
                                                                                   "collection": "FloatDataCollection"}}}
    sweep_probe = {"processor": "FloatCollectValueProbe", "context_key": "readings",
                   "derive": {"parameter_sweep": {"parameters": {}, "variables": {"step": {"values": [1.0, 2.0, 4.0]}}}}}
    sweep_src = {"processor": "FloatValueDataSource", "derive": {"parameter_sweep": {"parameters": {"value": "2.0 * t"}, "variables": {"t": {"values": [1.0, 2.0]}},
                                                                                   "collection": "FloatDataCollection"}}}
    sweep_writer = {"processor": ScaleAndReport, "derive": {"parameter_sweep": {"parameters": {"factor": "t"}, "variables": {"t": {"values": [1.0, 2.0]}},
                                                                                 "collection": "FloatDataCollection"}}}
    plain_writer = {"processor": ScaleAndReport, "parameters": {"factor": 3.0}}
    use_applied = {"processor": "rename:applied_factor:kept"}
    use_t = {"processor": "template:'t {t_values}':label"}
    use_step = {"processor": "template:'steps {step_values}':label"}
    use_readings = {"processor": "rename:readings:kept"}
    out = [
        (["src(v)", "sweep-op", "template t_values"], [src, sweep_op, use_t]),
        (["src(v)", "sweep-probe", "template step_values"], [src, sweep_probe, use_step]),
        (["src(v)", "sweep-probe", "rename readings"], [src, sweep_probe, use_readings]),
        (["src(v)", "sweep-probe", "template step_values", "delete step_values"], [src, sweep_probe, use_step, {"processor": "delete:step_values"}]),
        (["sweep-src", "template t_values"], [sweep_src, use_t]),
        (["src(v)", "template step_values"], [src, use_step]),
        (["src(v)", "sweep-probe"], [src, sweep_probe]),
        # a swept operation that writes a context key it declares; a later node consumes that key
        (["src(v)", "sweep-writer", "rename applied_factor"], [src, sweep_writer, use_applied]),
        (["src(v)", "writer", "rename applied_factor"], [src, plain_writer, use_applied]),
        (["src(v)", "sweep-writer", "template applied_factor"], [src, sweep_writer, {"processor": "template:'f {applied_factor}':label"}]),
    ]
    import copy
    return [(l, copy.deepcopy(c)) for l, c in out]
