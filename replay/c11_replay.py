"""Native replay for C11: hands candidate expressions to the real ExpressionEvaluator.
A candidate that is ACCEPTED (compile returns) although it contains a non-whitelisted construct is a witness."""
import json, sys
from semantiva.utils.safe_eval import ExpressionEvaluator, ExpressionError
req = json.load(sys.stdin)
accepted, rejected, other = [], [], []
for c in req["candidates"]:
    try:
        fn = ExpressionEvaluator().compile(c, {"x"})
        accepted.append(c)
    except ExpressionError as e:
        rejected.append(c)
    except Exception as e:  # any other exception type is also a rejection path, but not the documented one
        other.append([c, type(e).__name__])
print(json.dumps({"accepted": accepted, "rejected": rejected, "other_exception": other}))
