"""Shared helpers for the identity tiers (C04/C05/C09/C10): configurations as YAML text over the example library,
identities from the three paths (inspection payload, Pipeline construction, trace pipeline_start)."""
import copy, io, json, random, logging
logging.disable(logging.CRITICAL)
import yaml
from semantiva.registry.processor_registry import ProcessorRegistry
ProcessorRegistry.register_modules("semantiva.examples.test_utils")
from semantiva.pipeline import Pipeline
from semantiva.pipeline.payload import Payload
from semantiva.context_processors.context_types import ContextType
from semantiva.data_types import NoDataType
from semantiva.examples.test_utils import FloatDataType
from semantiva.inspection.builder import build_inspection_payload
from semantiva.trace.model import TraceDriver


class MemTrace(TraceDriver):
    def __init__(self):
        self.records = []

    def on_pipeline_start(self, pipeline_id, run_id, canonical_spec, meta, pipeline_input=None, **kw):
        self.records.append({"record_type": "pipeline_start", "pipeline_id": pipeline_id, "run_id": run_id,
                             "canonical": copy.deepcopy(canonical_spec), "meta": copy.deepcopy(meta), "kw": dict(kw)})

    def on_node_event(self, event):
        self.records.append({"record_type": "ser", "ser": event})

    def on_pipeline_end(self, run_id, summary):
        self.records.append({"record_type": "pipeline_end", "run_id": run_id, "summary": summary})

    def on_run_space_start(self, *a, **k):
        self.records.append({"record_type": "run_space_start", "kw": k})

    def on_run_space_end(self, *a, **k):
        self.records.append({"record_type": "run_space_end", "kw": k})

    def flush(self):
        pass

    def close(self):
        pass


def sweep(proc, params, variables, mode="combinatorial", broadcast=None, collection="FloatDataCollection"):
    ps = {"parameters": params, "variables": variables, "collection": collection, "mode": mode}
    if broadcast is not None:
        ps["broadcast"] = broadcast
    return {"processor": proc, "derive": {"parameter_sweep": ps}}


def base_configs():
    """(name, node list, initial context) - each runs on NoDataType/ordinary contexts"""
    return [
        ("plain", [{"processor": "FloatValueDataSource", "parameters": {"value": 3.0}},
                   {"processor": "FloatMultiplyOperation", "parameters": {"factor": 2.0}},
                   {"processor": "FloatCollectValueProbe", "context_key": "seen"}], {}),
        ("twins", [{"processor": "FloatValueDataSourceWithDefault"},
                   {"processor": "FloatSquareOperation"}, {"processor": "FloatSquareOperation"},
                   {"processor": "rename:a:b"}], {"a": 1.0}),
        ("sweep-src", [sweep("FloatValueDataSource", {"value": "2.0 * t + 3.0 * u"}, {"t": {"lo": 0.0, "hi": 1.0, "steps": 3}, "u": [1.0, 2.0]}),
                       {"processor": "FloatCollectionSumOperation"}], {}),
        ("sweep-op", [{"processor": "FloatValueDataSource", "parameters": {"value": 2.0}},
                      sweep("FloatMultiplyOperation", {"factor": "(t + 1.0) * (u + 2.0)"}, {"t": [1.0, 2.0], "u": [3.0]})], {}),
        ("sweep-ctx", [{"processor": "FloatValueDataSource", "parameters": {"value": 2.0}},
                       sweep("FloatMultiplyOperation", {"factor": "a * b + 1.0"}, {"a": {"from_context": "avals"}, "b": {"from_context": "bvals"}}, mode="by_position")],
         {"avals": [1.0, 2.0], "bvals": [3.0, 4.0]}),
        # a context processor built by the model-fitting factory: its node parameters carry the keys the factory consumes
        ("fitting", [{"processor": "FloatValueDataSource", "parameters": {"value": 2.0}},
                     {"processor": "ModelFittingContextProcessor", "parameters": {"independent_var_key": "t_values", "dependent_var_key": "y", "context_key": "trend",
                                                                                  "fitting_model": "model:PolynomialFittingModel:degree=1"}},
                     {"processor": "rename:trend:fit"}], {"t_values": [0.0, 1.0, 2.0, 3.0], "y": [1.0, 3.0, 5.0, 7.0]}),
        # two sweeps of the same kind in one pipeline (generated classes that share a qualified name)
        ("two-sweeps", [{"processor": "FloatValueDataSource", "parameters": {"value": 2.0}},
                        sweep("FloatMultiplyOperation", {"factor": "2.0 * t + 3.0 * u"}, {"t": [1.0, 2.0], "u": [1.0]}),
                        {"processor": "FloatCollectionSumOperation"},
                        sweep("FloatMultiplyOperation", {"factor": "(t + 1.0) * (u + 2.0)"}, {"t": [3.0], "u": [4.0, 5.0]})], {}),
        # string-defined processors and a slicer: classes generated per node
        ("generated", [sweep("FloatValueDataSource", {"value": "2.0 * t + 3.0 * u"}, {"t": [1.0, 2.0], "u": [1.0]}),
                       {"processor": "slice:FloatMultiplyOperation:FloatDataCollection", "parameters": {"factor": 2.0}},
                       {"processor": "slice:FloatCollectValueProbe:FloatDataCollection", "context_key": "seen"},
                       {"processor": "template:'{a}-{seen}':label"}, {"processor": "delete:a"}], {"a": 1.0}),
    ]


def shuffle_keys(obj, rng):
    if isinstance(obj, dict):
        items = list(obj.items())
        rng.shuffle(items)
        return {k: shuffle_keys(v, rng) for k, v in items}
    if isinstance(obj, list):
        return [shuffle_keys(v, rng) for v in obj]
    return obj


def to_yaml(nodes, style, run_space=None):
    doc = {"pipeline": {"nodes": nodes}}
    if run_space is not None:
        doc["run_space"] = run_space
    if style == "flow":
        return yaml.safe_dump(doc, default_flow_style=True, sort_keys=False)
    if style == "quoted":
        return yaml.safe_dump(doc, default_flow_style=False, sort_keys=False, default_style='"')
    return yaml.safe_dump(doc, default_flow_style=False, sort_keys=False)


def ids_inspection(yaml_text):
    cfg = yaml.safe_load(yaml_text)
    payload = build_inspection_payload(cfg)
    return {"semantic_id": payload["identity"]["semantic_id"], "config_id": payload["identity"]["config_id"],
            "run_space_spec_id": (payload["identity"].get("run_space") or {}).get("spec_id"),
            "node_uuids": [n["uuid"] for n in payload["pipeline_spec_canonical"]["nodes"]],
            "node_semantic_ids": [n["node_semantic_id"] for n in payload["pipeline_spec_canonical"]["nodes"]],
            "required_context_keys": payload["required_context_keys"], "payload": payload}


def ids_run(yaml_text, ctx, data=None, pipeline=None, trace=None):
    cfg = yaml.safe_load(yaml_text)
    nodes = cfg["pipeline"]["nodes"]
    tr = trace or MemTrace()
    p = pipeline or Pipeline(nodes, trace=tr)
    err = None
    try:
        p.process(Payload(data if data is not None else NoDataType(), ContextType(copy.deepcopy(ctx))))
    except Exception as e:
        err = repr(e)
    start = [r for r in tr.records if r["record_type"] == "pipeline_start"][-1]
    meta = start["meta"]
    return {"pipeline_id": start["pipeline_id"], "semantic_id": meta.get("semantic_id"), "config_id": meta.get("config_id"),
            "node_uuids": [n["node_uuid"] for n in start["canonical"]["nodes"]],
            "node_semantic_ids": [meta.get("node_semantic_ids", {}).get(n["node_uuid"], "none") for n in start["canonical"]["nodes"]],
            "error": err}, p, tr
