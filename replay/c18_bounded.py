"""Bounded stand-in for C18 (labelled bounded): repeated execution of the same configuration; growth measured as counts, not time.
Run-time contract: after a warm-up, N further runs of the same pipeline configuration leave (a) the number of registered component
classes, (b) the number of live classes (object.__subclasses__ closure of the framework roots), (c) the number of handlers of the
framework loggers, (d) the number of gc-tracked objects (after gc.collect(), tolerance for allocator noise) independent of N.
Bound: 4 pipelines (plain, IO adapter + sink, rename/delete string processors, parameter sweep) x 4 ways of repeating (one reused
Pipeline, fresh Pipeline objects, run-space launch through the CLI, queue worker; for the plain pipeline also fresh Pipelines with a
helper-built Logger and a relaunched queue master/worker) x N in {20, 60} (thorough {50, 150, 450})."""
import contextlib, gc, io, json, logging, sys, tempfile, threading, time
logging.disable(logging.CRITICAL)
from pathlib import Path
from semantiva.pipeline import Pipeline, Payload
from semantiva.context_processors.context_types import ContextType
from semantiva.data_types import NoDataType
from semantiva.core.semantiva_component import get_component_registry, _SemantivaComponent
from semantiva.registry import ProcessorRegistry

req = json.load(sys.stdin)
thorough = req.get("tier") == "thorough"
NS = (50, 150, 450) if thorough else (20, 60)
ProcessorRegistry.clear()
ProcessorRegistry.register_modules(["semantiva.examples.test_utils"])
failures, evaluations, distinct, samples = [], 0, set(), []
tmp = Path(tempfile.mkdtemp())

PIPES = {
    "plain": [{"processor": "FloatValueDataSourceWithDefault"}, {"processor": "FloatMultiplyOperation", "parameters": {"factor": 2.0}},
              {"processor": "FloatCollectValueProbe", "context_key": "seen"}],
    "io-sink": [{"processor": "FloatValueDataSourceWithDefault"}, {"processor": "FloatTxtFileSaver", "parameters": {"path": str(tmp / "out.txt")}}],
    "string-processors": [{"processor": "FloatValueDataSourceWithDefault"}, {"processor": "FloatCollectValueProbe", "context_key": "a"},
                          {"processor": "rename:a:b"}, {"processor": "FloatCollectValueProbe", "context_key": "c"}, {"processor": "delete:c"}],
    "sweep": [{"processor": "FloatValueDataSource", "derive": {"parameter_sweep": {"parameters": {"value": "2.0 * t"}, "variables": {"t": {"values": [1.0, 2.0]}},
                                                                                    "collection": "FloatDataCollection"}}}],
}


def all_subclasses(root):
    seen, stack = set(), [root]
    while stack:
        c = stack.pop()
        for s in type.__subclasses__(c) if isinstance(c, type) else []:
            if s not in seen:
                seen.add(s)
                stack.append(s)
    return seen


def measure():
    gc.collect()
    gc.collect()
    reg = get_component_registry()
    handlers = sum(len(l.handlers) for l in [logging.getLogger(n) for n in list(logging.root.manager.loggerDict)] if isinstance(l, logging.Logger))
    import collections
    objs = gc.get_objects()
    return {"registered_classes": sum(len(v) for v in reg.values()), "live_component_classes": len(all_subclasses(_SemantivaComponent)),
            "logger_handlers": handlers, "gc_objects": len(objs), "types": collections.Counter(type(o).__name__ for o in objs)}


def repeat_reused(cfg):
    p = Pipeline(cfg)
    return lambda: p.process(Payload(NoDataType(), ContextType({})))


def repeat_fresh(cfg):
    return lambda: Pipeline(cfg).process(Payload(NoDataType(), ContextType({})))


def repeat_worker(cfg):
    from semantiva.execution.job_queue.queue_orchestrator import QueueSemantivaOrchestrator
    from semantiva.execution.job_queue.worker import worker_loop
    from semantiva.execution.transport.in_memory import InMemorySemantivaTransport
    from semantiva.execution.executor.executor import SequentialSemantivaExecutor
    stop = threading.Event()
    transport = InMemorySemantivaTransport()
    orch = QueueSemantivaOrchestrator(transport, stop_event=stop)
    ths = [threading.Thread(target=orch.run_forever, daemon=True),
           threading.Thread(target=worker_loop, args=(0, transport, SequentialSemantivaExecutor(), stop), kwargs={"poll_interval": 0.005}, daemon=True)]
    for t in ths:
        t.start()

    def once():
        orch.enqueue(cfg, context=ContextType({}), return_future=True).result(timeout=20)
    once.stop = lambda: (stop.set(), orch.stop(), [t.join(timeout=2) for t in ths])
    return once


def repeat_fresh_own_logger(cfg):
    """fresh Pipeline objects, each given a Logger built by a helper with its own Formatter"""
    from semantiva.logger.logger import Logger

    def once():
        lg = Logger(level="ERROR", console_output=True, formatter=logging.Formatter("%(levelname)s | %(message)s"))
        Pipeline(cfg, logger=lg).process(Payload(NoDataType(), ContextType({})))
    return once


def repeat_fresh_traced(cfg):
    """fresh Pipeline objects, each traced by a JSONL driver of its own (one trace file per run)"""
    from semantiva.trace.drivers.jsonl import JsonlTraceDriver
    counter = [0]

    def once():
        counter[0] += 1
        drv = JsonlTraceDriver(str(tmp / f"traced_{counter[0]}.ser.jsonl"))
        Pipeline(cfg, trace=drv).process(Payload(NoDataType(), ContextType({})))
    return once


def repeat_queue_relaunch(cfg):
    """a queue master + worker started again in the same interpreter with default loggers; one launch = one job"""
    import os
    from semantiva.execution.job_queue.queue_orchestrator import QueueSemantivaOrchestrator
    from semantiva.execution.job_queue.worker import worker_loop
    from semantiva.execution.transport.in_memory import InMemorySemantivaTransport
    from semantiva.execution.executor.executor import SequentialSemantivaExecutor
    os.chdir(tmp)               # the default role loggers write ./logs/*

    def once():
        stop = threading.Event()
        transport = InMemorySemantivaTransport()
        orch = QueueSemantivaOrchestrator(transport, stop_event=stop)
        ths = [threading.Thread(target=orch.run_forever, daemon=True),
               threading.Thread(target=worker_loop, args=(0, transport, SequentialSemantivaExecutor(), stop), kwargs={"poll_interval": 0.005}, daemon=True)]
        for t in ths:
            t.start()
        try:
            orch.enqueue(cfg, context=ContextType({}), return_future=True).result(timeout=20)
        finally:
            stop.set()
            orch.stop()
            for t in ths:
                t.join(timeout=2)
    return once


def repeat_launch(cfg_name):
    """a run-space launch of k runs through the CLI: one call = k runs"""
    import yaml
    from semantiva.cli import main

    def launch(k):
        cfg = {"extensions": ["semantiva-examples"], "pipeline": {"nodes": PIPES[cfg_name]},
               "run_space": {"blocks": [{"mode": "by_position", "context": {"unused_key": list(range(k))}}]}}
        f = tmp / f"launch_{cfg_name}.yaml"
        f.write_text(yaml.safe_dump(cfg))
        with contextlib.redirect_stdout(io.StringIO()), contextlib.redirect_stderr(io.StringIO()):
            try:
                main(["run", str(f), "-q"])
            except SystemExit as e:
                if e.code not in (0, None):
                    raise RuntimeError(f"launch exit {e.code}")
    return launch


def grows(name, way, series, runs):
    """series: [(N, measurement)]; a count grows with N if it increases at every step and its slope exceeds the per-run tolerance
    (registries / classes / handlers: any growth; gc-tracked objects: more than 3 objects per run, allocator noise is far below)"""
    bad = {}
    for key, per_run_tol in (("registered_classes", 0.0), ("live_component_classes", 0.0), ("logger_handlers", 0.0), ("gc_objects", 3.0)):
        vals = [m[key] for _, m in series]
        if all(b > a for a, b in zip(vals, vals[1:])) and (vals[-1] - vals[0]) / max(1, runs) > per_run_tol:
            bad[key] = vals
    return bad


for name, cfg in PIPES.items():
    for way in ("reused-pipeline", "fresh-pipelines", "run-space-launch", "queue-worker") + (("fresh-pipelines+own-logger", "fresh-pipelines+own-trace-driver", "queue-relaunch") if name == "plain" else ()):
        evaluations += 1
        distinct.add((name, way))
        try:
            if way == "run-space-launch":
                launch = repeat_launch(name)
                launch(2)                           # warm-up
                series = [(0, measure())]
                for n in NS:
                    launch(n)
                    series.append((n, measure()))
            else:
                once = {"reused-pipeline": repeat_reused, "fresh-pipelines": repeat_fresh, "queue-worker": repeat_worker,
                        "fresh-pipelines+own-logger": repeat_fresh_own_logger, "fresh-pipelines+own-trace-driver": repeat_fresh_traced,
                        "queue-relaunch": repeat_queue_relaunch}[way](cfg)
                for _ in range(3):
                    once()                          # warm-up
                series = [(0, measure())]
                done = 0
                for n in (NS if way != "queue-relaunch" else (4, 8)):
                    for _ in range(n):
                        once()
                    done += n
                    series.append((done, measure()))
                if hasattr(once, "stop"):
                    once.stop()
        except Exception as e:       # noqa
            failures.append({"class": "repetition-harness-error", "pipeline": name, "way": way, "exc": repr(e)[:300]})
            continue
        runs = sum(NS) if way != "queue-relaunch" else 12
        bad = grows(name, way, series, runs)
        for key, vals in bad.items():
            cls = f"grows-with-the-number-of-runs:{key}:{way}"
            extra = {}
            if key == "gc_objects":
                # which kinds of object pile up: the retained population is named, so that a different leak is a different class
                t0, t1 = series[0][1]["types"], series[-1][1]["types"]
                growers = sorted(((t1[t] - t0[t]) / runs, t) for t in t1 if (t1[t] - t0[t]) / runs >= 0.9)
                names = {t for _, t in growers}
                kind = "unconsumed-transport-messages" if "Message" in names else ("per-job-channel-entries" if "deque" in names else "other:" + ",".join(sorted(names))[:80])
                cls += ":" + kind
                extra = {"growing_types": [(t, round(r, 2)) for r, t in growers[-6:]]}
            failures.append(dict({"class": cls, "pipeline": name, "way": way, "values": vals, "per_run": round((vals[-1] - vals[0]) / runs, 2)}, **extra))
        if len(samples) < 3:
            samples.append({"pipeline": name, "way": way, "series": [(n, m["registered_classes"], m["live_component_classes"], m["gc_objects"]) for n, m in series]})



def failing_jobs_through_the_queue():
    """jobs whose pipeline raises, run through a queue master + worker: every job's Future completes exceptionally and nothing of the
    job stays behind in the orchestrator (pending futures, live Future objects)"""
    global evaluations
    import gc
    from concurrent.futures import Future
    from semantiva.execution.job_queue.queue_orchestrator import QueueSemantivaOrchestrator
    from semantiva.execution.job_queue.worker import worker_loop
    from semantiva.execution.transport.in_memory import InMemorySemantivaTransport
    from semantiva.execution.executor.executor import SequentialSemantivaExecutor
    bad_cfg = [{"processor": "FloatValueDataSourceWithDefault"}, {"processor": "FloatMultiplyOperation"}]      # unresolvable parameter
    stop = threading.Event()
    transport = InMemorySemantivaTransport()
    orch = QueueSemantivaOrchestrator(transport, stop_event=stop)
    ths = [threading.Thread(target=orch.run_forever, daemon=True),
           threading.Thread(target=worker_loop, args=(0, transport, SequentialSemantivaExecutor(), stop), kwargs={"poll_interval": 0.005}, daemon=True)]
    for t in ths:
        t.start()

    def once():
        f = orch.enqueue(bad_cfg, context=ContextType({}), return_future=True)
        try:
            f.result(timeout=20)
        except Exception:      # noqa - the job is supposed to fail
            pass

    def count():
        gc.collect()
        return {"pending_futures": len(orch.pending_futures), "live_futures": sum(1 for o in gc.get_objects() if isinstance(o, Future))}
    evaluations += 1
    distinct.add(("plain", "queue-worker-failing-jobs"))
    try:
        for _ in range(3):
            once()
        series = [(0, count())]
        done = 0
        for n in (10, 30):
            for _ in range(n):
                once()
            done += n
            series.append((done, count()))
    finally:
        stop.set()
        orch.stop()
        for t in ths:
            t.join(timeout=2)
    for key in ("pending_futures", "live_futures"):
        vals = [m[key] for _, m in series]
        if all(b > a for a, b in zip(vals, vals[1:])):
            failures.append({"class": f"grows-with-the-number-of-runs:{key}:queue-worker-failing-jobs", "values": vals, "per_run": round((vals[-1] - vals[0]) / 40, 2)})


try:
    failing_jobs_through_the_queue()
except Exception as e:       # noqa
    failures.append({"class": "repetition-harness-error", "pipeline": "plain", "way": "queue-worker-failing-jobs", "exc": repr(e)[:300]})

import shutil
shutil.rmtree(tmp, ignore_errors=True)
print(json.dumps({"bound": "4 pipelines x {reused Pipeline, fresh Pipelines, run-space launch via CLI, queue worker} x N in %s after warm-up; fresh Pipelines each with a JSONL trace driver of its own; failing jobs through a queue worker (pending / live futures) N in [10, 30]" % (list(NS),),
                  "evaluations": evaluations, "distinct_nontrivial": len(distinct),
                  "rule": "distinct = (pipeline, way of repeating); growth = registered component classes / live component classes / logger handlers strictly increasing with N, gc-tracked objects increasing by more than 400 per step",
                  "failures": failures[:60], "samples": samples}, default=str))
