"""Native replays for C01: small real pipelines around the refuted obligation, compared with the documented semantics."""
import json, sys, logging
logging.disable(logging.CRITICAL)
req = json.load(sys.stdin)
ob = req.get("obligation", "")
from semantiva.pipeline import Pipeline
from semantiva.pipeline.payload import Payload
from semantiva.context_processors.context_types import ContextType
from semantiva.examples.test_utils import (FloatDataType, FloatOperation, FloatMultiplyOperation, FloatBasicProbe,
                                           FloatValueDataSource)

problems = []


def run(nodes, data, ctx):
    p = Pipeline(nodes)
    out = p.process(Payload(data, ContextType(dict(ctx))))
    return out.data, out.context.to_dict()


def expect(name, got, want):
    if got != want:
        problems.append({"case": name, "got": repr(got), "want": repr(want)})


class AddWithDefault(FloatOperation):
    def _process_logic(self, data, addend: float = 10.0):
        return FloatDataType(data.data + addend)


try:
    if "rename" in ob or "delete" in ob or not ob:
        for v in (0.0, 0, False, "", [], 3.5):
            d, c = run([{"processor": "rename:seen:moved"}], FloatDataType(1.0), {"seen": v, "other": 1})
            expect(f"rename value={v!r}", c, {"moved": v, "other": 1})
            d, c = run([{"processor": "delete:seen"}], FloatDataType(1.0), {"seen": v, "other": 1})
            expect(f"delete value={v!r}", c, {"other": 1})
    if "Resolve" in ob or "resolv" in ob or "Logic" in ob or "_get_processor_parameters" in ob or not ob:
        # precedence config > context > default
        d, c = run([{"processor": AddWithDefault, "parameters": {"addend": 1.0}}], FloatDataType(1.0), {"addend": 2.0})
        expect("config beats context", d.data, 2.0)
        d, c = run([{"processor": AddWithDefault}], FloatDataType(1.0), {"addend": 2.0})
        expect("context beats default", d.data, 3.0)
        d, c = run([{"processor": AddWithDefault}], FloatDataType(1.0), {})
        expect("default", d.data, 11.0)
        try:
            run([{"processor": FloatMultiplyOperation}], FloatDataType(1.0), {})
            problems.append({"case": "unresolvable parameter did not raise"})
        except KeyError:
            pass
    if "probe" in ob.lower() or "data-passes" in ob or "context'" in ob or not ob:
        data = FloatDataType(4.0)
        d, c = run([{"processor": FloatBasicProbe, "context_key": "seen"}], data, {"a": 1})
        expect("probe passes data through", d is data, True)
        expect("probe result stored only under its key", sorted(c), ["a", "seen"])
    if "gate" in ob or "TypeError" in ob or "failure-is-prescribed" in ob or not ob:
        class Other(FloatDataType):
            pass
        try:
            run([{"processor": FloatMultiplyOperation, "parameters": {"factor": 2.0}}], "not a float type", {})
            problems.append({"case": "type gate did not raise"})
        except TypeError:
            pass
    if "undeclared" in ob or "allowed" in ob or "observer" in ob.lower() or not ob:
        from semantiva.context_processors.context_observer import _ValidatingContextObserver
        o = _ValidatingContextObserver(context_keys=["a"], suppressed_keys=["b"])
        o.observer_context = ContextType({"b": 1, "c": 2})
        o.update("a", 5)
        expect("declared update", o.observer_context.to_dict(), {"a": 5, "b": 1, "c": 2})
        for bad in ("b", "c", "zzz"):
            try:
                o.update(bad, 1)
                problems.append({"case": f"undeclared update of {bad} accepted"})
            except KeyError:
                pass
        for bad in ("a", "c"):
            try:
                o.delete(bad)
                problems.append({"case": f"undeclared delete of {bad} accepted"})
            except KeyError:
                pass
        o.delete("b")
        expect("declared delete", o.observer_context.to_dict(), {"a": 5, "c": 2})
except Exception as e:  # an unexpected exception in the harness itself is reported, not hidden
    problems.append({"case": "replay harness", "exception": repr(e)})
print(json.dumps({"violates": bool(problems), "problems": problems}))
