"""Bounded stand-in for C08 (labelled bounded, never counted as proved).

Run-time contract on the real expand_run_space: for every enumerated specification the result equals the documented
Expand function (written from docs/source/run_space.rst and the module docstring), or the documented error is raised.
Bound: <= 3 blocks, <= 2 keys per block over a 4-letter key alphabet, value lists of length 0..3, both block modes,
both combine modes, max_runs in {0, 1, 4, 1000}; single-block context+source combinations over real CSV files with 0..2 rows on either side (select/rename are proved deductively);
duplicate keys from inline context / source columns / renamed columns within a block and across adjacent and non-adjacent blocks.
Also measures materialisation when the cap is exceeded (sys.settrace on the comprehension frames of _expand_entries).
"""
import itertools, json, sys, logging, random
logging.disable(logging.CRITICAL)
from semantiva.configurations.schema import RunBlock, RunSpaceV1Config
from semantiva.execution import run_space as RS
from semantiva.exceptions.pipeline_exceptions import PipelineConfigurationError, RunSpaceMaxRunsExceededError

req = json.load(sys.stdin)
rng = random.Random(req.get("seed", 0))
thorough = req.get("tier") == "thorough"


class Reject(Exception):
    def __init__(self, kind):
        self.kind = kind


def expand_block(mode, ctx):
    if not ctx:
        return [] if mode == "by_position" else [{}]
    keys = sorted(ctx)
    if mode == "by_position":
        lens = {len(ctx[k]) for k in keys}
        if len(lens) > 1:
            raise Reject("config")
        n = lens.pop()
        return [{k: ctx[k][i] for k in keys} for i in range(n)]
    return [dict(zip(keys, combo)) for combo in itertools.product(*[ctx[k] for k in keys])]


def Expand(blocks, combine, max_runs):
    seen = set()
    per_block = []
    for mode, ctx in blocks:
        runs = expand_block(mode, ctx)
        if seen & set(ctx):
            raise Reject("config")
        seen |= set(ctx)
        per_block.append(runs)
    if not per_block:
        return [{}]
    if combine == "combinatorial":
        if any(len(r) == 0 for r in per_block):
            return []
        total = 1
        for r in per_block:
            total *= len(r)
        if total > max_runs:
            raise Reject("max_runs")
        out = []
        for combo in itertools.product(*per_block):
            m = {}
            for part in combo:
                m.update(part)
            out.append(m)
        return out
    sizes = {len(r) for r in per_block}
    if len(sizes) != 1:
        raise Reject("config")
    n = sizes.pop()
    if n > max_runs:
        raise Reject("max_runs")
    out = []
    for i in range(n):
        m = {}
        for r in per_block:
            m.update(r[i])
        out.append(m)
    return out


KEYS = "abcd"
LISTS = [[], [1], [1, 2], [1, 2, 3], ["x", "y"]]


def contexts():
    yield {}
    for k in KEYS[:3]:
        for v in LISTS:
            yield {k: v}
    for k1, k2 in (("b", "a"), ("a", "c"), ("d", "b")):
        for v1 in LISTS[:4]:
            for v2 in LISTS[1:]:
                yield {k1: v1, k2: v2}


ctxs = list(contexts())
blocks_pool = [(m, c) for m in ("by_position", "combinatorial") for c in ctxs]
failures, evaluations, distinct, samples = [], 0, set(), []


def check(blocks, combine, max_runs):
    global evaluations
    evaluations += 1
    spec = RunSpaceV1Config(combine=combine, max_runs=max_runs, blocks=[RunBlock(mode=m, context={k: list(v) for k, v in c.items()}) for m, c in blocks])
    try:
        want = ("ok", Expand(blocks, combine, max_runs))
    except Reject as r:
        want = ("reject", r.kind)
    try:
        runs, meta = RS.expand_run_space(spec)
        got = ("ok", runs)
    except RunSpaceMaxRunsExceededError:
        got = ("reject", "max_runs")
    except PipelineConfigurationError:
        got = ("reject", "config")
    except Exception as e:
        got = ("crash", repr(e))
    key = json.dumps([blocks, combine, max_runs], sort_keys=True, default=str)
    if want[0] == "ok" and len(want[1]) > 1 or want[0] == "reject":
        distinct.add(key)
    ok = got == want or (got[0] == "ok" and want[0] == "ok" and [list(r.items()) for r in got[1]] == [list(r.items()) for r in want[1]])
    if got[0] == "ok" and want[0] == "ok":
        ok = got[1] == want[1] and [sorted(r) for r in got[1]] == [sorted(r) for r in want[1]]
    if not ok:
        failures.append({"class": "expansion-differs-from-documented", "blocks": blocks, "combine": combine, "max_runs": max_runs,
                         "got": got if got[0] != "ok" else ("ok", got[1][:6]), "want": want if want[0] != "ok" else ("ok", want[1][:6])})
    elif len(samples) < 3 and want[0] == "ok" and len(want[1]) > 2:
        samples.append({"blocks": blocks, "combine": combine, "max_runs": max_runs, "runs": want[1][:4]})


for combine in ("combinatorial", "by_position"):
    for max_runs in (0, 1, 4, 1000):
        check([], combine, max_runs)
        for b in blocks_pool:
            check([b], combine, max_runs)
    pairs = list(itertools.product(blocks_pool, repeat=2))
    rng.shuffle(pairs)
    for b1, b2 in pairs[: (4000 if thorough else 900)]:
        check([b1, b2], combine, rng.choice((1, 4, 1000)))
    triples = [tuple(rng.choice(blocks_pool) for _ in range(3)) for _ in range(1500 if thorough else 300)]
    for t in triples:
        check(list(t), combine, rng.choice((4, 1000)))

# ---- blocks that combine an inline context with an external source (real CSV files): sizes 0..2 on either side -------------
import tempfile as _tf, os as _os
from semantiva.configurations.schema import RunSource
_dir = _tf.mkdtemp()


def _csv(rows):
    p_ = _os.path.join(_dir, f"src_{rows}.csv")
    with open(p_, "w") as fh:
        fh.write("s\n" + "".join(f"{10 * (i + 1)}\n" for i in range(rows)))
    return p_


for bmode in ("by_position", "combinatorial"):
    for n_ctx in (None, 0, 1, 2):
        for n_src in (0, 1, 2):
            evaluations += 1
            distinct.add(("context+source", bmode, n_ctx, n_src))
            ctx_vals = None if n_ctx is None else [i + 1 for i in range(n_ctx)]
            src_vals = [10 * (i + 1) for i in range(n_src)]
            block = RunBlock(mode=bmode, context=({} if ctx_vals is None else {"c": list(ctx_vals)}),
                             source=RunSource(format="csv", path=_csv(n_src), select=None, rename={}, mode=bmode))
            spec = RunSpaceV1Config(combine="combinatorial", max_runs=1000, blocks=[block])
            # documented: by_position aligns the two sides (equal run counts required, an absent side does not count);
            # combinatorial takes their product (an absent side is the neutral single empty run)
            if bmode == "by_position":
                if ctx_vals is None:
                    want = ("ok", [{"s": v} for v in src_vals])
                elif len(ctx_vals) != len(src_vals):
                    want = ("reject", "config")
                else:
                    want = ("ok", [{"c": c, "s": v} for c, v in zip(ctx_vals, src_vals)])
            else:
                cs = [{}] if ctx_vals is None else [{"c": c} for c in ctx_vals]
                want = ("ok", [dict(c, s=v) for c in cs for v in src_vals])
            try:
                runs, meta = RS.expand_run_space(spec, cwd=_dir)
                got = ("ok", [{k: (int(v) if isinstance(v, str) and v.isdigit() else v) for k, v in r.items()} for r in runs])
            except RunSpaceMaxRunsExceededError:
                got = ("reject", "max_runs")
            except PipelineConfigurationError:
                got = ("reject", "config")
            except Exception as e:       # noqa
                got = ("crash", repr(e)[:200])
            if got != want:
                failures.append({"class": "context+source-block-differs-from-documented", "mode": bmode, "context_values": ctx_vals, "source_rows": n_src,
                                 "got": got, "want": want})

# ---- duplicate keys must be rejected wherever they come from: inline / source column / renamed source column, within one block,
#      across adjacent and non-adjacent blocks -------------------------------------------------------------------------------------
def _csv2():
    p_ = _os.path.join(_dir, "two_columns.csv")
    with open(p_, "w") as fh:
        fh.write("s,t\n10,1\n20,2\n")
    return p_


def _src(select=None, rename=None):
    return RunSource(format="csv", path=_csv2(), select=select, rename=rename or {}, mode="by_position")


DUP_CASES = {
    "inline+source-column-in-one-block": [RunBlock(mode="by_position", context={"s": [1, 2]}, source=_src(select=["s"]))],
    "inline+renamed-source-column-in-one-block": [RunBlock(mode="by_position", context={"c": [1, 2]}, source=_src(select=["t"], rename={"t": "c"}))],
    "two-source-columns-renamed-to-one-key": [RunBlock(mode="by_position", context={}, source=_src(select=["s", "t"], rename={"t": "s"}))],
    "inline-then-source-column-in-a-later-block": [RunBlock(mode="by_position", context={"s": [1, 2]}), RunBlock(mode="by_position", context={}, source=_src(select=["s"]))],
    "source-column-then-inline-in-a-later-block": [RunBlock(mode="by_position", context={}, source=_src(select=["s"])), RunBlock(mode="by_position", context={"s": [1, 2]})],
    "inline-then-renamed-source-column-in-a-later-block": [RunBlock(mode="by_position", context={"c": [1, 2]}), RunBlock(mode="by_position", context={}, source=_src(select=["t"], rename={"t": "c"}))],
    "non-adjacent-blocks(inline,other,source-column)": [RunBlock(mode="by_position", context={"s": [1, 2]}), RunBlock(mode="by_position", context={"x": [5, 6]}),
                                                       RunBlock(mode="by_position", context={}, source=_src(select=["s"]))],
    "non-adjacent-blocks(source-column,other,source-column)": [RunBlock(mode="by_position", context={}, source=_src(select=["s"])), RunBlock(mode="by_position", context={"x": [5, 6]}),
                                                              RunBlock(mode="by_position", context={}, source=_src(select=["t"], rename={"t": "s"}))],
    "missing-selected-column": [RunBlock(mode="by_position", context={}, source=_src(select=["s", "nope"]))],
}
for label, blocks in DUP_CASES.items():
    for combine in ("by_position", "combinatorial"):
        evaluations += 1
        distinct.add(("duplicate-keys", label, combine))
        try:
            runs, meta = RS.expand_run_space(RunSpaceV1Config(combine=combine, max_runs=1000, blocks=list(blocks)), cwd=_dir)
            failures.append({"class": "duplicate-or-missing-key-not-rejected", "case": label, "combine": combine, "runs": repr(runs)[:200]})
        except PipelineConfigurationError:
            pass
        except Exception as e:       # noqa
            failures.append({"class": "duplicate-or-missing-key-rejected-with-an-undocumented-error", "case": label, "combine": combine, "exc": repr(e)[:200]})

# materialisation under an exceeded cap (known finding: the block product is built before the guard)
counter = {"n": 0}
code_names = {"_expand_entries"}


def tracer(frame, event, arg):
    if frame.f_code.co_name in ("<listcomp>", "<dictcomp>") or frame.f_code.co_name in code_names:
        def local(fr, ev, a):
            if ev == "line":
                counter["n"] += 1
            return local
        return local
    return None


big = RunSpaceV1Config(combine="combinatorial", max_runs=5, blocks=[RunBlock(mode="combinatorial", context={"a": list(range(40)), "b": list(range(40)), "c": list(range(10))})])
sys.settrace(tracer)
try:
    RS.expand_run_space(big)
    failures.append({"class": "cap-not-enforced", "note": "16000 runs returned with max_runs=5"})
except RunSpaceMaxRunsExceededError:
    pass
finally:
    sys.settrace(None)
input_size = 40 + 40 + 10
materialised = counter["n"]
known = []
if materialised > 20 * input_size:
    failures.append({"class": "cap-exceeded-after-materialising-the-block-product", "line_events_in_expansion": materialised,
                     "input_size": input_size, "max_runs": 5, "product": 16000})
print(json.dumps({"bound": "<=3 blocks, <=2 keys/block, lists of length 0..3, both modes at block and combine level, max_runs in {0,1,4,1000}; single-block context+source combinations over real CSV files (0..2 rows each side); 9 duplicate / missing key shapes (inline, source column, renamed column; within a block, adjacent and non-adjacent blocks) x 2 combine modes",
                  "evaluations": evaluations, "distinct_nontrivial": len(distinct),
                  "rule": "exhaustive over 0..1 blocks, seeded sample of 2- and 3-block specs; non-trivial = more than one run expected or a documented rejection; distinct = distinct (blocks, combine, max_runs)",
                  "failures": failures[:20], "samples": samples}, default=str))
