"""Bounded stand-in for C13 (labelled bounded): real traces produced by the runtime, every prefix, seeded permutations.
Run-time contract on TraceAggregator: verdict(prefix) = DocVerdict(prefix); verdict(permutation) = verdict; finalize twice equal.
Bound: 3 trace shapes (successful run, run failing at its second node, launch of 2 runs) x every prefix x 12 permutations."""
import json, sys, tempfile, random, logging, dataclasses
logging.disable(logging.CRITICAL)
from pathlib import Path
from semantiva import Pipeline
from semantiva.context_processors import ContextType
from semantiva.data_types import NoDataType
from semantiva.pipeline import Payload
from semantiva.examples.test_utils import FloatValueDataSourceWithDefault, FloatMultiplyOperation, FloatBasicProbe
from semantiva.trace.aggregation import TraceAggregator
from semantiva.trace.drivers.jsonl import JsonlTraceDriver
from semantiva.trace.runtime import RunSpaceLaunchManager, RunSpaceTraceEmitter, TraceContext

req = json.load(sys.stdin)
rng = random.Random(req.get("seed", 0))
thorough = req.get("tier") == "thorough"
tmp = Path(tempfile.mkdtemp())


def nodes(fail=False):
    n = [{"processor": FloatValueDataSourceWithDefault},
         {"processor": FloatMultiplyOperation, "parameters": ({} if fail else {"factor": 2.0})},
         {"processor": FloatBasicProbe, "context_key": "seen"}]
    return n


def load(p):
    return [json.loads(l) for l in Path(p).read_text().splitlines() if l.strip()]


def single(fail):
    out = tmp / f"single_{fail}.jsonl"
    d = JsonlTraceDriver(output_path=str(out))
    try:
        Pipeline(nodes(fail), trace=d).process(Payload(NoDataType(), ContextType({})))
    except Exception:
        pass
    d.close()
    return load(out)


def launch(n=2):
    out = tmp / "launch.jsonl"
    d = JsonlTraceDriver(output_path=str(out))
    em = RunSpaceTraceEmitter(d)
    la = RunSpaceLaunchManager().create_launch(run_space_spec_id="a" * 64, run_space_inputs_id=None)
    ctx = TraceContext()
    ctx.set_run_space_fk(spec_id="a" * 64, launch_id=la.id, attempt=la.attempt)
    em.emit_start(run_space_spec_id="a" * 64, run_space_launch_id=la.id, run_space_attempt=la.attempt,
                  run_space_combine_mode="combinatorial", run_space_total_runs=n, run_space_planned_run_count=n)
    for i in range(n):
        p = Pipeline(nodes(False), trace=d)
        p.set_run_metadata({"trace_context": ctx, "run_space_index": i, "run_space_context": {}})
        p.process(Payload(NoDataType(), ContextType({})))
    em.emit_end(run_space_launch_id=la.id, run_space_attempt=la.attempt, summary={"completed_runs": n})
    d.close()
    return load(out)


def doc_verdict(records):
    """documented verdict per run id from the set of records"""
    runs = {}
    for r in records:
        rt = r.get("record_type")
        if rt in ("pipeline_start", "pipeline_end"):
            v = runs.setdefault(r["run_id"], {"start": False, "end": False, "spec": None, "ser": set()})
            v["start" if rt == "pipeline_start" else "end"] = True
            if rt == "pipeline_start":
                v["spec"] = {n["node_uuid"] for n in r["pipeline_spec_canonical"]["nodes"]}
        elif rt == "ser":
            v = runs.setdefault(r["identity"]["run_id"], {"start": False, "end": False, "spec": None, "ser": set()})
            v["ser"].add(r["identity"]["node_id"])
    out = {}
    for rid, v in runs.items():
        status = "complete" if v["start"] and v["end"] else "partial" if (v["start"] or v["end"]) else None
        problems = set()
        if not v["start"]:
            problems.add("missing_pipeline_start")
        if not v["end"]:
            problems.add("missing_pipeline_end")
        missing = sorted(v["spec"] - v["ser"]) if v["spec"] else []
        out[rid] = {"status": status, "problems": problems, "missing": missing, "orphans": []}
    return out


_FEED = [0]


def verdicts(records):
    """the records are handed to the aggregator in one of four ways in turn: a list, a one-shot generator (a streamed file),
    an iterator, record by record - the verdicts depend on the record set only"""
    agg = TraceAggregator()
    _FEED[0] += 1
    way = _FEED[0] % 4
    if way == 0:
        agg.ingest_many(records)
    elif way == 1:
        agg.ingest_many(r for r in list(records))
    elif way == 2:
        agg.ingest_many(iter(list(records)))
    else:
        for r in records:
            agg.ingest(r)
    res = {}
    for run in list(agg.iter_runs()):
        a = agg.finalize_run(run.run_id)
        b = agg.finalize_run(run.run_id)
        res[run.run_id] = (dataclasses.asdict(a), dataclasses.asdict(b))
    launches = {}
    for la in list(agg.iter_launches()):
        lc = agg.finalize_launch(la.run_space_launch_id, la.run_space_attempt)
        launches[(la.run_space_launch_id, la.run_space_attempt)] = dataclasses.asdict(lc)
    return res, launches


failures, evaluations, distinct, samples = [], 0, set(), []
shapes = {"ok": single(False), "fail@2": single(True), "launch2": launch(2)}
for label, recs in shapes.items():
    for cut in range(1, len(recs) + 1):
        prefix = recs[:cut]
        want = doc_verdict(prefix)
        got, launches = verdicts(prefix)
        evaluations += 1
        distinct.add((label, cut))
        for rid, w in want.items():
            if rid not in got:
                failures.append({"class": "run-missing", "shape": label, "cut": cut})
                continue
            a, b = got[rid]
            if a != b:
                failures.append({"class": "finalize-twice-differs", "shape": label, "cut": cut})
            if w["status"] and a["status"] != w["status"]:
                failures.append({"class": "status", "shape": label, "cut": cut, "got": a["status"], "want": w["status"]})
            if w["status"] and {p for p in a["problems"] if p.startswith("missing_pipeline")} != w["problems"]:
                failures.append({"class": "missing-edge-naming", "shape": label, "cut": cut, "got": a["problems"], "want": sorted(w["problems"])})
            if w["status"] and a["missing_nodes"] != w["missing"]:
                failures.append({"class": "missing-nodes", "shape": label, "cut": cut, "got": a["missing_nodes"], "want": w["missing"]})
            if a["orphan_nodes"]:
                failures.append({"class": "orphans", "shape": label, "cut": cut, "got": a["orphan_nodes"]})
        for key, lc in launches.items():
            counts = {"complete": 0, "partial": 0, "invalid": 0}
            for rid in [r for r in got if any(x.get("run_space_launch_id") == key[0] and x.get("run_id") == r for x in prefix if x.get("record_type") == "pipeline_start")]:
                counts[got[rid][0]["status"]] += 1
            if lc["summary"].get("runs_by_status") != counts:
                failures.append({"class": "launch-rollup", "shape": label, "cut": cut, "got": lc["summary"].get("runs_by_status"), "want": counts})
            # documented launch verdict on this prefix: complete exactly when both launch edges were seen and every run is complete,
            # otherwise partial with the missing edge named (a launch known only through its runs, without its start, is invalid)
            ls = any(x.get("record_type") == "run_space_start" and x.get("run_space_launch_id") == key[0] for x in prefix)
            le = any(x.get("record_type") == "run_space_end" and x.get("run_space_launch_id") == key[0] for x in prefix)
            nruns = sum(counts.values())
            want_l = "invalid" if (not ls and nruns) else ("complete" if (ls and le and not counts["partial"] and not counts["invalid"]) else "partial")
            if lc["status"] != want_l:
                failures.append({"class": "launch-status", "shape": label, "cut": cut, "got": lc["status"], "want": want_l, "start": ls, "end": le, "runs": counts})
            want_p = {p_ for p_, seen in (("missing_run_space_start", ls), ("missing_run_space_end", le)) if not seen}
            if set(lc["problems"]) != want_p:
                failures.append({"class": "launch-missing-edge-naming", "shape": label, "cut": cut, "got": lc["problems"], "want": sorted(want_p)})
        for _ in range(12 if thorough else 4):
            perm = prefix[:]
            rng.shuffle(perm)
            g2, l2 = verdicts(perm)
            evaluations += 1
            strip = lambda d: {k: {kk: vv for kk, vv in v[0].items() if kk != "summary"} for k, v in d.items()}
            if strip(g2) != strip(got) or {k: (v["status"], v["problems"]) for k, v in l2.items()} != {k: (v["status"], v["problems"]) for k, v in launches.items()}:
                failures.append({"class": "order-dependence", "shape": label, "cut": cut})
        if len(samples) < 2 and cut == len(recs) // 2:
            samples.append({"shape": label, "cut": cut, "record_types": [r["record_type"] for r in prefix], "verdicts": {k: v[0]["status"] for k, v in got.items()}})
print(json.dumps({"bound": "3 trace shapes (ok run, run failing at node 2, launch of 2 runs) x every prefix x seeded permutations",
                  "evaluations": evaluations, "distinct_nontrivial": len(distinct),
                  "rule": "every prefix of each real trace; distinct = (shape, cut); each prefix also ingested in shuffled orders",
                  "failures": failures[:20], "samples": samples}, default=str))
