"""Bounded stand-in for C17 (labelled bounded): the real CLI entry point (semantiva.cli.main, in-process) on generated
configurations; execution is observed through sink files written by the last node and through the JSONL trace directory.
Run-time contract:
  * a rejecting condition (invalid YAML shape, unknown processor / parameter, missing required context key, run-space
    configuration error, run-space cap exceeded, unknown trace driver / orchestrator, --validate, --dry-run,
    --run-space-dry-run, run_space.dry_run: true) => no sink file, no trace file, documented exit code
    (0 for the three "no execution requested" modes, 3 for rejections);
  * otherwise exit 0 <=> every planned run wrote its sink file; a failing run k => non-zero exit, runs > k wrote nothing,
    run_space_end reports planned = n, completed = k.
Bound: 4 placements of the run_space block x 9 flag sets + 9 invalid configurations + run spaces of 1..4 runs x failing index."""
import contextlib, io, json, sys, tempfile, logging, itertools
logging.disable(logging.CRITICAL)
from pathlib import Path
from semantiva.cli import main

req = json.load(sys.stdin)
thorough = req.get("tier") == "thorough"
DOCUMENTED = {0, 1, 2, 3, 4, 5}
failures, evaluations, distinct, samples = [], 0, set(), []
root = Path(tempfile.mkdtemp())
HEAD = 'extensions: ["semantiva-examples"]\n'


def nodes(indent, last_params="path: \"{out}\""):
    pad = " " * indent
    return (f"{pad}nodes:\n{pad}  - processor: FloatValueDataSourceWithDefault\n{pad}  - processor: FloatMultiplyOperation\n"
            f"{pad}  - processor: FloatTxtFileSaver\n" + (f"{pad}    parameters:\n{pad}      {last_params}\n" if last_params else ""))


def run_cli(argv):
    out, err = io.StringIO(), io.StringIO()
    code = None
    with contextlib.redirect_stdout(out), contextlib.redirect_stderr(err):
        try:
            main(argv)
        except SystemExit as exc:
            code = exc.code
        except BaseException as exc:      # noqa
            code = f"raised {exc!r}"
    return code, out.getvalue(), err.getvalue()


def trace_records(trace_dir):
    recs = []
    if trace_dir.exists():
        for p in sorted(trace_dir.rglob("*")):
            if p.is_file():
                for line in p.read_text().splitlines():
                    if line.strip():
                        try:
                            recs.append(json.loads(line))
                        except Exception:
                            recs.append({"record_type": "<unparsable>"})
    return recs


def case(name, yaml_text, extra, sinks, expect, want_code=None, fail_at=None):
    """expect: 'nothing' (rejected / no execution requested), 'all' (every run executes), 'upto' (runs < fail_at only).
    A case that must execute nothing is run twice: with the trace output given as a directory and as a single file."""
    _case(name, yaml_text, extra, sinks, expect, want_code, fail_at, "dir")
    if expect == "nothing" and "--trace.driver" not in extra:
        _case(name + "/trace-to-a-file", yaml_text, extra, sinks, expect, want_code, fail_at, "file")


def _case(name, yaml_text, extra, sinks, expect, want_code, fail_at, trace_mode):
    global evaluations
    evaluations += 1
    d = root / f"c{evaluations}"
    d.mkdir()
    trace_root = d / "trace"
    trace_dir = trace_root if trace_mode == "dir" else trace_root / "sub" / "run.ser.jsonl"
    cfg = d / "p.yaml"
    (d / "src.csv").write_text("factor,extra\n5.0,1\n6.0,2\n")          # an external run-space source some configurations refer to
    sink_paths = [d / s for s in sinks]
    cfg.write_text(yaml_text.replace("{out}", str(sink_paths[0]) if sink_paths else "").replace("{dir}", str(d)))
    argv = ["run", str(cfg), *extra, "--trace.driver", "jsonl", "--trace.output", str(trace_dir), "-q"] if "--trace.driver" not in extra \
        else ["run", str(cfg), *extra, "-q"]
    code, out, err = run_cli(argv)
    written = [p.exists() for p in sink_paths]
    recs = trace_records(trace_root)
    trace_files = [str(p.relative_to(d)) for p in trace_root.rglob("*") if p.is_file()] if trace_root.exists() else []
    info = {"case": name, "argv": extra, "exit": code, "sinks_written": written, "trace_records": len(recs), "trace_files": trace_files}
    distinct.add(name)
    if code not in DOCUMENTED:
        failures.append(dict(info, **{"class": "undocumented-exit-code", "stderr": err[-300:]}))
        return
    if expect == "nothing":
        if any(written) or any(r.get("record_type") in ("pipeline_start", "ser", "pipeline_end", "run_space_start") for r in recs):
            failures.append(dict(info, **{"class": "executed-although-rejected-or-no-execution-requested:" + name.split("/")[0]}))
        elif trace_files:
            failures.append(dict(info, **{"class": "trace-file-left-although-nothing-was-executed"}))
        elif want_code is not None and code != want_code:
            failures.append(dict(info, **{"class": f"wrong-exit-code:{name.split('/')[0]}", "want": want_code, "stderr": err[-300:]}))
    elif expect == "all-or-rejected" and code == 3:
        if any(written) or any(r.get("record_type") in ("pipeline_start", "ser", "pipeline_end", "run_space_start") for r in recs):
            failures.append(dict(info, **{"class": "executed-although-rejected-or-no-execution-requested:" + name.split("/")[0]}))
    elif expect in ("all", "all-or-rejected"):
        if code != 0 or not all(written):
            failures.append(dict(info, **{"class": "valid-configuration-did-not-run-to-completion", "stderr": err[-300:]}))
    elif expect == "upto":
        want = [i < fail_at for i in range(len(sink_paths))]
        if code == 0:
            failures.append(dict(info, **{"class": "exit-0-although-a-run-failed"}))
        elif written != want:
            failures.append(dict(info, **{"class": "runs-after-the-failing-run-were-started", "want": want}))
        else:
            ends = [r for r in recs if r.get("record_type") == "run_space_end"]
            starts = [r for r in recs if r.get("record_type") == "run_space_start"]
            if len(starts) != 1 or len(ends) != 1:
                failures.append(dict(info, **{"class": "run_space_start/end-not-exactly-once", "starts": len(starts), "ends": len(ends)}))
            else:
                summ = ends[0].get("summary", {})
                if summ.get("planned_runs") != len(sink_paths) or summ.get("completed_runs") != fail_at:
                    failures.append(dict(info, **{"class": "run_space_end-counts-wrong", "summary": summ}))
    if len(samples) < 3 and expect != "all":
        samples.append(info)


RS3 = ("run_space:\n  blocks:\n    - mode: by_position\n      context:\n        factor: [2.0, 3.0, 4.0]\n"
       "        path: [\"{dir}/r0.txt\", \"{dir}/r1.txt\", \"{dir}/r2.txt\"]\n")
RS3_NESTED = ("pipeline:\n  run_space:\n    blocks:\n      - mode: by_position\n        context:\n          factor: [2.0, 3.0, 4.0]\n"
              "          path: [\"{dir}/r0.txt\", \"{dir}/r1.txt\", \"{dir}/r2.txt\"]\n")
SHAPES = {
    "no-run_space": (HEAD + "pipeline:\n" + nodes(2), ["--context", "factor=2.0"], ["result.txt"]),
    "empty-run_space": (HEAD + "pipeline:\n" + nodes(2) + "run_space: {}\n", ["--context", "factor=2.0"], ["result.txt"]),
    "top-level-run_space": (HEAD + "pipeline:\n" + nodes(2, None) + RS3, [], ["r0.txt", "r1.txt", "r2.txt"]),
    "nested-run_space": (HEAD + RS3_NESTED + nodes(2, None), [], ["r0.txt", "r1.txt", "r2.txt"]),
}
for shape, (text, ctx, sinks) in SHAPES.items():
    # a run-space CLI flag writes a top-level run_space block, which takes precedence over one nested under `pipeline:`;
    # the nested declaration is then not seen and the CLI rejects the configuration (missing context keys, exit 3) without
    # executing anything.  C17 does not fix which of the two happens, so both outcomes are accepted for that shape.
    nested = shape == "nested-run_space"
    case(f"plain/{shape}", text, ctx, sinks, "all")
    case(f"--validate/{shape}", text, ctx + ["--validate"], sinks, "nothing", 0)
    case(f"--dry-run/{shape}", text, ctx + ["--dry-run"], sinks, "nothing", 0)
    case(f"--run-space-dry-run/{shape}", text, ctx + ["--run-space-dry-run"], sinks, "nothing", None if nested else 0)
    case(f"--run-space-dry-run+max-runs/{shape}", text, ctx + ["--run-space-dry-run", "--run-space-max-runs", "50"], sinks, "nothing", None if nested else 0)
    case(f"--validate+--run-space-dry-run/{shape}", text, ctx + ["--validate", "--run-space-dry-run"], sinks, "nothing", 0)
    if len(sinks) == 3:
        case(f"--run-space-max-runs-exceeded/{shape}", text, ctx + ["--run-space-max-runs", "2"], sinks, "nothing", 3)
        case(f"--run-space-max-runs-0/{shape}", text, ctx + ["--run-space-max-runs", "0"], sinks, "nothing", 3)
        case(f"--run-space-max-runs-1/{shape}", text, ctx + ["--run-space-max-runs", "1"], sinks, "nothing", 3)
        case(f"--run-space-max-runs-sufficient/{shape}", text, ctx + ["--run-space-max-runs", "3"], sinks, "all-or-rejected" if nested else "all")
    if "run_space:" in text and shape != "empty-run_space":
        dry = text.replace("run_space:\n", "run_space:\n" + (" " * (text.split("run_space:")[0].split("\n")[-1].count(" ") + 2)) + "dry_run: true\n", 1)
        case(f"yaml-dry_run/{shape}", dry, ctx, sinks, "nothing", 0)
        capped = text.replace("run_space:\n", "run_space:\n" + (" " * (text.split("run_space:")[0].split("\n")[-1].count(" ") + 2)) + "max_runs: 2\n", 1)
        case(f"yaml-max_runs-exceeded/{shape}", capped, ctx, sinks, "nothing", 3)
        case(f"yaml-max_runs-0/{shape}", capped.replace("max_runs: 2", "max_runs: 0"), ctx, sinks, "nothing", 3)

GOODP = HEAD + "pipeline:\n" + nodes(2)
INVALID = {
    "unknown-processor": (GOODP.replace("FloatMultiplyOperation", "NoSuchProcessorAnywhere"), ["--context", "factor=2.0"]),
    "unknown-parameter": (GOODP.replace("path: \"{out}\"", "path: \"{out}\"\n        bogus_parameter: 1"), ["--context", "factor=2.0"]),
    "missing-required-context-key": (GOODP, []),
    "required-key-read-before-the-node-that-creates-it": (HEAD + "pipeline:\n  nodes:\n    - processor: FloatValueDataSourceWithDefault\n    - processor: FloatMultiplyOperation\n"
                                                          "    - processor: FloatCollectValueProbe\n      context_key: factor\n    - processor: FloatTxtFileSaver\n      parameters:\n        path: \"{out}\"\n", []),
    "top-level-not-a-mapping": ("- 1\n- 2\n", []),
    "run_space-not-a-mapping": (GOODP + "run_space: 3\n", ["--context", "factor=2.0"]),
    "run_space-by_position-length-mismatch": (HEAD + "pipeline:\n" + nodes(2) + "run_space:\n  blocks:\n    - mode: by_position\n      context:\n        factor: [2.0, 3.0]\n        other: [1]\n", []),
    "run_space-unknown-mode": (HEAD + "pipeline:\n" + nodes(2) + "run_space:\n  blocks:\n    - mode: sideways\n      context:\n        factor: [2.0, 3.0]\n", []),
    # duplicate keys: within a block, across blocks (context / context, context / source column, after rename), missing column
    "run_space-duplicate-key-context+source-in-one-block": (HEAD + "pipeline:\n" + nodes(2) + "run_space:\n  blocks:\n    - mode: by_position\n      context:\n        factor: [2.0, 3.0]\n"
                                                            "      source:\n        format: csv\n        path: \"{dir}/src.csv\"\n        select: [factor]\n", []),
    "run_space-duplicate-key-across-blocks": (HEAD + "pipeline:\n" + nodes(2) + "run_space:\n  blocks:\n    - mode: by_position\n      context:\n        factor: [2.0, 3.0]\n"
                                              "    - mode: by_position\n      context:\n        factor: [4.0, 5.0]\n", []),
    "run_space-duplicate-key-later-block-source-column": (HEAD + "pipeline:\n" + nodes(2) + "run_space:\n  blocks:\n    - mode: by_position\n      context:\n        factor: [2.0, 3.0]\n"
                                                          "    - mode: by_position\n      source:\n        format: csv\n        path: \"{dir}/src.csv\"\n        select: [factor]\n", []),
    "run_space-duplicate-key-after-rename": (HEAD + "pipeline:\n" + nodes(2) + "run_space:\n  blocks:\n    - mode: by_position\n      context:\n        factor: [2.0, 3.0]\n"
                                             "    - mode: by_position\n      source:\n        format: csv\n        path: \"{dir}/src.csv\"\n        select: [extra]\n        rename: {extra: factor}\n", []),
    "run_space-source-missing-column": (HEAD + "pipeline:\n" + nodes(2) + "run_space:\n  blocks:\n    - mode: by_position\n      source:\n        format: csv\n        path: \"{dir}/src.csv\"\n        select: [factor, nope]\n", []),
    "unknown-trace-driver": (GOODP, ["--context", "factor=2.0", "--trace.driver", "no_such_driver_anywhere"]),
    "unknown-orchestrator": (GOODP, ["--context", "factor=2.0", "--execution.orchestrator", "NoSuchOrchestratorAnywhere"]),
    "type-incompatible-nodes": (HEAD + "pipeline:\n  nodes:\n    - processor: FloatValueDataSourceWithDefault\n    - processor: FloatCollectionSumOperation\n    - processor: FloatTxtFileSaver\n      parameters:\n        path: \"{out}\"\n", []),
    "bad-context-argument": (GOODP, ["--context", "factor"]),
}
for name, (text, extra) in INVALID.items():
    for more in ([[]] if not thorough else [[], ["--run-space-max-runs", "5"]]):
        case(f"invalid:{name}/" + ("+".join(more) or "plain"), text, extra + more, ["result.txt"], "nothing", None if name == "type-incompatible-nodes" else 3)

# a failing run k of n: the sink path of run k points into a directory that does not exist
for n in ((1, 2, 3, 4) if thorough else (1, 2, 3)):
    for k in range(n):
        paths = [f"\"{{dir}}/r{i}.txt\"" if i != k else "\"{dir}/missing_dir/x.txt\"" for i in range(n)]
        text = (HEAD + "pipeline:\n" + nodes(2, None) + "run_space:\n  blocks:\n    - mode: by_position\n      context:\n"
                f"        factor: [{', '.join(str(float(i + 2)) for i in range(n))}]\n        path: [{', '.join(paths)}]\n")
        sinks = [f"r{i}.txt" if i != k else "missing_dir/x.txt" for i in range(n)]
        case(f"failing-run/{k}-of-{n}", text, [], sinks, "upto", fail_at=k)
        if k == n - 1 or thorough:
            case(f"failing-run/{k}-of-{n}/--verbose", text, ["--verbose"], sinks, "upto", fail_at=k)

import shutil
shutil.rmtree(root, ignore_errors=True)
print(json.dumps({"bound": "run_space block placement {absent, empty, top-level, nested} x flags {none, --validate, --dry-run, --run-space-dry-run, +max-runs, yaml dry_run, cap exceeded (incl. caps 0 and 1) / sufficient} + 17 invalid configurations (incl. duplicate run-space keys within / across blocks / from a source column / after rename, missing source column) + failing run k of n (n <= 3 quick, 4 thorough)",
                  "evaluations": evaluations, "distinct_nontrivial": len(distinct),
                  "rule": "distinct = case name; execution observed through sink files and JSONL trace records written by the real CLI",
                  "failures": failures[:40], "samples": samples}, default=str))
