"""Bounded stand-in for C02 (labelled bounded): inspect -> validate -> run over generated pipelines.
Run-time contract: if inspection+validation report no error and the initial context holds exactly the reported required
keys, the run does not fail on flow (unresolvable parameter / missing key / unknown parameter / data-type gate), and the
per-node created/suppressed keys are exactly the keys that appear/disappear.
Bound: pipelines of length <= 3 exhaustively (<= 2) or sampled (3, 4) over 19 node configurations (length 3 exhaustive over the 11 flow-relevant ones) + 7 fixed pipelines around parameter sweeps whose <var>_values are consumed downstream."""
import json, sys, logging, os
logging.disable(logging.CRITICAL)
sys.path.insert(0, os.path.dirname(os.path.abspath(__file__)))
import pipegen
from semantiva.pipeline import Pipeline
from semantiva.pipeline.payload import Payload
from semantiva.context_processors.context_types import ContextType
from semantiva.data_types import NoDataType
from semantiva.inspection import build_pipeline_inspection, validate_pipeline
from semantiva.exceptions import PipelineConfigurationError
from semantiva.exceptions.pipeline_exceptions import InvalidNodeParameterError

req = json.load(sys.stdin)
thorough = req.get("tier") == "thorough"
seed = req.get("seed", 0)
failures, evaluations, distinct, samples = [], 0, set(), []


from semantiva.examples.test_utils import FloatDataType, FloatDataCollection


def initial_data(insp):
    """initial payload data of the type the first data-typed node expects (the property quantifies over contexts)"""
    for n in insp.nodes:
        t = n.input_type
        if t is None:
            continue
        if t is FloatDataType:
            return FloatDataType(1.5)
        if t is FloatDataCollection:
            return FloatDataCollection.from_list([FloatDataType(1.0), FloatDataType(2.0)])
        return NoDataType()
    return NoDataType()


def run(cfg, ctx, data=None):
    p = Pipeline(cfg)
    out = p.process(Payload(data if data is not None else NoDataType(), ContextType(dict(ctx))))
    return out


NP = len(pipegen.node_pool())
cases = pipegen.extra_pipelines() + pipegen.pipelines(2, seed) + pipegen.core_pipelines(3)
cases += pipegen.pipelines(3, seed, sample=(6000 if thorough else 600))[NP + NP * NP:]
cases += pipegen.pipelines(4, seed + 1, sample=(3000 if thorough else 300))[NP + NP * NP + (6000 if thorough else 600):]
if thorough:
    cases += pipegen.core_pipelines(4)[:: 3]


def check_case(arg):
    idx, labels, cfg = arg
    fails, sample, accepted = [], None, False
    try:
        insp = build_pipeline_inspection(cfg)
    except Exception as e:
        return [{"class": "inspection-raised", "pipeline": labels, "exc": repr(e)}], None, False
    try:
        validate_pipeline(insp)
    except PipelineConfigurationError:
        return [], None, False
    accepted = True
    required = sorted(insp.required_context_keys)
    # two value regimes: ordinary values, and falsy values (0.0) for every supplied key and for the initial data
    falsy = (idx % 2 == 0)
    ctx = {k: (0.0 if falsy else 2.0) for k in required}
    try:
        data0 = initial_data(insp)
        if falsy and isinstance(data0, FloatDataType):
            data0 = FloatDataType(0.0)
        out = run(cfg, ctx, data0)
    except (KeyError, TypeError, InvalidNodeParameterError, PipelineConfigurationError) as e:
        if isinstance(e, TypeError) and "Incompatible data type for Node" not in str(e):
            return [], None, True   # a TypeError raised by processor arithmetic is a processor error, not the data-type gate
        kind = "use-before-create" if isinstance(e, KeyError) else "type-gate-after-untyped-node" if isinstance(e, TypeError) else "unknown-parameter"
        return [{"class": f"accepted-config-fails-on-flow:{kind}", "pipeline": labels, "required_reported": required,
                 "falsy_values": falsy, "exc": repr(e)[:200]}], None, True
    except Exception:
        return [], None, True   # processor-level errors (e.g. assertions on values) are outside the property
    prev = dict(ctx)
    for i in range(1, len(cfg) + 1):
        try:
            o = run(cfg[:i], ctx, data0)
        except Exception:
            break
        cur = o.context.to_dict()
        appear, vanish = set(cur) - set(prev), set(prev) - set(cur)
        ni = insp.nodes[i - 1]
        if not appear <= set(ni.created_keys) or not vanish <= set(ni.suppressed_keys) or (set(ni.suppressed_keys) & set(prev)) - vanish - set(ni.created_keys):
            fails.append({"class": "reported-created/suppressed-keys-differ-from-the-run", "pipeline": labels, "node": i, "falsy_values": falsy,
                          "appear": sorted(appear), "vanish": sorted(vanish), "reported_created": sorted(ni.created_keys), "reported_suppressed": sorted(ni.suppressed_keys)})
        prev = cur
    if len(labels) == 3 and required:
        sample = {"pipeline": labels, "required": required, "final_context_keys": sorted(prev)}
    return fails, sample, True


import multiprocessing as mp
with mp.get_context("fork").Pool(14) as pool:
    results = pool.map(check_case, [(i, l, c) for i, (l, c) in enumerate(cases)], chunksize=40)
for (l, c), (fails, sample, accepted) in zip(cases, results):
    evaluations += 1
    failures += fails
    if accepted:
        distinct.add(tuple(l))
    if sample and len(samples) < 3:
        samples.append(sample)


def reported_origin_is_the_channel_used():
    """what inspection reports about a parameter (value from the node configuration / the signature default, or the context key and
    the node that creates it) is what the processor receives at run time - for a plain node and for a node wrapped by a sweep"""
    global evaluations
    from semantiva.examples.test_utils import FloatOperation, FloatValueDataSource, FloatCollectValueProbe
    seen = []

    class RecordingAffine(FloatOperation):
        """gain * x + offset; records the parameters it is called with"""

        def _process_logic(self, data, gain: float, offset: float = 100.0):
            seen.append({"gain": gain, "offset": offset})
            return FloatDataType(gain * data.data + offset)

    src = {"processor": FloatValueDataSource, "parameters": {"value": 3.0}}
    for shape in ("plain", "sweep"):
        # (a defaulted parameter whose key happens to be in the INITIAL context is not knowable from the configuration: not a case)
        for supply in ("configuration", "upstream-probe", "default"):
            evaluations += 1
            distinct.add(("reported-origin", shape, supply))
            node = {"processor": RecordingAffine, "parameters": {}}
            if shape == "plain":
                node["parameters"]["gain"] = 2.0
            else:
                node["derive"] = {"parameter_sweep": {"parameters": {"gain": "g"}, "variables": {"g": {"values": [1.0, 2.0]}}, "collection": "FloatDataCollection"}}
            if supply == "configuration":
                node["parameters"]["offset"] = 5.0
            nodes = [src] + ([{"processor": FloatCollectValueProbe, "context_key": "offset"}] if supply == "upstream-probe" else []) + [node]
            ctx = {"offset": 7.0} if supply == "initial-context" else {}
            case = {"shape": shape, "supplied_by": supply}
            try:
                insp = build_pipeline_inspection(nodes)
                ni = insp.nodes[-1]
                if "offset" in getattr(ni, "config_params", {}):
                    claimed = ("configuration-or-default", ni.config_params["offset"])
                elif "offset" in getattr(ni, "context_params", {}):
                    claimed = ("context", 7.0 if supply == "initial-context" else 3.0)
                else:
                    claimed = None
                del seen[:]
                Pipeline(nodes).process(Payload(NoDataType(), ContextType(dict(ctx))))
            except Exception as e:       # noqa
                failures.append(dict(case, **{"class": "reported-origin-case-raised", "exc": repr(e)[:200]}))
                continue
            if claimed is None:
                failures.append(dict(case, **{"class": "inspection-reports-no-origin-for-a-declared-parameter"}))
            elif not seen or any(r["offset"] != claimed[1] for r in seen):
                failures.append(dict(case, **{"class": "reported-origin-is-not-the-channel-used", "inspection_says": list(claimed), "processor_received": seen[:3]}))


reported_origin_is_the_channel_used()
print(json.dumps({"bound": "reported origin vs received value: {plain, swept} node x parameter supplied by {configuration, upstream probe, default}; pipelines of length 1..2 exhaustive, length 3 exhaustive over the 11 flow-relevant node configurations, 3..4 seeded samples over all 19 (sources, float ops with/without defaults, probes, rename/delete incl. self-rename, a collection op, an unknown parameter); ordinary and falsy (0.0) values",
                  "evaluations": evaluations, "distinct_nontrivial": len(distinct),
                  "rule": "non-trivial = configuration accepted by inspection+validation (then executed with exactly the reported required keys); distinct = distinct node-label sequences",
                  "failures": failures[:30], "samples": samples}, default=str))
