"""Bounded stand-in for C06 (labelled bounded): real traced runs, every failure point and kind, schema validation.
Run-time contract: the JSONL stream is pipeline_start, one SER per started node in canonical order, exactly one pipeline_end;
each line validates against the schema its record_type maps to; ids shared; upstream lists = canonical edges; all SERs
succeeded except a final failing one; pipeline_end ok iff the run returned; the original exception reaches the caller; the file
is closed afterwards.
Bound: base pipelines of 1..4 nodes x failing node index x failure kinds {processor exception (plain, wrapping another exception, with a set argument), unresolvable parameter, type gate,
undeclared context write, node construction error (unknown parameter, probe without context key), KeyboardInterrupt, SystemExit, GeneratorExit} x detail
levels {hash, repr, context, all} x file / directory output."""
import json, sys, os, tempfile, logging, itertools, glob
logging.disable(logging.CRITICAL)
from pathlib import Path
import jsonschema
from semantiva.pipeline import Pipeline
from semantiva.pipeline.payload import Payload
from semantiva.context_processors.context_types import ContextType
from semantiva.data_types import NoDataType
from semantiva.trace.drivers.jsonl import JsonlTraceDriver
from semantiva.examples.test_utils import (FloatDataType, FloatOperation, FloatValueDataSourceWithDefault, FloatMultiplyOperation,
                                           FloatCollectValueProbe, FloatSquareOperation, FloatCollectionSumOperation)
import semantiva.trace.schema as schema_pkg

req = json.load(sys.stdin)
thorough = req.get("tier") == "thorough"
SCHEMA_DIR = Path(schema_pkg.__file__).parent
registry = json.loads((SCHEMA_DIR / "trace_registry_v1.json").read_text())
store = {}
for f in SCHEMA_DIR.glob("*.schema.json"):
    sch = json.loads(f.read_text())
    store[sch.get("$id", f.name)] = sch
validators = {}
for rt, sid in registry["records"].items():
    resolver = jsonschema.RefResolver(base_uri=sid, referrer=store[sid], store=store)
    validators[rt] = jsonschema.Draft202012Validator(store[sid], resolver=resolver)


class Boom(FloatOperation):
    def _process_logic(self, data):
        raise ValueError("boom")


class BoomWrapped(FloatOperation):
    def _process_logic(self, data):
        raise RuntimeError(ValueError("inner"))


class BoomSetArg(FloatOperation):
    def _process_logic(self, data):
        raise ValueError({"low", "high"})


class Interrupt(FloatOperation):
    def _process_logic(self, data):
        raise KeyboardInterrupt()


class ExitsProcess(FloatOperation):
    def _process_logic(self, data):
        raise SystemExit(3)


class GeneratorClosed(FloatOperation):
    def _process_logic(self, data):
        raise GeneratorExit()


class BadWriter(FloatOperation):
    def _process_logic(self, data):
        self._notify_context_update("not_declared", 1)
        return data


class Clip(FloatOperation):
    """min(data, upper) with an unbounded default"""

    def _process_logic(self, data, upper: float = float("inf"), lower: float = float("-inf")):
        return FloatDataType(max(min(data.data, upper), lower))


class ClipBoom(FloatOperation):
    def _process_logic(self, data, upper: float = float("inf")):
        raise ValueError("boom after resolving a non-finite parameter")


GOOD = [{"processor": FloatValueDataSourceWithDefault}, {"processor": FloatSquareOperation},
        {"processor": FloatCollectValueProbe, "context_key": "seen"}, {"processor": FloatMultiplyOperation, "parameters": {"factor": 2.0}}]
FAILS = {
    "processor-exception": {"processor": Boom},
    "processor-exception:wrapping-an-exception": {"processor": BoomWrapped},
    "processor-exception:set-argument": {"processor": BoomSetArg},
    "unresolvable-parameter": {"processor": FloatMultiplyOperation},
    "type-gate": {"processor": FloatCollectionSumOperation},
    "undeclared-context-write": {"processor": BadWriter},
    "construction:unknown-parameter": {"processor": FloatMultiplyOperation, "parameters": {"factor": 2.0, "bogus": 1}},
    "construction:probe-without-context-key": {"processor": FloatCollectValueProbe},
    "abort:KeyboardInterrupt": {"processor": Interrupt},
    "abort:SystemExit": {"processor": ExitsProcess},
    "abort:GeneratorExit": {"processor": GeneratorClosed},
}
failures, evaluations, distinct, samples = [], 0, set(), []
tmp = Path(tempfile.mkdtemp())


from semantiva.execution.transport.in_memory import InMemorySemantivaTransport


class FailingPublish(InMemorySemantivaTransport):
    """in-memory transport whose publish for the n-th node output raises"""

    def __init__(self, fail_at):
        super().__init__()
        self.fail_at, self.count = fail_at, 0

    def publish(self, *a, **kw):
        self.count += 1
        if self.count - 1 == self.fail_at:
            raise ConnectionError("transport down")
        return super().publish(*a, **kw)


def check(nodes, fail_at, kind, detail, as_dir):
    global evaluations
    evaluations += 1
    # directory output: an existing directory, every second one with a dot in its name (traces.v1); file output: a .jsonl path
    out = tmp / (f"t{evaluations}.v1" if evaluations % 2 else f"t{evaluations}") if as_dir else tmp / f"t{evaluations}.jsonl"
    if as_dir:
        out.mkdir()
    driver = JsonlTraceDriver(str(out), detail=detail)
    raised = None
    try:
        if kind == "publication-failure":
            p = Pipeline(nodes, trace=driver, transport=FailingPublish(fail_at))
        else:
            p = Pipeline(nodes, trace=driver)
        p.process(Payload(NoDataType(), ContextType({})))
    except BaseException as e:      # noqa - the harness must see aborts too
        raised = e
    case = {"kind": kind, "fail_at": fail_at, "n": len(nodes), "detail": detail, "dir": as_dir}
    files = sorted(out.glob("*.jsonl")) if as_dir else [out]
    files = [f for f in files if f.exists()]
    if kind is not None and raised is None:
        failures.append(dict(case, **{"class": "failure-did-not-propagate"}))
        return
    if kind is None and raised is not None:
        failures.append(dict(case, **{"class": "unexpected-exception", "exc": repr(raised)}))
        return
    if getattr(driver, "_file", None) is not None and not driver._file.closed:
        failures.append(dict(case, **{"class": "trace-file-left-open:" + ("construction" if (kind or "").startswith("construction") else "abort" if (kind or "").startswith("abort") else "other")}))
    recs = []
    for f in files:
        for line in f.read_text().splitlines():
            if line.strip():
                recs.append(json.loads(line))
    run_recs = [r for r in recs if r.get("record_type") in ("pipeline_start", "ser", "pipeline_end")]
    if not run_recs:
        if kind is not None and kind.startswith("construction") and False:
            return
        failures.append(dict(case, **{"class": "no-trace-written"}))
        return
    for r in run_recs:
        errs = list(validators[r["record_type"]].iter_errors(r))
        if errs:
            failures.append(dict(case, **{"class": "schema-violation:" + r["record_type"], "error": errs[0].message[:200]}))
            break
    types = [r["record_type"] for r in run_recs]
    sers = [r for r in run_recs if r["record_type"] == "ser"]
    cls_suffix = "construction" if (kind or "").startswith("construction") else "abort" if (kind or "").startswith("abort") else "ordinary"
    if types[0] != "pipeline_start" or types.count("pipeline_start") != 1:
        failures.append(dict(case, **{"class": "stream-does-not-start-with-one-pipeline_start"}))
        return
    if types[-1] != "pipeline_end" or types.count("pipeline_end") != 1:
        failures.append(dict(case, **{"class": f"missing-or-misplaced-pipeline_end:{cls_suffix}", "types": types}))
        return
    start, end = run_recs[0], run_recs[-1]
    canon = [n["node_uuid"] for n in start["pipeline_spec_canonical"]["nodes"]]
    edges = {n: [] for n in canon}
    for e in start["pipeline_spec_canonical"].get("edges", []):
        edges[e["target"]].append(e["source"])
    expected_sers = len(nodes) if kind is None else (0 if kind.startswith("construction") else fail_at + 1)
    if [s["identity"]["node_id"] for s in sers] != canon[:expected_sers]:
        failures.append(dict(case, **{"class": f"SERs-not-one-per-started-node-in-canonical-order:{cls_suffix}", "got": len(sers), "want": expected_sers}))
    for s in sers:
        if s["identity"]["run_id"] != start["run_id"] or s["identity"]["pipeline_id"] != start["pipeline_id"]:
            failures.append(dict(case, **{"class": "ids-not-shared"}))
        if s["dependencies"]["upstream"] != edges.get(s["identity"]["node_id"], []):
            failures.append(dict(case, **{"class": "upstream-differs-from-canonical-edges"}))
    statuses = [s["status"] for s in sers]
    want_status = ["succeeded"] * len(sers)
    if kind is not None and not kind.startswith("construction") and kind != "publication-failure" and sers:
        want_status[-1] = "error"
    if statuses != want_status:
        failures.append(dict(case, **{"class": f"SER-statuses:{cls_suffix}", "got": statuses, "want": want_status}))
    if (end["summary"]["status"] == "ok") != (raised is None):
        failures.append(dict(case, **{"class": "pipeline_end-status-disagrees-with-outcome"}))
    if end["run_id"] != start["run_id"]:
        failures.append(dict(case, **{"class": "ids-not-shared"}))
    distinct.add((kind, fail_at, len(nodes)))
    if len(samples) < 2 and kind is not None:
        samples.append(dict(case, record_types=types, statuses=statuses))


details = ["hash", "repr", "context", "all"]
# the transport fails while publishing the output of node k (after the node ran): one SER per node that started, no more
for n in (1, 2, 4):
    for k in range(n):
        check([dict(x) for x in GOOD[:n]], k, "publication-failure", details[(n + k) % 4], (n + k) % 2 == 0)
# parameter values that are floats without a finite value (defaults, configuration, context): the run returns and is traced in full
SRC = {"processor": FloatValueDataSourceWithDefault}
for label, nodes, fails in (("non-finite-default", [SRC, {"processor": Clip}], False),
                            ("non-finite-configuration", [SRC, {"processor": Clip, "parameters": {"upper": float("nan"), "lower": float("-inf")}}, {"processor": FloatSquareOperation}], False),
                            ("non-finite-default-then-processor-exception", [SRC, {"processor": ClipBoom}], True)):
    for d in details:
        check([dict(x) for x in nodes], 1 if fails else None, "processor-exception:non-finite-parameter" if fails else None, d, d == "repr")
for n in (1, 2, 3, 4):
    nodes = GOOD[:n]
    for d in (details if thorough else details[: 2 if n < 4 else 4]):
        check(list(nodes), None, None, d, False)
    check(list(nodes), None, None, "all", True)
    for kind, bad in FAILS.items():
        for fail_at in range(1, n + 1):
            m = list(nodes[:fail_at]) + [dict(bad)] + list(nodes[fail_at:n - 1]) if fail_at < n else list(nodes) + [dict(bad)]
            for d in (details if thorough else [details[(fail_at + n) % 4]]):
                check(m, fail_at, kind, d, (fail_at + n) % 3 == 0)
print(json.dumps({"bound": "pipelines of 1..4 nodes x failing node at every index >= 1 x 11 failure kinds x detail levels {hash,repr,context,all} x file/directory output (existing directories with and without a dot in their name); publication of a node's output failing at every index of pipelines of 1, 2, 4 nodes; 3 pipelines whose resolved parameters are non-finite floats (default, configuration, before a processor exception) x 4 detail levels",
                  "evaluations": evaluations, "distinct_nontrivial": len(distinct),
                  "rule": "distinct = (failure kind, failing index, length); every emitted line validated with jsonschema against the registry schema of its record_type",
                  "failures": failures[:40], "samples": samples}, default=str))
