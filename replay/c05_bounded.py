"""Bounded stand-in for C05 (labelled bounded): identities discriminate.
Run-time contract: every single-point semantic mutation of a base configuration (processor of a node, a parameter value at any
depth, number / order of nodes, and each part of a sweep definition: wrapped processor, non-equivalent expression, variable
domain, mode, broadcast, collection) changes semantic_id AND config_id (inspection path), and the uuid or node semantic id of
the affected node; node uuids within one pipeline are pairwise distinct.
Bound: 5 base configurations x the mutation operators below at every applicable position."""
import json, sys, os, copy
sys.path.insert(0, os.path.dirname(os.path.abspath(__file__)))
import idlib

req = json.load(sys.stdin)
failures, evaluations, distinct, samples = [], 0, set(), []


PAIRS = []      # (label, configuration A, configuration B differing in one element, affected node)


def mutations(nodes):
    out = []
    for i, n in enumerate(nodes):
        ps = (n.get("derive") or {}).get("parameter_sweep")
        if ps is None:
            if n["processor"] == "FloatMultiplyOperation":
                m = copy.deepcopy(nodes); m[i]["processor"] = "FloatAddOperation"; m[i]["parameters"] = {"addend": 2.0}
                out.append((f"node{i}:processor", m, i))
            if n["processor"] == "FloatSquareOperation":
                m = copy.deepcopy(nodes); m[i]["processor"] = "FloatSqrtOperation"
                out.append((f"node{i}:processor", m, i))
            for k, v in (n.get("parameters") or {}).items():
                m = copy.deepcopy(nodes); m[i]["parameters"][k] = v + 1.0 if isinstance(v, float) else str(v) + "x"
                out.append((f"node{i}:param:{k}", m, i))
            # string-defined processors: every argument inside the processor string is identity-bearing
            proc = n["processor"]
            if isinstance(proc, str) and ":" in proc:
                head, *args = proc.split(":")
                STRING_MUTS = {"slice": [("wrapped-processor", 0, {"FloatMultiplyOperation": "FloatMultiplyOperationWithDefault", "FloatCollectValueProbe": "FloatBasicProbe"})],
                               "rename": [("source-key", 0, None), ("destination-key", 1, None)], "delete": [("key", 0, None)],
                               "template": [("text", 0, None), ("output-key", 1, None)]}
                for tag, pos, table in STRING_MUTS.get(head, []):
                    if pos >= len(args):
                        continue
                    new = list(args)
                    if table is not None:
                        if args[pos] not in table:
                            continue
                        new[pos] = table[args[pos]]
                    elif head == "template" and pos == 0:
                        new[pos] = args[pos][:-1] + "!" + args[pos][-1]          # one more character inside the quoted text
                    else:
                        new[pos] = args[pos] + "2"
                    m = copy.deepcopy(nodes); m[i]["processor"] = ":".join([head] + new)
                    out.append((f"node{i}:string-processor:{head}:{tag}", m, i))
        else:
            m = copy.deepcopy(nodes)
            swap = {"FloatValueDataSource": "FloatValueDataSourceWithDefault", "FloatMultiplyOperation": "FloatMultiplyOperationWithDefault"}
            if n["processor"] in swap:
                m[i]["processor"] = swap[n["processor"]]
                out.append((f"node{i}:sweep:wrapped-processor", m, i))
            for k, e in ps["parameters"].items():
                for tag, e2 in (("const", e.replace("2.0", "2.5").replace("1.0", "1.5")), ("noncomm", e.replace("+", "-", 1)), ("op", e.replace("*", "+", 1)), ("op2", e.replace("+", "*", 1)), ("var", None)):
                    if e2 is None or e2 == e:
                        continue
                    m = copy.deepcopy(nodes); m[i]["derive"]["parameter_sweep"]["parameters"][k] = e2
                    out.append((f"node{i}:sweep:expr:{tag}", m, i))
            for vname, dom in ps["variables"].items():
                m = copy.deepcopy(nodes)
                d = m[i]["derive"]["parameter_sweep"]["variables"]
                if isinstance(dom, list):
                    d[vname] = dom + [9.0]
                    # long explicit sequences: every single element is identity-bearing (first, interior, last)
                    long_seq = [float(q) for q in range(1, 10)]
                    for pos in range(len(long_seq)):
                        m2, m3 = copy.deepcopy(nodes), copy.deepcopy(nodes)
                        m2[i]["derive"]["parameter_sweep"]["variables"][vname] = list(long_seq)
                        changed = list(long_seq); changed[pos] += 0.5
                        m3[i]["derive"]["parameter_sweep"]["variables"][vname] = changed
                        PAIRS.append((f"node{i}:sweep:domain:{vname}:element{pos}-of-9", m2, m3, i))
                elif "from_context" in dom:
                    d[vname] = {"from_context": dom["from_context"] + "_other"}
                else:
                    d[vname] = dict(dom, steps=dom["steps"] + 1)
                out.append((f"node{i}:sweep:domain:{vname}", m, i))
                if isinstance(dom, dict) and "lo" in dom:
                    m = copy.deepcopy(nodes); m[i]["derive"]["parameter_sweep"]["variables"][vname] = dict(dom, hi=dom["hi"] + 1.0)
                    out.append((f"node{i}:sweep:domain-hi:{vname}", m, i))
            m = copy.deepcopy(nodes)
            cur = ps.get("mode", "combinatorial")
            m[i]["derive"]["parameter_sweep"]["mode"] = "by_position" if cur == "combinatorial" else "combinatorial"
            if cur == "combinatorial":
                m[i]["derive"]["parameter_sweep"]["broadcast"] = True
            out.append((f"node{i}:sweep:mode", m, i))
            if cur == "by_position":
                m = copy.deepcopy(nodes); m[i]["derive"]["parameter_sweep"]["broadcast"] = not ps.get("broadcast", False)
                out.append((f"node{i}:sweep:broadcast", m, i))
    if len(nodes) > 1:
        out.append(("drop-last-node", copy.deepcopy(nodes[:-1]), None))
        out.append(("duplicate-last-node", copy.deepcopy(nodes + [nodes[-1]]), None))
        if nodes[-1] != nodes[-2]:
            m = copy.deepcopy(nodes); m[-1], m[-2] = m[-2], m[-1]
            out.append(("swap-last-two-nodes", m, None))
    return out


for name, nodes, ctx in idlib.base_configs():
    try:
        ref = idlib.ids_inspection(idlib.to_yaml(nodes, "block"))
    except Exception as e:
        failures.append({"class": "base-config-rejected", "config": name, "exc": repr(e)})
        continue
    if len(set(ref["node_uuids"])) != len(ref["node_uuids"]):
        failures.append({"class": "node-uuids-not-distinct", "config": name, "uuids": ref["node_uuids"]})
    for mname, mnodes, pos in mutations(nodes):
        evaluations += 1
        distinct.add((name, mname))
        try:
            got = idlib.ids_inspection(idlib.to_yaml(mnodes, "block"))
        except Exception as e:
            continue      # the mutated configuration is invalid: nothing to compare
        kind = mname.split(":", 1)[1] if ":" in mname else mname
        if got["semantic_id"] == ref["semantic_id"]:
            failures.append({"class": "semantic_id-unchanged-by:" + ("sweep-definition" if "sweep" in kind else kind.split(":")[0]), "config": name, "mutation": mname})
        if got["config_id"] == ref["config_id"]:
            failures.append({"class": "config_id-unchanged-by:" + ("sweep-definition" if "sweep" in kind else kind.split(":")[0]), "config": name, "mutation": mname})
        if pos is not None and pos < len(got["node_uuids"]):
            if got["node_uuids"][pos] == ref["node_uuids"][pos] and got["node_semantic_ids"][pos] == ref["node_semantic_ids"][pos]:
                failures.append({"class": "affected-node-identity-unchanged", "config": name, "mutation": mname})
        if len(set(got["node_uuids"])) != len(got["node_uuids"]):
            failures.append({"class": "node-uuids-not-distinct", "config": name, "mutation": mname})
        if len(samples) < 3 and "sweep" in mname:
            samples.append({"config": name, "mutation": mname, "semantic_id_changed": got["semantic_id"] != ref["semantic_id"], "config_id_changed": got["config_id"] != ref["config_id"]})
    # pairs of long explicit sequences differing in exactly one element
    for plabel, cfg_a, cfg_b, pos in PAIRS:
        evaluations += 1
        distinct.add((name, plabel))
        try:
            a_ids, b_ids = idlib.ids_inspection(idlib.to_yaml(cfg_a, "block")), idlib.ids_inspection(idlib.to_yaml(cfg_b, "block"))
        except Exception:
            continue
        for key in ("semantic_id", "config_id"):
            if a_ids[key] == b_ids[key]:
                failures.append({"class": f"{key}-unchanged-by:sweep-sequence-element", "config": name, "mutation": plabel})
    PAIRS.clear()


def same_name_other_module():
    """two processors with the same class name defined in different modules are different processors: plain or wrapped by a sweep /
    a slicer, swapping one for the other changes every identity"""
    global evaluations
    import types
    from semantiva.examples.test_utils import FloatOperation, FloatDataType
    from semantiva.inspection.builder import build_inspection_payload
    mods = {}
    for modname, expr in (("c05_ext_a.ops", "data.data * factor"), ("c05_ext_b.ops", "data.data + factor")):
        parent = modname.split(".")[0]
        sys.modules.setdefault(parent, types.ModuleType(parent))
        m = types.ModuleType(modname)
        m.__dict__.update(FloatOperation=FloatOperation, FloatDataType=FloatDataType)
        sys.modules[modname] = m
        exec(compile(f"class GainOperation(FloatOperation):\n    \"\"\"Apply a gain.\"\"\"\n\n    def _process_logic(self, data, factor: float):\n        return FloatDataType({expr})\n", f"<{modname}>", "exec"), m.__dict__)
        mods[modname] = m.GainOperation
    a, b = mods["c05_ext_a.ops"], mods["c05_ext_b.ops"]
    shapes = {
        "plain": lambda c: [{"processor": "FloatValueDataSource", "parameters": {"value": 2.0}}, {"processor": c, "parameters": {"factor": 3.0}}],
        "sweep": lambda c: [{"processor": "FloatValueDataSource", "parameters": {"value": 2.0}},
                            {"processor": c, "derive": {"parameter_sweep": {"parameters": {"factor": "2 * t"}, "variables": {"t": [1.0, 2.0]}, "collection": "FloatDataCollection"}}}],
    }
    for shape, mk in shapes.items():
        evaluations += 1
        distinct.add(("same-name-other-module", shape))
        try:
            pa, pb = build_inspection_payload(mk(a)), build_inspection_payload(mk(b))
        except Exception as e:       # noqa
            failures.append({"class": "same-name-other-module-case-raised", "shape": shape, "exc": repr(e)[:200]})
            continue
        for key in ("semantic_id", "config_id"):
            if pa["identity"][key] == pb["identity"][key]:
                failures.append({"class": f"{key}-unchanged-by:wrapped-processor-of-the-same-name-from-another-module", "shape": shape})
        na, nb = pa["pipeline_spec_canonical"]["nodes"][1], pb["pipeline_spec_canonical"]["nodes"][1]
        if na["uuid"] == nb["uuid"] and na["node_semantic_id"] == nb["node_semantic_id"]:
            failures.append({"class": "affected-node-identity-unchanged", "config": "same-name-other-module", "mutation": shape})


same_name_other_module()
print(json.dumps({"bound": "7 base configurations x single-point mutations (+ a processor swapped for one of the same class name from another module, plain and under a sweep; string-defined processors: slice wrapped processor, rename/delete keys, template text and output key); (incl. every single element of a 9-value explicit sweep sequence) (processor, parameter value, context key, node count/order, sweep: wrapped processor, expression constant / non-commutative operator, variable domain, mode, broadcast) at every applicable position",
                  "evaluations": evaluations, "distinct_nontrivial": len(distinct),
                  "rule": "distinct = (configuration, mutation); each mutation changes the documented meaning, so semantic_id and config_id must change",
                  "failures": failures[:40], "samples": samples}, default=str))
