"""Bounded stand-in for C14 (labelled bounded): systematic exploration of thread interleavings of the real in-memory transport.
A controller thread serialises 2-3 worker threads at line granularity of semantiva/execution/transport/in_memory.py (sys.settrace
line events, including the defaultdict factory lambda) and enumerates schedules depth-first with a preemption bound.
Run-time contract per schedule: every published message is delivered exactly once (received by the subscriber or still queued
and found by a final single-threaded drain) - never lost, never duplicated; messages of one publisher on one channel arrive in
publication order; the subscription only yields channels matching its pattern.
Bound: 7 scenarios (2 publishers on one not-yet-existing channel / existing channel / exact-name subscriber / matching + non-matching channel /
2 publishers + wildcard over two channels, 1 subscriber draining twice; 2 subscribers with overlapping patterns on a pre-filled channel, with and
without a publisher), preemption bound 2 (thorough 3), at most 600 (thorough
6000) schedules per scenario, fewest preemptions first."""
import json, sys, threading, time, logging
logging.disable(logging.CRITICAL)
from semantiva.execution.transport.in_memory import InMemorySemantivaTransport
from semantiva.context_processors.context_types import ContextType

req = json.load(sys.stdin) if not sys.stdin.isatty() else {}
thorough = req.get("tier") == "thorough"
TARGET = "in_memory.py"
failures, evaluations, distinct, samples = [], 0, set(), []


class Controller:
    """runs `fns` as threads; only the thread whose turn it is advances, one traced line at a time"""

    def __init__(self, fns, prefix):
        self.fns, self.prefix = fns, list(prefix)
        self.n = len(fns)
        self.cond = threading.Condition()
        self.state = ["new"] * self.n          # new | waiting | running | done
        self.turn = None
        self.free = False                      # set at the end: every thread runs on unscheduled
        self.trail = []                        # (choice, alternatives, last choice still waiting?) per decision with >= 2 candidates
        self.errors = []

    def _tracer(self, i):
        def local(frame, event, arg):
            if event == "line":
                self._pause(i)
            return local

        def glob(frame, event, arg):
            if event == "call" and frame.f_code.co_filename.endswith(TARGET):
                self._pause(i)
                return local
            return None
        return glob

    def _pause(self, i):
        with self.cond:
            if self.free:
                return
            self.state[i] = "waiting"
            self.cond.notify_all()
            while self.turn != i and not self.free:
                self.cond.wait()
            if self.turn == i:
                self.turn = None
            self.state[i] = "running"

    def _run(self, i):
        sys.settrace(self._tracer(i))
        try:
            self.fns[i]()
        except BaseException as e:      # noqa
            self.errors.append((i, repr(e)))
        finally:
            sys.settrace(None)
            with self.cond:
                self.state[i] = "done"
                self.cond.notify_all()

    def run(self):
        threads = [threading.Thread(target=self._run, args=(i,), daemon=True) for i in range(self.n)]
        for t in threads:
            t.start()
        last, step = None, 0
        stuck_since = None
        while True:
            with self.cond:
                # wait until nobody is running (a thread blocked on a lock held by a paused thread is given up on after a timeout:
                # it stays "running", blocked, and pauses at its next traced line once the lock is released)
                deadline = time.time() + 0.02
                while any(s in ("running", "new") for s in self.state):
                    left = deadline - time.time()
                    if left <= 0:
                        # still not at a traced line: blocked on a lock a paused thread holds; not waited for again until it pauses
                        for i_, s_ in enumerate(self.state):
                            if s_ == "running" and self.turn == i_:
                                self.turn, self.state[i_] = None, "waiting"      # it has not even woken up yet: still parked in _pause
                            elif s_ == "running":
                                self.state[i_] = "blocked"
                        break
                    self.cond.wait(left)
                waiting = [i for i, s in enumerate(self.state) if s == "waiting"]
                if not waiting:
                    if any(s in ("running", "new") for s in self.state):
                        continue
                    if any(s == "blocked" for s in self.state) and stuck_since is None:
                        stuck_since = time.time()
                    if any(s == "blocked" for s in self.state) and time.time() - stuck_since < 2.0:
                        self.cond.wait(0.005)      # the lock it waits for has been released: it will reach a traced line
                        continue
                    if not all(s == "done" for s in self.state):
                        import traceback
                        frames = sys._current_frames()
                        dump = ["".join(traceback.format_stack(frames[t.ident])[-4:]) for t in threads if t.ident in frames and t.is_alive()]
                        self.errors.append(("controller", "threads neither finished nor reached a traced line: " + ",".join(self.state), dump))
                    break
                if len(waiting) == 1:
                    choice = waiting[0]
                else:
                    if step < len(self.prefix) and self.prefix[step] in waiting:
                        choice = self.prefix[step]
                    elif last in waiting:
                        choice = last                      # default: no preemption
                    else:
                        choice = waiting[0]
                    self.trail.append((choice, [w for w in waiting if w != choice], last in waiting, last))
                    step += 1
                last = choice
                stuck_since = None
                self.turn = choice
                self.state[choice] = "running"
                self.cond.notify_all()
        with self.cond:
            self.free = True
            self.cond.notify_all()
        for t in threads:
            t.join(timeout=2.0)
        return self.trail


def explore(name, make, check, preempt_bound, max_schedules):
    """depth-first over decision vectors (thread chosen at each decision with >= 2 candidates); every vector is re-executed from
    scratch; a preemption is a decision that leaves a thread which could have continued"""
    global evaluations
    import heapq
    stack = [(0, 0, [])]              # (preemptions used, tie-breaker, decision prefix): fewest preemptions first
    tick = 0
    seen = 0
    reported = set()
    while stack and seen < max_schedules:
        _, _, prefix = heapq.heappop(stack)
        fns, finish = make()
        ctl = Controller(fns, prefix)
        trail = ctl.run()
        seen += 1
        evaluations += 1
        problem = check(finish(), ctl.errors)
        sched = [c for c, _, _, _ in trail]
        if problem and problem["class"] not in reported:
            reported.add(problem["class"])
            failures.append(dict(problem, scenario=name, schedule=sched))
        used = 0
        for k, (choice, alts, last_waiting, last) in enumerate(trail):
            if k >= len(prefix):
                for a in alts:
                    cost = used + (1 if (last_waiting and a != last) else 0)
                    if cost <= preempt_bound:
                        tick += 1
                        heapq.heappush(stack, (cost, tick, sched[:k] + [a]))
            if last_waiting and choice != last:
                used += 1
        distinct.add((name, tuple(sched)))
    return seen


def scenario(pubs, pattern, pre_existing=(), prefill=(), more_subscribers=()):
    """pubs: list of lists of (channel, label) per publisher thread; prefill: messages already queued when the threads start;
    more_subscribers: patterns of further consumer threads (each drains once)"""
    def make():
        t = InMemorySemantivaTransport()
        for ch in pre_existing:
            t.publish(ch, data="warm", context=ContextType({}))
            for _ in t.subscribe(ch):
                pass
        for ch, label in prefill:
            t.publish(ch, data=label, context=ContextType({}), metadata={"ch": ch})
        received, per_consumer = [], {}

        def publisher(msgs):
            def f():
                for ch, label in msgs:
                    t.publish(ch, data=label, context=ContextType({}), metadata={"ch": ch})
            return f

        def subscriber():
            for _ in range(2 if not more_subscribers else 1):
                for m in t.subscribe(pattern):
                    received.append((m.metadata.get("ch"), m.data))

        def other(pat):
            mine = per_consumer.setdefault(pat, [])

            def f():
                for m in t.subscribe(pat):
                    mine.append((m.metadata.get("ch"), m.data))
            return f

        def finish():
            rest = []
            for m in t.subscribe("*"):
                rest.append((m.metadata.get("ch"), m.data))
            return [received] + list(per_consumer.values()), rest
        return [publisher(p) for p in pubs] + [subscriber] + [other(p_) for p_ in more_subscribers], finish
    published = [(ch, label) for p in pubs for ch, label in p] + list(prefill)

    def check(result, errors):
        consumers, rest = result
        received = [m for c_ in consumers for m in c_]
        if errors:
            return {"class": "thread-raised-or-deadlocked", "errors": errors[:2]}
        allm = received + rest
        from fnmatch import fnmatch
        lost = [m for m in published if m not in allm]
        if lost:
            return {"class": "message-lost", "lost": lost, "received": received, "still_queued": rest}
        if len(allm) != len(set(allm)) or len(allm) != len(published):
            return {"class": "message-duplicated", "all": allm}
        bad = [m for m in received if not any(fnmatch(m[0], p_) for p_ in (pattern,) + tuple(more_subscribers))]
        if bad:
            return {"class": "subscription-yielded-a-non-matching-channel", "got": bad}
        # order: what ONE consumer received (followed, for a single consumer, by what was still queued) from one publisher on one
        # channel is in publication order; with several consumers only each consumer's own sequence is ordered
        for p in pubs + ([list(prefill)] if prefill else []):
            for ch in {c for c, _ in p}:
                want = [l for c, l in p if c == ch]
                for seq in ([consumers[0] + rest] if len(consumers) == 1 else consumers):
                    got = [l for c, l in seq if c == ch and l in want]
                    if got != [l for l in want if l in got]:
                        return {"class": "per-publisher-channel-order-violated", "want": want, "got": got}
        return None
    return make, check


SCENARIOS = {
    "two-publishers/new-channel": scenario([[("x.1", "a1"), ("x.1", "a2")], [("x.1", "b1")]], "x.*"),
    "two-publishers/existing-channel": scenario([[("x.1", "a1"), ("x.1", "a2")], [("x.1", "b1")]], "x.*", pre_existing=("x.1",)),
    "matching+non-matching": scenario([[("x.1", "a1")], [("y.2", "b1"), ("y.2", "b2")]], "x.*"),
    "exact-name-subscriber/new-channel": scenario([[("x.1", "a1"), ("x.1", "a2")], [("x.1", "b1")]], "x.1"),
    "wildcard-over-two-new-channels": scenario([[("x.1", "a1"), ("x.2", "a2")], [("x.2", "b1")]], "x.*"),
    # two consumers with overlapping patterns on one channel that already holds messages: each message goes to exactly one of them
    "two-subscribers/prefilled-channel": scenario([], "x.*", prefill=(("x.1", "m1"), ("x.1", "m2"), ("x.1", "m3")), more_subscribers=("x.1",)),
    "two-subscribers+publisher": scenario([[("x.1", "a1"), ("x.1", "a2")]], "x.*", prefill=(("x.1", "m1"),), more_subscribers=("x.?",)),
}
only = req.get("scenario")
for name, (make, check) in SCENARIOS.items():
    if only and name != only:
        continue
    explore(name, make, check, 3 if thorough else 2, 6000 if thorough else 600)
    if len(samples) < 2:
        samples.append({"scenario": name, "schedules_so_far": evaluations})



def callback_subscription_closed_at_every_point():
    """a callback subscription (the transport's own runner thread) over a pre-filled channel, closed - as if by another thread that
    runs to completion - at the k-th line the runner executes in in_memory.py, for every k: each message is either handed to the
    callback or still queued afterwards, never lost, never duplicated"""
    global evaluations
    published = ["m1", "m2", "m3"]
    k = 0
    while True:
        k += 1
        t = InMemorySemantivaTransport()
        for label in published:
            t.publish("x.1", data=label, context=ContextType({}), metadata={"ch": "x.1"})
        delivered, state = [], {"n": 0, "closed": False}

        def tracer(frame, event, arg):
            if not frame.f_code.co_filename.endswith(TARGET):
                return None

            def local(fr, ev, a):
                if ev == "line" and not state["closed"]:
                    state["n"] += 1
                    if state["n"] == k:
                        sub_ = fr.f_locals.get("sub") or fr.f_locals.get("self")
                        if sub_ is not None and hasattr(sub_, "close") and hasattr(sub_, "_pattern"):
                            sub_.close()
                            state["closed"] = True
                return local
            return local
        threading.settrace(tracer)
        try:
            before = set(threading.enumerate())
            t.subscribe("x.*", callback=lambda m: delivered.append(m.data))
        finally:
            threading.settrace(None)
        for th in set(threading.enumerate()) - before:
            th.join(timeout=5)
        rest = [m.data for m in t.subscribe("x.*")]
        evaluations += 1
        distinct.add(("callback-subscription-closed-at-line", k))
        allm = delivered + rest
        if sorted(allm) != sorted(published):
            lost = [m for m in published if m not in allm]
            failures.append({"class": "message-lost" if lost else "message-duplicated", "scenario": "callback-subscription-closed-at-every-point", "closed_at_line_event": k,
                             "delivered_to_callback": delivered, "still_queued": rest})
            break
        if not state["closed"] or k > 400:
            break                      # the runner finished before reaching its k-th line: every close point has been tried


callback_subscription_closed_at_every_point()
print(json.dumps({"bound": "7 scenarios (five with 2 publishers + 1 subscriber, two with 2 overlapping subscribers on a pre-filled channel) x schedules at line granularity of in_memory.py (incl. the defaultdict factory), preemption bound %d, <= %d schedules per scenario, subscriber drains twice + final drain; a callback subscription over a pre-filled channel closed at every line event of its runner thread" % (3 if thorough else 2, 6000 if thorough else 600),
                  "evaluations": evaluations, "distinct_nontrivial": len(distinct),
                  "rule": "distinct = (scenario, schedule as the sequence of thread choices at traced lines)",
                  "failures": failures[:20], "samples": samples}, default=str))
