"""Bounded stand-in for C01 (labelled bounded): real pipelines over the example component library, run through the real Pipeline and
compared node by node with a reference interpreter of the documented dual-channel semantics (written from the property statement
and the component docstrings, not from the node code):
  * parameters: node configuration > context > processor default, else KeyError at that node;
  * operations replace the data; probes leave the data and store their result under the node's context key; slicers map
    element-wise in order; sources need no input and produce data; sinks pass the data through; rename / delete / template touch
    exactly the keys they name (a missing source key is a KeyError at that node); a declared context-writing operation writes its
    key, an undeclared write is a KeyError;
  * a prescribed failure raises at that node and no later processor runs.
Observation: the leaf `_process_logic` / `_get_data` functions of the library classes are wrapped (functools.wraps) to log every
invocation with the data and parameters they saw; the log, the returned data and the returned context are compared with the
reference.  All pipelines run in ONE process, so state kept between runs (caches keyed by class identity) is exercised.
Bound: every sequence of length <= 2 over the pool x 6 initial contexts (one with falsy values) x 3 initial payloads, sampled sequences of length 3..6
(quick 1500, thorough 12000)."""
import functools, itertools, json, random, sys, logging
logging.disable(logging.CRITICAL)
from semantiva.pipeline import Pipeline
from semantiva.pipeline.payload import Payload
from semantiva.context_processors.context_types import ContextType
from semantiva.data_types import NoDataType
from semantiva.registry import ProcessorRegistry
import semantiva.examples.test_utils as tu
from semantiva.examples.test_utils import FloatDataType as F, FloatDataCollection as FC

req = json.load(sys.stdin)
rng = random.Random(req.get("seed", 0))
thorough = req.get("tier") == "thorough"
ProcessorRegistry.register_modules(["semantiva.examples.test_utils"])
LOG = []


def logged(cls, meth, name):
    orig = cls.__dict__[meth]
    raw = orig.__func__ if isinstance(orig, classmethod) else orig

    @functools.wraps(raw)
    def w(self_or_cls, *a, **kw):
        seen = [x.data if isinstance(x, F) else ([e.data for e in x] if isinstance(x, FC) else repr(x)) for x in a]
        LOG.append([name, seen, dict(sorted(kw.items()))])
        return raw(self_or_cls, *a, **kw)
    setattr(cls, meth, classmethod(w) if isinstance(orig, classmethod) else w)


for cls_, meth_, nm in ((tu.FloatMultiplyOperation, "_process_logic", "mul"), (tu.FloatMultiplyOperationWithDefault, "_process_logic", "muld"),
                        (tu.FloatAddOperation, "_process_logic", "add"), (tu.FloatSquareOperation, "_process_logic", "sq"),
                        (tu.FloatCollectValueProbe, "_process_logic", "probe"), (tu.FloatBasicProbe, "_process_logic", "basic"),
                        (tu.FloatCollectionSumOperation, "_process_logic", "sum"), (tu.FloatValueDataSource, "_get_data", "src"),
                        (tu.FloatValueDataSourceWithDefault, "_get_data", "srcd"), (tu.FloatDataSink, "_send_data", "sink")):
    logged(cls_, meth_, nm)


class WriteDeclared(tu.FloatOperation):
    """Adds one and records the value it saw under the context key it declares."""

    @classmethod
    def context_keys(cls):
        return ["seen_value"]

    def _process_logic(self, data):
        LOG.append(["write", [data.data], {}])
        self._notify_context_update("seen_value", data.data)
        return F(data.data + 1.0)


class WriteUndeclared(tu.FloatOperation):
    """Writes a context key it does not declare: the documented semantics prescribe a KeyError."""

    def _process_logic(self, data):
        LOG.append(["write-undeclared", [data.data], {}])
        self._notify_context_update("sneaky", data.data)
        return data


class Failing(tu.FloatOperation):
    """Processor error."""

    def _process_logic(self, data, factor: float = 1.0):
        LOG.append(["failing", [data.data], {"factor": factor}])
        raise ArithmeticError("processor error")


class Affine(tu.FloatOperation):
    """gain * x + offset; the offset has a default"""

    def _process_logic(self, data, gain: float, offset: float = 100.0):
        LOG.append(["affine", [data.data], {"gain": gain, "offset": offset}])
        return F(gain * data.data + offset)


def _affine_sweep(extra=None):
    d = {"processor": Affine, "derive": {"parameter_sweep": {"parameters": {"gain": "g"}, "variables": {"g": {"values": [1.0, 2.0]}}, "collection": "FloatDataCollection"}}}
    if extra:
        d["parameters"] = dict(extra)
    return d


NO = object()
# label -> (node config, kind, input kind, [(parameter, default)], log name)
POOL = {
    "src(3)": ({"processor": tu.FloatValueDataSource, "parameters": {"value": 3.0}}, "src", "none", [("value", NO)], "src"),
    "src": ({"processor": tu.FloatValueDataSource}, "src", "none", [("value", NO)], "src"),
    "srcd": ({"processor": tu.FloatValueDataSourceWithDefault}, "src", "none", [("value", 42.0)], "srcd"),
    "mul": ({"processor": tu.FloatMultiplyOperation}, "op", "f", [("factor", NO)], "mul"),
    "mul(2)": ({"processor": tu.FloatMultiplyOperation, "parameters": {"factor": 2.0}}, "op", "f", [("factor", NO)], "mul"),
    "muld": ({"processor": tu.FloatMultiplyOperationWithDefault}, "op", "f", [("factor", 2.0)], "muld"),
    "muld(5)": ({"processor": tu.FloatMultiplyOperationWithDefault, "parameters": {"factor": 5.0}}, "op", "f", [("factor", 2.0)], "muld"),
    "add": ({"processor": tu.FloatAddOperation}, "op", "f", [("addend", NO)], "add"),
    "add(1)": ({"processor": tu.FloatAddOperation, "parameters": {"addend": 1.0}}, "op", "f", [("addend", NO)], "add"),
    "sq": ({"processor": tu.FloatSquareOperation}, "op", "f", [], "sq"),
    "probe->factor": ({"processor": tu.FloatCollectValueProbe, "context_key": "factor"}, "probe", "f", [], "probe"),
    "probe->addend": ({"processor": tu.FloatCollectValueProbe, "context_key": "addend"}, "probe", "f", [], "probe"),
    "probe->k1": ({"processor": tu.FloatCollectValueProbe, "context_key": "k1"}, "probe", "f", [], "probe"),
    "basic->k2": ({"processor": tu.FloatBasicProbe, "context_key": "k2"}, "probe", "f", [], "basic"),
    "rename k1->factor": ({"processor": "rename:k1:factor"}, "rename", None, ("k1", "factor"), None),
    "rename factor->k2": ({"processor": "rename:factor:k2"}, "rename", None, ("factor", "k2"), None),
    "delete factor": ({"processor": "delete:factor"}, "delete", None, ("factor",), None),
    "delete addend": ({"processor": "delete:addend"}, "delete", None, ("addend",), None),
    "template": ({"processor": "template:'{factor}/{k1}':label"}, "template", None, ("factor", "k1"), None),
    "template(k1=5)": ({"processor": "template:'{factor}/{k1}':label", "parameters": {"k1": 5}}, "template", None, ("factor", "k1"), None),
    "rename k1->factor(k1=9)": ({"processor": "rename:k1:factor", "parameters": {"k1": 9.0}}, "rename", None, ("k1", "factor"), None),
    "slice-mul": ({"processor": "slice:FloatMultiplyOperation:FloatDataCollection"}, "slice-op", "c", [("factor", NO)], "mul"),
    "slice-mul(3)": ({"processor": "slice:FloatMultiplyOperation:FloatDataCollection", "parameters": {"factor": 3.0}}, "slice-op", "c", [("factor", NO)], "mul"),
    "slice-muld": ({"processor": "slice:FloatMultiplyOperationWithDefault:FloatDataCollection"}, "slice-op", "c", [("factor", 2.0)], "muld"),
    "slice-add": ({"processor": "slice:FloatAddOperation:FloatDataCollection"}, "slice-op", "c", [("addend", NO)], "add"),
    "slice-probe->k1": ({"processor": "slice:FloatCollectValueProbe:FloatDataCollection", "context_key": "k1"}, "slice-probe", "c", [], "probe"),
    "sum": ({"processor": tu.FloatCollectionSumOperation}, "sum", "c", [], "sum"),
    "sweep-mul": ({"processor": "FloatMultiplyOperation", "derive": {"parameter_sweep": {"parameters": {"factor": "t"}, "variables": {"t": {"values": [1.0, 2.0, 4.0]}},
                                                                                        "collection": "FloatDataCollection"}}}, "sweep-op", "f", [], "mul"),
    # a sweep over a processor with a second, defaulted parameter that no expression computes: it resolves like any parameter
    "sweep-affine": (_affine_sweep(), "sweep-affine", "f", [("offset", 100.0)], "affine"),
    "sweep-affine(offset=1)": (_affine_sweep({"offset": 1.0}), "sweep-affine", "f", [("offset", 100.0)], "affine"),
    "sink": ({"processor": tu.FloatDataSink}, "sink", "f", [], "sink"),
    "write": ({"processor": WriteDeclared}, "write", "f", [], "write"),
    "write-undeclared": ({"processor": WriteUndeclared}, "write-undeclared", "f", [], "write-undeclared"),
    "failing": ({"processor": Failing}, "failing", "f", [("factor", 1.0)], "failing"),
}
FN = {"mul": lambda x, factor: x * factor, "muld": lambda x, factor: x * factor, "add": lambda x, addend: x + addend, "sq": lambda x: x * x}


class Stop(Exception):
    def __init__(self, kinds):
        self.kinds = kinds


def reference(labels, data, ctx):
    """-> ("ok", data, ctx, log) | ("raise", acceptable exception names, log)"""
    ctx, log = dict(ctx), []
    try:
        for lab in labels:
            cfg, kind, want_in, params, lname = POOL[lab]
            if kind in ("rename", "delete", "template"):
                # their parameters resolve like everybody's: node configuration > context; nothing to fall back on => KeyError
                given = cfg.get("parameters", {})
                val = lambda k: given[k] if k in given else ctx[k]
                missing = [k for k in (params if kind == "template" else params[:1]) if k not in given and k not in ctx]
                if missing:
                    raise Stop({"KeyError"})
                if kind == "rename":
                    v = val(params[0])
                    if params[0] not in ctx:
                        raise Stop({"KeyError"})          # the key to remove is not there
                    del ctx[params[0]]
                    ctx[params[1]] = v
                elif kind == "delete":
                    del ctx[params[0]]
                else:
                    ctx["label"] = f"{val('factor')}/{val('k1')}"
                continue
            have = "none" if data is None else ("c" if isinstance(data, list) else "f")
            bad_type = have != want_in
            resolved, unresolved = {}, False
            for name, default in params:
                if name in cfg.get("parameters", {}):
                    resolved[name] = cfg["parameters"][name]
                elif name in ctx:
                    resolved[name] = ctx[name]
                elif default is not NO:
                    resolved[name] = default
                else:
                    unresolved = True
            if bad_type or unresolved:
                raise Stop(({"TypeError"} if bad_type else set()) | ({"KeyError"} if unresolved else set()))
            if kind == "src":
                log.append([lname, [], resolved])
                if not isinstance(resolved["value"], float):
                    raise Stop({"AssertionError"})
                data = resolved["value"]
            elif kind == "op":
                log.append([lname, [data], resolved])
                try:
                    data = FN[lname](data, **resolved)
                except Exception as e:      # noqa  (an operand of the wrong kind taken from the context: processor error)
                    raise Stop({type(e).__name__})
            elif kind == "probe":
                log.append([lname, [data], {}])
                ctx[cfg["context_key"]] = data if lname == "probe" else {"value": data, "type": type(data).__name__, "is_positive": data > 0, "abs_value": abs(data)}
            elif kind == "slice-op":
                out = []
                for x in data:
                    log.append([lname, [x], resolved])
                    try:
                        out.append(FN[lname](x, **resolved))
                    except Exception as e:      # noqa
                        raise Stop({type(e).__name__})
                data = out
            elif kind == "slice-probe":
                for x in data:
                    log.append([lname, [x], {}])
                ctx[cfg["context_key"]] = list(data)
            elif kind == "sum":
                log.append([lname, [list(data)], {}])
                data = float(sum(data)) if data else 0.0
            elif kind == "sweep-op":
                out = []
                for t in (1.0, 2.0, 4.0):
                    log.append([lname, [data], {"factor": t}])
                    out.append(data * t)
                data = out
                ctx["t_values"] = [1.0, 2.0, 4.0]
            elif kind == "sweep-affine":
                out = []
                for g in (1.0, 2.0):
                    log.append([lname, [data], {"gain": g, "offset": resolved["offset"]}])
                    out.append(g * data + resolved["offset"])
                data = out
                ctx["g_values"] = [1.0, 2.0]
            elif kind == "sink":
                log.append([lname, [data], {}])
            elif kind == "write":
                log.append([lname, [data], {}])
                ctx["seen_value"] = data
                data = data + 1.0
            elif kind == "write-undeclared":
                log.append([lname, [data], {}])
                raise Stop({"KeyError"})
            elif kind == "failing":
                log.append([lname, [data], resolved])
                raise Stop({"ArithmeticError"})
    except Stop as s:
        return ("raise", s.kinds, log)
    return ("ok", data, ctx, log)


def real(labels, data, ctx):
    del LOG[:]
    import copy
    nodes = [copy.deepcopy({k: v for k, v in POOL[l][0].items() if k != "processor"}) | {"processor": POOL[l][0]["processor"]} for l in labels]
    payload = Payload(NoDataType() if data is None else (FC([F(x) for x in data]) if isinstance(data, list) else F(data)), ContextType(dict(ctx)))
    try:
        out = Pipeline(nodes).process(payload)
    except Exception as e:      # noqa
        return ("raise", type(e).__name__, list(LOG), str(e)[:160])
    d = out.data
    d = None if isinstance(d, NoDataType) else ([x.data for x in d] if isinstance(d, FC) else (d.data if isinstance(d, F) else repr(d)))
    return ("ok", d, out.context.to_dict(), list(LOG))


failures, evaluations, distinct, samples = [], 0, set(), []


def fail(cls, **kw):
    if sum(1 for f in failures if f["class"] == cls) < 3:
        failures.append(dict({"class": cls}, **kw))


CONTEXTS = [{}, {"factor": 3.0}, {"factor": 0.5, "addend": 2.0, "k1": 7.0}, {"value": 9.0, "k1": 1.5}, {"factor": 0.0, "k1": 0, "addend": 0.0}, {"offset": 5.0, "factor": 2.0}]
DATA = [3.0, None, [1.0, 2.0, 0.0]]


def check(labels, data, ctx):
    global evaluations
    evaluations += 1
    want = reference(labels, data, ctx)
    got = real(labels, data, ctx)
    case = {"pipeline": list(labels), "data": data, "context": ctx}
    norm = lambda lg: json.loads(json.dumps(lg, default=repr))
    if want[0] == "ok":
        distinct.add(tuple(labels))
        if got[0] != "ok":
            return fail("run-raised-although-the-semantics-prescribe-a-result", got=f"{got[1]}: {got[3]}", **case)
        if got[1] != want[1]:
            return fail("returned-data-differs-from-the-documented-semantics", got=got[1], want=want[1], **case)
        if got[2] != want[2]:
            return fail("returned-context-differs-from-the-documented-semantics", got=repr(got[2])[:300], want=repr(want[2])[:300], **case)
        if norm(got[3]) != norm(want[3]):
            return fail("processors-saw-different-data-or-parameters", got=norm(got[3])[:8], want=norm(want[3])[:8], **case)
    else:
        if got[0] == "ok":
            return fail("prescribed-failure-did-not-raise", want=sorted(want[1]), got_data=got[1], **case)
        # (the property prescribes THAT the run raises at this node, not the exception class: the class is not compared)
        if norm(got[2]) != norm(want[2]):
            return fail("failure-not-at-the-prescribed-node(processor-invocations-differ)", got=norm(got[2])[:8], want=norm(want[2])[:8], **case)


labels_all = list(POOL)
for n in (1, 2):
    for seq in itertools.product(labels_all, repeat=n):
        for ctx in CONTEXTS:
            for data in (DATA if n == 1 else DATA[:2]):
                check(seq, data, ctx)
starts = ["src(3)", "srcd", "src"]
BY_IN = {k: [l for l in labels_all if POOL[l][2] in (k, None)] for k in ("f", "c", "none")}
for _ in range(12000 if thorough else 1500):
    n = rng.randint(3, 6)
    data, ctx = rng.choice(DATA), rng.choice(CONTEXTS)
    seq = []
    for _j in range(n):
        # guided: four times out of five the next node is one whose input kind matches what the reference says the data is now
        r = reference(seq, data, ctx)
        if r[0] == "ok" and rng.random() < 0.8:
            kind = "none" if r[1] is None else ("c" if isinstance(r[1], list) else "f")
            seq.append(rng.choice(BY_IN[kind]))
        else:
            seq.append(rng.choice(labels_all))
    check(tuple(seq), data, ctx)
samples.append({"pipelines_with_a_prescribed_result": len(distinct)})
print(json.dumps({"bound": f"{len(POOL)} node configurations; every sequence of length <= 2 x {len(CONTEXTS)} initial contexts x initial payloads {{float, none, collection}}; {'12000' if thorough else '1500'} sampled sequences of length 3..6; one process",
                  "evaluations": evaluations, "distinct_nontrivial": len(distinct),
                  "rule": "distinct = node sequences whose documented semantics prescribe a result (the others prescribe a failure at a node); data, context and the log of leaf-processor invocations compared with a reference interpreter",
                  "failures": failures[:30], "samples": samples}, default=str))
